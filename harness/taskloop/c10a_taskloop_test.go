//go:build verif

package taskloop

// C10a — task loop contract: tasks run one at a time; Run returns nil exactly when its task ran once to
// completion before the return, an error exactly when the task never ran; no task starts after Close has
// returned; the close callback runs once after the last task.

import (
	"context"
	"encoding/json"
	"errors"
	"fmt"
	"hash/fnv"
	"os"
	"path/filepath"
	"regexp"
	"runtime"
	"strconv"
	"strings"
	"sync"
	"sync/atomic"
	"testing"
	"time"

	"pgregory.net/rapid"
)

// ---- minimal statistics (same file format as the package ice helper)

type tlStats struct {
	mu      sync.Mutex
	test    string
	evals   int
	nt      map[uint64]struct{}
	labels  map[string]int
	samples []string
	inconcl int
}

func newTLStats(t *testing.T) *tlStats {
	s := &tlStats{test: t.Name(), nt: map[uint64]struct{}{}, labels: map[string]int{}}
	t.Cleanup(s.flush)

	return s
}

func (s *tlStats) record(desc string, nontrivial bool, labels ...string) {
	s.mu.Lock()
	defer s.mu.Unlock()
	s.evals++
	if nontrivial {
		h := fnv.New64a()
		_, _ = h.Write([]byte(desc))
		s.nt[h.Sum64()] = struct{}{}
		if len(s.samples) < 4 {
			if len(desc) > 1200 {
				desc = desc[:1200] + "…"
			}
			s.samples = append(s.samples, desc)
		}
	}
	for _, l := range labels {
		s.labels[l]++
	}
}

func (s *tlStats) flush() {
	dir := os.Getenv("VERIF_STATS_DIR")
	if dir == "" {
		return
	}
	s.mu.Lock()
	defer s.mu.Unlock()
	hs := make([]string, 0, len(s.nt))
	for h := range s.nt {
		hs = append(hs, strconv.FormatUint(h, 36))
	}
	raw, _ := json.Marshal(map[string]any{
		"test": s.test, "evaluations": s.evals, "nontrivial_hashes": hs, "labels": s.labels, "samples": s.samples, "inconclusive": s.inconcl,
	})
	_ = os.WriteFile(filepath.Join(dir, s.test+".json"), raw, 0o600)
}

func jitter(n int) {
	for i := 0; i < n%8; i++ {
		runtime.Gosched()
	}
	if n >= 8 {
		time.Sleep(time.Duration(n-7) * 3 * time.Microsecond)
	}
}

var blockedStates = regexp.MustCompile(`^goroutine \d+ \[(chan receive|chan send|select|sync\.Mutex\.Lock|sync\.Cond\.Wait|semacquire|sync\.WaitGroup\.Wait|sleep|IO wait|sync\.RWMutex\.(R)?Lock)`)

// stuckClassify applies the stable-blocked rule: two dumps one second apart; if every goroutine that has a
// frame matching pkg is blocked in both, the wait will never end (deadlock); otherwise it is merely slow.
func stuckClassify(pkg string) (deadlock bool, dump string) {
	take := func() (allBlocked bool, text string) {
		buf := make([]byte, 4<<20)
		n := runtime.Stack(buf, true)
		text = string(buf[:n])
		allBlocked = true
		for _, g := range strings.Split(text, "\n\n") {
			if !strings.Contains(g, pkg) || strings.Contains(g, "stuckClassify") {
				continue
			}
			if !blockedStates.MatchString(g) {
				allBlocked = false
			}
		}

		return allBlocked, text
	}
	b1, _ := take()
	time.Sleep(time.Second)
	b2, d2 := take()

	return b1 && b2, d2
}

type tlSub struct {
	CtxMode     int // 0 background, 1 already cancelled, 2 cancelled after CancelDelay
	Body        int // 0 return, 1 yield, 2 block until released or the loop is closing
	StartDelay  int
	CancelDelay int
	HoldDelay   int
}

type tlCloser struct {
	Delay     int
	PreStop   bool
	FromInside bool // Close is called from inside pre-stop of another closer? (no: from a task body, in a fresh goroutine)
}

func TestVerif_C10_TaskLoopContract(t *testing.T) {
	st := newTLStats(t)
	rapid.Check(t, func(rt *rapid.T) {
		nSubmitters := rapid.IntRange(1, 8).Draw(rt, "submitters")
		subs := make([][]tlSub, nSubmitters)
		total := 0
		for g := range subs {
			n := rapid.IntRange(1, 6).Draw(rt, "n")
			for i := 0; i < n; i++ {
				subs[g] = append(subs[g], tlSub{
					CtxMode:     rapid.SampledFrom([]int{0, 0, 0, 1, 2, 2}).Draw(rt, "ctx"),
					Body:        rapid.SampledFrom([]int{0, 0, 1, 2}).Draw(rt, "body"),
					StartDelay:  rapid.IntRange(0, 20).Draw(rt, "startDelay"),
					CancelDelay: rapid.IntRange(0, 30).Draw(rt, "cancelDelay"),
					HoldDelay:   rapid.IntRange(0, 25).Draw(rt, "holdDelay"),
				})
				total++
			}
		}
		nClosers := rapid.IntRange(0, 3).Draw(rt, "closers")
		closers := make([]tlCloser, nClosers)
		for i := range closers {
			closers[i] = tlCloser{Delay: rapid.IntRange(0, 60).Draw(rt, "closeDelay"), PreStop: rapid.Bool().Draw(rt, "preStop")}
		}
		desc := fmt.Sprintf("subs=%+v closers=%+v", subs, closers)

		var (
			inflight, maxInflight    atomic.Int32
			onCloseCount             atomic.Int32
			closeReturned            atomic.Bool
			startedAfterClose        atomic.Int32
			onCloseWhileTaskRunning  atomic.Int32
			finishedTotal            atomic.Int32
			finishedAtOnClose        atomic.Int32
			startedAfterOnClose      atomic.Int32
			onCloseDone              atomic.Bool
			preStopRuns              atomic.Int32
			violMu                   sync.Mutex
			viol                     []string
		)
		addViol := func(sig, format string, args ...any) {
			violMu.Lock()
			viol = append(viol, sig+" "+fmt.Sprintf(format, args...))
			violMu.Unlock()
		}
		loop := New(func() {
			if inflight.Load() != 0 {
				onCloseWhileTaskRunning.Add(1)
			}
			finishedAtOnClose.Store(finishedTotal.Load())
			onCloseCount.Add(1)
			onCloseDone.Store(true)
		})
		if loop.Err() != nil {
			addViol("C10/taskloop/err-before-close", "Err() = %v on a fresh loop", loop.Err())
		}
		started := make([]atomic.Int32, total)
		finished := make([]atomic.Int32, total)
		results := make([]error, total)
		returned := make([]atomic.Bool, total)
		var wg sync.WaitGroup
		id := 0
		racingClose := nClosers > 0 && nSubmitters >= 2
		cancelWhileWaiting := false
		for g := range subs {
			ids := make([]int, len(subs[g]))
			for i := range subs[g] {
				ids[i] = id
				id++
				if subs[g][i].CtxMode == 2 {
					cancelWhileWaiting = true
				}
			}
			wg.Add(1)
			go func(list []tlSub, ids []int) {
				defer wg.Done()
				for i, sb := range list {
					me := ids[i]
					jitter(sb.StartDelay)
					ctx, cancel := context.WithCancel(context.Background())
					switch sb.CtxMode {
					case 1:
						cancel()
					case 2:
						go func(d int) {
							jitter(d)
							cancel()
						}(sb.CancelDelay)
					}
					err := loop.Run(ctx, func(tctx context.Context) {
						if closeReturned.Load() {
							startedAfterClose.Add(1)
						}
						if onCloseDone.Load() {
							startedAfterOnClose.Add(1)
						}
						started[me].Add(1)
						if n := inflight.Add(1); n > maxInflight.Load() {
							maxInflight.Store(n)
						}
						switch sb.Body {
						case 1:
							jitter(sb.HoldDelay)
						case 2:
							tm := time.NewTimer(time.Duration(sb.HoldDelay) * 20 * time.Microsecond)
							select {
							case <-tm.C:
							case <-tctx.Done():
							}
							tm.Stop()
						}
						inflight.Add(-1)
						finished[me].Add(1)
						finishedTotal.Add(1)
					})
					if err == nil && (started[me].Load() != 1 || finished[me].Load() != 1) {
						addViol("C10/taskloop/nil-without-completed-run", "submission %d: Run returned nil but started=%d finished=%d", me, started[me].Load(), finished[me].Load())
					}
					results[me] = err
					returned[me].Store(true)
					cancel()
				}
			}(subs[g], ids)
		}
		for _, c := range closers {
			wg.Add(1)
			go func(c tlCloser) {
				defer wg.Done()
				jitter(c.Delay)
				if c.PreStop {
					loop.CloseWithPreStop(func() { preStopRuns.Add(1) })
				} else {
					loop.Close()
				}
				if onCloseCount.Load() != 1 {
					addViol("C10/taskloop/close-returned-before-onclose", "Close returned with onClose count %d", onCloseCount.Load())
				}
				if inflight.Load() != 0 {
					addViol("C10/taskloop/close-returned-while-task-running", "Close returned while a task was still running")
				}
				closeReturned.Store(true)
				if !errors.Is(loop.Err(), ErrClosed) {
					addViol("C10/taskloop/err-after-close", "Err() = %v after Close", loop.Err())
				}
			}(c)
		}
		doneCh := make(chan struct{})
		go func() { wg.Wait(); close(doneCh) }()
		select {
		case <-doneCh:
		case <-time.After(20 * time.Second):
			dead, dump := stuckClassify("taskloop.(*Loop)")
			if dead {
				rt.Fatalf("VERIF-VIOLATION sig=C10/taskloop/deadlock submitters/closers never returned (all loop goroutines blocked in two dumps)\n%s\n%s", desc, dump)
			}
			st.inconcl++
			rt.Fatalf("VERIF-INCONCLUSIVE: case did not finish within 20 s but goroutines are still runnable\n%s", desc)
		}
		// final close (always), then the end-of-case checks
		loop.Close()
		closeReturned.Store(true)
		time.Sleep(50 * time.Microsecond)
		nErr, nOK := 0, 0
		for i := 0; i < total; i++ {
			if results[i] == nil {
				nOK++

				continue
			}
			nErr++
			if started[i].Load() != 0 {
				addViol("C10/taskloop/error-but-task-ran", "submission %d: Run returned %v but the task started %d time(s)", i, results[i], started[i].Load())
			}
		}
		for i := 0; i < total; i++ {
			if started[i].Load() > 1 || finished[i].Load() > 1 {
				addViol("C10/taskloop/ran-twice", "submission %d ran %d times", i, started[i].Load())
			}
		}
		if maxInflight.Load() > 1 {
			addViol("C10/taskloop/tasks-overlapped", "up to %d tasks ran at the same time", maxInflight.Load())
		}
		if onCloseCount.Load() != 1 {
			addViol("C10/taskloop/onclose-count", "onClose ran %d times", onCloseCount.Load())
		}
		if onCloseWhileTaskRunning.Load() != 0 {
			addViol("C10/taskloop/onclose-during-task", "onClose ran while a task was running")
		}
		if startedAfterOnClose.Load() != 0 || finishedAtOnClose.Load() != finishedTotal.Load() {
			addViol("C10/taskloop/task-after-onclose", "%d task(s) started after onClose (finished at onClose %d, total %d)", startedAfterOnClose.Load(), finishedAtOnClose.Load(), finishedTotal.Load())
		}
		if startedAfterClose.Load() != 0 {
			addViol("C10/taskloop/task-started-after-close-returned", "%d task(s) started after a Close call had returned", startedAfterClose.Load())
		}
		nPre := 0
		for _, c := range closers {
			if c.PreStop {
				nPre++
			}
		}
		if preStopRuns.Load() > 1 {
			addViol("C10/taskloop/prestop-ran-twice", "pre-stop ran %d times", preStopRuns.Load())
		}
		if err := loop.Run(context.Background(), func(context.Context) { addViol("C10/taskloop/run-after-close", "task ran on a closed loop") }); !errors.Is(err, ErrClosed) {
			addViol("C10/taskloop/run-after-close-error", "Run on a closed loop returned %v", err)
		}
		labels := []string{fmt.Sprintf("closers:%d", nClosers)}
		if nErr > 0 && nOK > 0 {
			labels = append(labels, "mixed-outcomes")
		}
		st.record(desc, racingClose || cancelWhileWaiting, labels...)
		violMu.Lock()
		defer violMu.Unlock()
		if len(viol) > 0 {
			sig := strings.SplitN(viol[0], " ", 2)[0]
			rt.Fatalf("VERIF-VIOLATION sig=%s %s\n%s", sig, strings.Join(viol, "\n"), desc)
		}
	})
}
