//go:build verif

package ice

// C19 — address rewrite rules map addresses as documented.
// Oracle: a reference implementation written from the documentation of
// WithAddressRewriteRules / AddressRewriteRule (agent_options.go, external_ip_mapper.go).

import (
	"fmt"
	"net"
	"net/netip"
	"sort"
	"strings"
	"testing"
	"time"

	"github.com/pion/logging"
	"github.com/pion/stun/v3"
	"pgregory.net/rapid"
)

var (
	c19Ifaces    = []string{"", "eth0", "eth1"}
	c19CIDRs     = []string{"", "10.0.0.0/24", "10.0.0.0/8", "192.168.1.0/24", "fd00::/8", "2001:db8::/32", "0.0.0.0/0", "::/0", "10.0.0.6/32"}
	c19Locals4   = []string{"10.0.0.5", "10.0.0.6", "10.1.2.3", "192.168.1.7"}
	c19Locals6   = []string{"fd00::5", "2001:db8::6", "2001:db9::1"}
	c19Ext4      = []string{"203.0.113.1", "203.0.113.2", "198.51.100.7", "198.51.100.8"}
	c19Ext6      = []string{"2001:db8:ffff::1", "2001:db8:ffff::2", "2606:4700::3"}
	c19RuleTypes = []CandidateType{CandidateTypeUnspecified, CandidateTypeHost, CandidateTypeServerReflexive, CandidateTypeRelay}
)

func c19IsV4(s string) bool {
	ip := net.ParseIP(strings.TrimSpace(s))

	return ip != nil && ip.To4() != nil
}

type c19Rule struct {
	AddressRewriteRule
	invalid string // "" or the reason this rule must be rejected
}

func c19RuleGen(allowInvalid bool) *rapid.Generator[c19Rule] {
	return rapid.Custom(func(t *rapid.T) c19Rule {
		r := c19Rule{}
		r.Iface = rapid.SampledFrom([]string{"", "", "", "eth0", "eth0", "eth1"}).Draw(t, "iface")
		r.CIDR = rapid.SampledFrom(append([]string{"", "", "", "10.0.0.0/8", "10.0.0.0/24"}, c19CIDRs...)).Draw(t, "cidr")
		r.AsCandidateType = rapid.SampledFrom(append([]CandidateType{CandidateTypeHost, CandidateTypeHost, CandidateTypeUnspecified}, c19RuleTypes...)).Draw(t, "type")
		r.Mode = rapid.SampledFrom([]AddressRewriteMode{addressRewriteModeUnspecified, AddressRewriteReplace, AddressRewriteAppend}).Draw(t, "mode")
		if rapid.IntRange(0, 2).Draw(t, "hasLocal") == 0 {
			pool := append(append([]string{}, c19Locals4...), c19Locals6...)
			if r.CIDR != "" {
				// Local must lie inside the CIDR for a valid rule
				_, ipn, _ := net.ParseCIDR(r.CIDR)
				var in []string
				for _, l := range pool {
					if ipn.Contains(net.ParseIP(l)) {
						in = append(in, l)
					}
				}
				pool = in
			}
			if len(pool) > 0 {
				r.Local = rapid.SampledFrom(pool).Draw(t, "local")
				if c19IsV4(r.Local) && rapid.IntRange(0, 5).Draw(t, "mappedSpelling") == 0 {
					r.Local = "::ffff:" + r.Local
				}
			}
		}
		nExt := rapid.IntRange(0, 3).Draw(t, "nExt")
		extPool := append(append([]string{}, c19Ext4...), c19Ext6...)
		for i := 0; i < nExt; i++ {
			r.External = append(r.External, rapid.SampledFrom(extPool).Draw(t, "ext"))
		}
		switch rapid.IntRange(0, 3).Draw(t, "networks") {
		case 0:
			r.Networks = nil
		case 1:
			r.Networks = []NetworkType{}
		case 2:
			r.Networks = []NetworkType{rapid.SampledFrom(c17Nets).Draw(t, "nt")}
		case 3:
			r.Networks = rapid.SliceOfNDistinct(rapid.SampledFrom(c17Nets), 1, 3, func(n NetworkType) NetworkType { return n }).Draw(t, "nts")
		}
		if allowInvalid && rapid.IntRange(0, 24).Draw(t, "invalid") == 13 {
			switch rapid.IntRange(0, 5).Draw(t, "invalidKind") {
			case 0:
				r.External = append(r.External, "not-an-ip")
				r.invalid = "bad external IP"
			case 1:
				r.CIDR = "10.0.0.0/33"
				r.invalid = "bad CIDR"
			case 2:
				r.Local = "300.1.1.1"
				r.invalid = "bad local IP"
			case 3:
				r.CIDR = "192.168.1.0/24"
				r.Local = "10.0.0.5"
				r.invalid = "local outside CIDR"
			case 4:
				r.External = append(r.External, "203.0.113.1/10.0.0.5")
				r.invalid = "external with slash"
			case 5:
				r.AsCandidateType = CandidateTypePeerReflexive
				r.invalid = "unsupported candidate type"
			}
		}

		return r
	})
}

func (r c19Rule) String() string {
	return fmt.Sprintf("{ext=%v local=%q iface=%q cidr=%q type=%s mode=%d nets=%v%s}", r.External, r.Local, r.Iface, r.CIDR,
		r.AsCandidateType, r.Mode, r.Networks, map[bool]string{true: " INVALID:" + r.invalid, false: ""}[r.invalid != ""])
}

// ---- reference (from the documentation)

func c19Allowed(r AddressRewriteRule, v4 bool) bool {
	if len(r.Networks) == 0 {
		return true
	}
	for _, n := range r.Networks {
		if v4 && n.IsIPv4() || !v4 && n.IsIPv6() {
			return true
		}
	}

	return false
}

func c19Mode(r AddressRewriteRule) AddressRewriteMode {
	if r.Mode != addressRewriteModeUnspecified {
		return r.Mode
	}
	if r.AsCandidateType == CandidateTypeUnspecified || r.AsCandidateType == CandidateTypeHost {
		return AddressRewriteReplace
	}

	return AddressRewriteAppend
}

// c19CatchAllExternals returns the externals a catch-all rule (no Local) provides to local family v4,
// and whether the rule is active for that family at all.
// ambiguous reports the undocumented situation "non-empty External, all of it filtered out by Networks".
func c19CatchAllExternals(r AddressRewriteRule, v4 bool) (ext []string, active bool, ambiguous bool) {
	if !c19Allowed(r, v4) {
		return nil, false, false
	}
	usableAnywhere := false
	for _, e := range r.External {
		target := c19IsV4(e)
		if r.CIDR != "" {
			ip, _, _ := net.ParseCIDR(r.CIDR)
			target = ip.To4() != nil
		}
		if c19Allowed(r, target) {
			usableAnywhere = true
		}
		if target == v4 {
			ext = append(ext, e)
		}
	}
	if len(r.External) == 0 {
		return nil, true, false // documented: empty External = drop (replace) / no-op (append)
	}
	if !usableAnywhere {
		return nil, true, true
	}

	return ext, len(ext) > 0, false
}

type c19Result struct {
	ips     []string
	matched bool
	mode    AddressRewriteMode
	// diagnostics
	bestRule, bestSpec int
	explicit           bool
	ambiguous          bool
	contenders         int // number of rules matching the lookup
	specs              map[int]bool
}

func c19Reference(rules []c19Rule, typ CandidateType, local, iface string) c19Result {
	lip := net.ParseIP(local)
	v4 := lip.To4() != nil
	res := c19Result{bestRule: -1, bestSpec: -1, specs: map[int]bool{}}
	type cand struct {
		idx, spec int
		ext       []string
	}
	var catchAlls []cand
	for i, cr := range rules {
		r := cr.AddressRewriteRule
		rt := r.AsCandidateType
		if rt == CandidateTypeUnspecified {
			rt = CandidateTypeHost
		}
		if rt != typ {
			continue
		}
		if r.Iface != "" && r.Iface != iface {
			continue
		}
		if r.CIDR != "" {
			_, ipn, _ := net.ParseCIDR(r.CIDR)
			if !ipn.Contains(lip) {
				continue
			}
		}
		if l := strings.TrimSpace(r.Local); l != "" {
			rl := net.ParseIP(l)
			if !c19Allowed(r, rl.To4() != nil) {
				continue // rule limited to the other family: inert
			}
			if rl.Equal(lip) {
				// first explicit Local match wins immediately
				res.ips = append([]string{}, r.External...)
				res.matched, res.mode, res.bestRule, res.explicit = true, c19Mode(r), i, true
				res.contenders++

				return res
			}

			continue
		}
		ext, active, amb := c19CatchAllExternals(r, v4)
		if amb {
			res.ambiguous = true
		}
		if !active {
			continue
		}
		spec := 0
		if r.Iface != "" {
			spec += 2
		}
		if r.CIDR != "" {
			spec++
		}
		catchAlls = append(catchAlls, cand{i, spec, ext})
		res.contenders++
		res.specs[spec] = true
	}
	for _, c := range catchAlls {
		if c.spec > res.bestSpec {
			res.bestSpec, res.bestRule = c.spec, c.idx
			res.ips = c.ext
			res.matched = true
			res.mode = c19Mode(rules[c.idx].AddressRewriteRule)
		}
	}

	return res
}

func c19IPStrings(ips []net.IP) []string {
	out := make([]string, 0, len(ips))
	for _, ip := range ips {
		out = append(out, ip.String())
	}

	return out
}

func c19Norm(ss []string) []string {
	out := make([]string, 0, len(ss))
	for _, s := range ss {
		out = append(out, net.ParseIP(s).String())
	}

	return out
}

func c19Same(a, b []string) bool {
	if len(a) != len(b) {
		return false
	}
	for i := range a {
		if a[i] != b[i] {
			return false
		}
	}

	return true
}

const c19KnownD9 = "C19/precedence/cidr-only-vs-global/lookup-with-iface"

// c19CompareLookup compares the mapper's answer with the reference for one lookup key.
func c19CompareLookup(st *vfStats, t vfFataler, mapper *addressRewriteMapper, rules []c19Rule, typ CandidateType, local, iface string) c19Result {
	ref := c19Reference(rules, typ, local, iface)
	if ref.ambiguous {
		st.Exclude("externals-all-filtered-by-networks(undocumented)")

		return ref
	}
	var (
		ips     []net.IP
		matched bool
		mode    AddressRewriteMode
	)
	if mapper != nil {
		var err error
		ips, matched, mode, err = mapper.findExternalIPs(typ, local, iface)
		if err != nil {
			st.Fail(t, "C19/lookup/error", "findExternalIPs(%s,%s,%q): %v", typ, local, iface, err)
		}
	}
	got := c19IPStrings(ips)
	want := c19Norm(ref.ips)
	desc := func() string {
		var sb strings.Builder
		for i, r := range rules {
			fmt.Fprintf(&sb, "\n  [%d] %s", i, r)
		}

		return fmt.Sprintf("lookup type=%s local=%s iface=%q: got (%v matched=%v mode=%d), reference (%v matched=%v mode=%d rule=%d spec=%d explicit=%v); rules:%s",
			typ, local, iface, got, matched, mode, want, ref.matched, ref.mode, ref.bestRule, ref.bestSpec, ref.explicit, sb.String())
	}
	if matched == ref.matched && (!matched || (mode == ref.mode && c19Same(got, want))) {
		return ref
	}
	// classify the disagreement
	sig := "C19/lookup/disagrees-with-documented-precedence"
	if ref.matched && !ref.explicit && ref.bestSpec == 1 && iface != "" && matched {
		// documented winner is a CIDR-only catch-all and the lookup carries an interface name: is the code's
		// answer what a global catch-all (specificity 0) would have given? -> D9
		alt := c19ReferenceD9(rules, typ, local, iface)
		if alt.matched && mode == alt.mode && c19Same(got, c19Norm(alt.ips)) {
			sig = c19KnownD9
		}
	}
	if !matched && ref.matched {
		sig = "C19/lookup/no-match-where-documented-rule-applies"
	}
	if matched && !ref.matched {
		sig = "C19/lookup/match-where-no-rule-applies"
	}
	st.Fail(t, sig, "%s", desc())

	return ref
}

// c19ReferenceD9 is the reference with the code's known deviation (CIDR-only catch-alls count as
// specificity 0 when the lookup has an interface name). Used only to recognise the known finding.
func c19ReferenceD9(rules []c19Rule, typ CandidateType, local, iface string) c19Result {
	lip := net.ParseIP(local)
	v4 := lip.To4() != nil
	res := c19Result{bestRule: -1, bestSpec: -1}
	for i, cr := range rules {
		r := cr.AddressRewriteRule
		rt := r.AsCandidateType
		if rt == CandidateTypeUnspecified {
			rt = CandidateTypeHost
		}
		if rt != typ || (r.Iface != "" && r.Iface != iface) || strings.TrimSpace(r.Local) != "" {
			continue
		}
		if r.CIDR != "" {
			_, ipn, _ := net.ParseCIDR(r.CIDR)
			if !ipn.Contains(lip) {
				continue
			}
		}
		ext, active, _ := c19CatchAllExternals(r, v4)
		if !active {
			continue
		}
		spec := 0
		if r.Iface != "" {
			spec = 2
			if r.CIDR != "" {
				spec = 3
			}
		} else if iface == "" && r.CIDR != "" {
			spec = 1
		}
		if spec > res.bestSpec {
			res.bestSpec, res.bestRule, res.ips, res.matched, res.mode = spec, i, ext, true, c19Mode(r)
		}
	}

	return res
}

func c19LookupGen() *rapid.Generator[[3]string] {
	return rapid.Custom(func(t *rapid.T) [3]string {
		typ := rapid.SampledFrom([]CandidateType{CandidateTypeHost, CandidateTypeHost, CandidateTypeHost, CandidateTypeHost, CandidateTypeServerReflexive, CandidateTypeRelay}).Draw(t, "ltype")
		pool := append(append(append(append([]string{}, c19Locals4...), c19Locals4...), c19Locals6...), "172.16.0.9", "2a00::1", "::ffff:10.0.0.5")
		local := rapid.SampledFrom(pool).Draw(t, "llocal")
		iface := rapid.SampledFrom([]string{"", "eth0", "eth0", "eth1", "wlan0"}).Draw(t, "liface")

		return [3]string{typ.String(), local, iface}
	})
}

func c19TypeFromString(s string) CandidateType {
	switch s {
	case "host":
		return CandidateTypeHost
	case "srflx":
		return CandidateTypeServerReflexive
	case "relay":
		return CandidateTypeRelay
	}

	return CandidateTypeUnspecified
}

func c19Plain(rules []c19Rule) []AddressRewriteRule {
	out := make([]AddressRewriteRule, len(rules))
	for i, r := range rules {
		out[i] = r.AddressRewriteRule
	}

	return out
}

// The mapper against the reference, all rule shapes (incl. empty External), plus constructor validation.
func TestVerif_C19_MapperVsReference(t *testing.T) {
	st := vfNewStats(t)
	rapid.Check(t, func(rt *rapid.T) {
		rules := rapid.SliceOfN(c19RuleGen(true), 0, 6).Draw(rt, "rules")
		lookups := rapid.SliceOfN(c19LookupGen(), 1, 6).Draw(rt, "lookups")
		anyInvalid := ""
		for _, r := range rules {
			if r.invalid != "" {
				anyInvalid = r.invalid
			}
		}
		mapper, err := newAddressRewriteMapper(c19Plain(rules))
		if anyInvalid != "" {
			st.Record(vfHash(rules), true, "invalid-rule-set")
			if err == nil {
				st.Fail(rt, "C19/validation/invalid-accepted", "rule set with an invalid rule (%s) accepted: %v", anyInvalid, rules)
			}

			return
		}
		if err != nil {
			st.Fail(rt, "C19/validation/valid-rejected", "valid rule set rejected: %v — %v", err, rules)

			return
		}
		nontrivial := false
		var labels []string
		for _, lk := range lookups {
			typ := c19TypeFromString(lk[0])
			ref := c19CompareLookup(st, rt, mapper, rules, typ, lk[1], lk[2])
			if ref.contenders >= 2 && (len(ref.specs) >= 2 || ref.explicit) {
				nontrivial = true
			}
			if ref.explicit {
				labels = append(labels, "explicit")
			} else if ref.matched {
				labels = append(labels, fmt.Sprintf("catchall-spec:%d", ref.bestSpec))
			} else {
				labels = append(labels, "nomatch")
			}
			// cross-family: a rule with neither Local nor CIDR never yields externals of the other family
			if ref.matched && !ref.explicit && rules[ref.bestRule].CIDR == "" && mapper != nil {
				ips, _, _, _ := mapper.findExternalIPs(typ, lk[1], lk[2])
				lv4 := net.ParseIP(lk[1]).To4() != nil
				for _, ip := range ips {
					if (ip.To4() != nil) != lv4 {
						st.Fail(rt, "C19/family/crossed-without-local", "lookup %v returned %v", lk, ips)
					}
				}
			}
		}
		st.Record(vfHash(rules, lookups), nontrivial, labels...)
		if nontrivial && st.WantSample() {
			st.Sample(func() string { return fmt.Sprintf("rules=%v lookups=%v", rules, lookups) })
		}
	})
}

// The public construction paths: WithAddressRewriteRules / AgentConfig.NAT1To1IPs, then lookups and the
// apply helpers used by gathering.
func TestVerif_C19_AgentOptionPath(t *testing.T) {
	st := vfNewStats(t)
	lf := logging.NewDefaultLoggerFactory()
	lf.DefaultLogLevel = logging.LogLevelDisabled
	rapid.Check(t, func(rt *rapid.T) {
		rules := rapid.SliceOfN(c19RuleGen(true), 1, 5).Draw(rt, "rules")
		lookups := rapid.SliceOfN(c19LookupGen(), 1, 5).Draw(rt, "lookups")
		anyInvalid, anyEmpty := "", false
		for _, r := range rules {
			if r.invalid != "" {
				anyInvalid = r.invalid
			}
			if len(r.External) == 0 {
				anyEmpty = true
			}
		}
		agent, err := NewAgentWithOptions(
			WithMulticastDNSMode(MulticastDNSModeDisabled), WithLoggerFactory(lf),
			WithAddressRewriteRules(c19Plain(rules)...),
		)
		if agent != nil {
			defer agent.Close() //nolint:errcheck
		}
		if anyInvalid != "" {
			st.Record(vfHash(rules), true, "invalid-rule-set")
			if err == nil {
				st.Fail(rt, "C19/validation/option-invalid-accepted", "WithAddressRewriteRules accepted an invalid rule (%s): %v", anyInvalid, rules)
			}

			return
		}
		if anyEmpty {
			// the option rejects empty External lists; the statement does not say either way: not judged
			st.Exclude("empty-external-through-option(not judged)")

			return
		}
		if err != nil {
			st.Fail(rt, "C19/validation/option-valid-rejected", "NewAgentWithOptions rejected valid rules: %v — %v", err, rules)

			return
		}
		// duplicates in External are removed by the option (documented in sanitizeExternalIPs): mirror that
		norm := make([]c19Rule, len(rules))
		for i, r := range rules {
			norm[i] = r
			seen := map[string]bool{}
			norm[i].External = nil
			for _, e := range r.External {
				if !seen[e] {
					seen[e] = true
					norm[i].External = append(norm[i].External, e)
				}
			}
		}
		nontrivial := false
		for _, lk := range lookups {
			typ := c19TypeFromString(lk[0])
			ref := c19CompareLookup(st, rt, agent.addressRewriteMapper, norm, typ, lk[1], lk[2])
			if ref.ambiguous {
				continue
			}
			if ref.contenders >= 2 {
				nontrivial = true
			}
			knownD9 := false
			if ref.matched && !ref.explicit && ref.bestSpec == 1 && lk[2] != "" {
				alt := c19ReferenceD9(norm, typ, lk[1], lk[2])
				knownD9 = !(alt.matched && alt.mode == ref.mode && c19Same(c19Norm(alt.ips), c19Norm(ref.ips)))
			}
			if knownD9 {
				continue // already reported through the lookup comparison
			}
			// apply helpers: replace substitutes (empty => drop), append adds (empty => unchanged)
			if typ == CandidateTypeHost && agent.addressRewriteMapper != nil && agent.addressRewriteMapper.hasCandidateType(CandidateTypeHost) {
				addr := netip.MustParseAddr(lk[1]).Unmap()
				out, ok := agent.applyHostAddressRewrite(addr, []netip.Addr{addr}, lk[2])
				want, wantOK := c19ApplyRef(ref, addr.String())
				gotS := []string{}
				for _, a := range out {
					gotS = append(gotS, a.String())
				}
				if ok != wantOK || (ok && !c19Same(gotS, want)) {
					st.Fail(rt, "C19/apply/host", "applyHostAddressRewrite(%s,%q) = %v,%v want %v,%v; rules %v", addr, lk[2], gotS, ok, want, wantOK, rules)
				}
			}
			if typ == CandidateTypeRelay {
				out, ok := agent.resolveRelayAddresses(relayEndpoint{address: net.ParseIP("198.18.0.1"), relAddr: lk[1], iface: lk[2]})
				refR := ref
				want, wantOK := c19ApplyRef(refR, "198.18.0.1")
				if ok != wantOK || (ok && !c19Same(c19IPStrings(out), want)) {
					st.Fail(rt, "C19/apply/relay", "resolveRelayAddresses(rel=%s,%q) = %v,%v want %v,%v; rules %v", lk[1], lk[2], out, ok, want, wantOK, rules)
				}
			}
		}
		st.Record(vfHash(rules, lookups), nontrivial, "option-path")
		if nontrivial && st.WantSample() {
			st.Sample(func() string { return fmt.Sprintf("rules=%v lookups=%v", rules, lookups) })
		}
	})
}

func c19ApplyRef(ref c19Result, original string) ([]string, bool) {
	if !ref.matched {
		return []string{original}, true
	}
	ext := c19Norm(ref.ips)
	if ref.mode == AddressRewriteReplace {
		if len(ext) == 0 {
			return nil, false
		}

		return ext, true
	}

	return append([]string{original}, ext...), true
}

// Legacy NAT1To1IPs validation and mapping.
func TestVerif_C19_LegacyNAT1To1(t *testing.T) {
	st := vfNewStats(t)
	lf := logging.NewDefaultLoggerFactory()
	lf.DefaultLogLevel = logging.LogLevelDisabled
	rapid.Check(t, func(rt *rapid.T) {
		n := rapid.IntRange(1, 5).Draw(rt, "n")
		var entries []string
		type ent struct{ ext, local string }
		var parsed []ent
		invalid := ""
		catch4, catch6 := 0, 0
		for i := 0; i < n; i++ {
			ext := rapid.SampledFrom(append(append([]string{}, c19Ext4...), c19Ext6...)).Draw(rt, "ext")
			switch rapid.IntRange(0, 9).Draw(rt, "form") {
			case 0, 1, 2, 3:
				entries = append(entries, ext)
				parsed = append(parsed, ent{ext, ""})
				if c19IsV4(ext) {
					catch4++
				} else {
					catch6++
				}
			case 4, 5, 6, 7:
				local := rapid.SampledFrom(append(append([]string{}, c19Locals4...), c19Locals6...)).Draw(rt, "local")
				entries = append(entries, ext+"/"+local)
				parsed = append(parsed, ent{ext, local})
			case 8:
				entries = append(entries, rapid.SampledFrom([]string{"1.2.3.4/5.6.7.8/9.9.9.9", "bogus", "1.2.3.4/bogus", "/10.0.0.5", "1.2.3/10.0.0.5"}).Draw(rt, "bad"))
				invalid = "malformed entry"
			case 9:
				entries = append(entries, "  ")
			}
		}
		if catch4 > 1 || catch6 > 1 {
			if invalid == "" {
				invalid = "duplicate catch-all"
			}
		}
		typ := rapid.SampledFrom([]CandidateType{CandidateTypeUnspecified, CandidateTypeHost, CandidateTypeServerReflexive}).Draw(rt, "type")
		agent, err := NewAgent(&AgentConfig{
			MulticastDNSMode: MulticastDNSModeDisabled, LoggerFactory: lf, NAT1To1IPs: entries, NAT1To1IPCandidateType: typ,
		})
		if agent != nil {
			defer agent.Close() //nolint:errcheck
		}
		st.Record(vfHash(entries, typ), len(parsed) >= 2, fmt.Sprintf("invalid:%v", invalid != ""))
		if st.WantSample() {
			st.Sample(func() string { return fmt.Sprintf("NAT1To1IPs=%q type=%s invalid=%q err=%v", entries, typ, invalid, err) })
		}
		if invalid != "" {
			if err == nil {
				st.Fail(rt, "C19/validation/legacy-invalid-accepted", "NAT1To1IPs %q (%s) accepted", entries, invalid)
			}

			return
		}
		if err != nil {
			st.Fail(rt, "C19/validation/legacy-valid-rejected", "NAT1To1IPs %q rejected: %v", entries, err)

			return
		}
		// mapping: explicit local first, else the family's catch-all
		rtyp := typ
		if rtyp == CandidateTypeUnspecified {
			rtyp = CandidateTypeHost
		}
		var rules []c19Rule
		for _, e := range parsed {
			rules = append(rules, c19Rule{AddressRewriteRule: AddressRewriteRule{External: []string{e.ext}, Local: e.local, AsCandidateType: rtyp}})
		}
		locals := append(append([]string{}, c19Locals4...), c19Locals6...)
		sort.Strings(locals)
		for _, l := range locals {
			c19CompareLookup(st, rt, agent.addressRewriteMapper, rules, rtyp, l, rapid.SampledFrom([]string{"", "eth0"}).Draw(rt, "iface"))
		}
	})
}

// Deterministic reproduction of the known finding D9 so that it is reported whenever it is present.
func TestVerif_C19_RegressionD9(t *testing.T) {
	st := vfNewStats(t)
	rules := []c19Rule{
		{AddressRewriteRule: AddressRewriteRule{External: []string{"198.51.100.200"}}},
		{AddressRewriteRule: AddressRewriteRule{External: []string{"203.0.113.200"}, CIDR: "10.0.0.0/24"}},
	}
	mapper, err := newAddressRewriteMapper(c19Plain(rules))
	if err != nil {
		t.Fatalf("harness: %v", err)
	}
	for _, iface := range []string{"", "eth0", "wlan0"} {
		c19CompareLookup(st, t, mapper, rules, CandidateTypeHost, "10.0.0.6", iface)
		st.Record(vfHash("d9", iface), true, "regression")
	}
	st.Sample(func() string { return fmt.Sprintf("rules=%v lookup host/10.0.0.6 with iface \"\", eth0, wlan0", rules) })
}

// TestVerif_C19_GatherPath: the rules as the gatherer applies them.  A relay allocation is made from every
// filtered local address; the gatherer looks the rules up with that base address and the name of the interface
// carrying it, and publishes the relay address rewritten accordingly.  Oracle: the same reference as above,
// keyed by (relay, base address, interface), applied to the allocated relay address.
func TestVerif_C19_GatherPath(t *testing.T) {
	st := vfNewStats(t)
	lf := logging.NewDefaultLoggerFactory()
	lf.DefaultLogLevel = logging.LogLevelDisabled
	rapid.Check(t, func(rt *rapid.T) {
		rules := rapid.SliceOfN(c19RuleGen(false), 1, 4).Draw(rt, "rules")
		for i := range rules {
			if len(rules[i].External) == 0 {
				rules[i].External = []string{"203.0.113.200"} // (the option refuses empty External lists)
			}
			// host and relay candidates are gathered here; other rule types would be refused as ineffective
			rules[i].AsCandidateType = CandidateTypeHost
			if rapid.IntRange(0, 3).Draw(rt, "relayRule") != 0 {
				rules[i].AsCandidateType = CandidateTypeRelay
			}
		}
		// duplicates in External are removed by the option: mirror that
		norm := make([]c19Rule, len(rules))
		for i, r := range rules {
			norm[i] = r
			seen := map[string]bool{}
			norm[i].External = nil
			for _, e := range r.External {
				if !seen[e] {
					seen[e] = true
					norm[i].External = append(norm[i].External, e)
				}
			}
		}
		ifaceOf := map[string]string{}
		var ifaces []fnIface
		for k, name := range []string{"eth0", "eth1"} {
			n := rapid.IntRange(1, 2).Draw(rt, "addrsOnIface")
			ifc := fnIface{Name: name, Up: true}
			for j := 0; j < n; j++ {
				a := c19Locals4[(2*k+j)%len(c19Locals4)]
				ifc.Addrs = append(ifc.Addrs, a)
				ifaceOf[a] = name
			}
			ifaces = append(ifaces, ifc)
		}
		fn := newFakeNet(ifaces)
		a, err := NewAgentWithOptions(WithNet(fn), WithLoggerFactory(lf), WithMulticastDNSMode(MulticastDNSModeDisabled),
			WithCandidateTypes([]CandidateType{CandidateTypeHost, CandidateTypeRelay}), WithNetworkTypes([]NetworkType{NetworkTypeUDP4, NetworkTypeUDP6}), // (both families: a relay address of a disabled family is not published, C18)
			WithInterfaceFilter(func(string) bool { return true }), // filtered path: one allocation per local address
			WithUrls([]*stun.URI{{Scheme: stun.SchemeTypeTURN, Host: "198.51.100.2", Port: 3478, Proto: stun.ProtoTypeUDP, Username: "u", Password: "p"}}),
			WithAddressRewriteRules(c19Plain(rules)...))
		if err != nil {
			st.Fail(rt, "C19/validation/option-valid-rejected", "NewAgentWithOptions rejected valid rules: %v — %v", err, rules)

			return
		}
		a.turnClientFactory = fn.turnFactory
		defer func() {
			done := make(chan struct{})
			go func() { _ = a.Close(); close(done) }()
			select {
			case <-done:
			case <-time.After(20 * time.Second):
			}
		}()
		complete := make(chan struct{}, 1)
		_ = a.OnCandidate(func(c Candidate) {
			if c == nil {
				select {
				case complete <- struct{}{}:
				default:
				}
			}
		})
		if err := a.GatherCandidates(); err != nil {
			rt.Fatalf("harness: %v", err)
		}
		select {
		case <-complete:
		case <-time.After(20 * time.Second):
			st.Inconclusive()
			rt.Fatalf("VERIF-INCONCLUSIVE: gathering did not complete")
		}
		local, _ := a.GetLocalCandidates()
		got := map[string][]string{} // base address -> published relay addresses
		for _, c := range local {
			if c.Type() != CandidateTypeRelay || c.RelatedAddress() == nil {
				continue
			}
			got[c.RelatedAddress().Address] = append(got[c.RelatedAddress().Address], c.Address())
		}
		const allocated = "198.51.100.99"
		nontrivial := false
		for base, iface := range ifaceOf {
			ref := c19Reference(norm, CandidateTypeRelay, base, iface)
			if ref.ambiguous {
				continue
			}
			if ref.matched {
				nontrivial = true
			}
			want, keep := c19ApplyRef(ref, allocated)
			if !keep {
				want = nil
			}
			alt := c19ReferenceD9(norm, CandidateTypeRelay, base, iface)
			wantD9, keepD9 := c19ApplyRef(alt, allocated)
			if !keepD9 {
				wantD9 = nil
			}
			// (published candidates are listed per network type: compare as sets)
			sorted := func(ss []string) []string { out := c19Norm(ss); sort.Strings(out); return out }
			have := sorted(got[base])
			if c19Same(have, sorted(want)) {
				continue
			}
			if c19Same(have, sorted(wantD9)) {
				st.Fail(rt, c19KnownD9, "relay allocation from %s on %s: published %v, documented precedence gives %v\nrules: %v", base, iface, have, c19Norm(want), rules)

				continue
			}
			st.Fail(rt, "C19/gather/relay-address-not-as-documented", "relay allocation from %s on %s: published relay addresses %v, the rules give %v\nrules: %v", base, iface, have, c19Norm(want), rules)
		}
		st.Record(vfHash(rules, ifaceOf), nontrivial, fmt.Sprintf("rule-matched:%v", nontrivial))
		if nontrivial && st.WantSample() {
			st.Sample(func() string { return fmt.Sprintf("rules=%v locals=%v published=%v", rules, ifaceOf, got) })
		}
	})
}

// TestVerif_C19_MuxHostPath: host rules as the UDP-mux gatherer applies them. The mux listens on one of the
// interface addresses; the published host candidates must be those the reference gives for (host, that address,
// the interface carrying it) — interface-scoped rules included.
func TestVerif_C19_MuxHostPath(t *testing.T) {
	st := vfNewStats(t)
	lf := logging.NewDefaultLoggerFactory()
	lf.DefaultLogLevel = logging.LogLevelDisabled
	rapid.Check(t, func(rt *rapid.T) {
		rules := rapid.SliceOfN(c19RuleGen(false), 1, 4).Draw(rt, "rules")
		for i := range rules {
			if len(rules[i].External) == 0 {
				rules[i].External = []string{"203.0.113.200"} // (the option refuses empty External lists)
			}
			rules[i].AsCandidateType = CandidateTypeHost
		}
		norm := make([]c19Rule, len(rules))
		for i, r := range rules {
			norm[i] = r
			seen := map[string]bool{}
			norm[i].External = nil
			for _, e := range r.External {
				if !seen[e] {
					seen[e] = true
					norm[i].External = append(norm[i].External, e)
				}
			}
		}
		ifaceOf := map[string]string{}
		var ifaces []fnIface
		var all []string
		for k, name := range []string{"eth0", "eth1"} {
			ifc := fnIface{Name: name, Up: true}
			for j := 0; j < 2; j++ {
				a := c19Locals4[(2*k+j)%len(c19Locals4)]
				ifc.Addrs = append(ifc.Addrs, a)
				ifaceOf[a] = name
				all = append(all, a)
			}
			ifaces = append(ifaces, ifc)
		}
		muxIP := rapid.SampledFrom(all).Draw(rt, "muxAddress")
		fn := newFakeNet(ifaces)
		base := newC12Base(muxIP + ":7000")
		mux := NewUDPMuxDefault(UDPMuxParams{Logger: lf.NewLogger("mux"), UDPConn: base})
		defer mux.Close() //nolint:errcheck
		a, err := NewAgentWithOptions(WithNet(fn), WithLoggerFactory(lf), WithMulticastDNSMode(MulticastDNSModeDisabled),
			WithCandidateTypes([]CandidateType{CandidateTypeHost}), WithNetworkTypes([]NetworkType{NetworkTypeUDP4, NetworkTypeUDP6}),
			WithUDPMux(mux), WithAddressRewriteRules(c19Plain(rules)...))
		if err != nil {
			st.Fail(rt, "C19/validation/option-valid-rejected", "NewAgentWithOptions rejected valid rules: %v — %v", err, rules)

			return
		}
		defer func() {
			done := make(chan struct{})
			go func() { _ = a.Close(); close(done) }()
			select {
			case <-done:
			case <-time.After(20 * time.Second):
			}
		}()
		complete := make(chan struct{}, 1)
		_ = a.OnCandidate(func(c Candidate) {
			if c == nil {
				select {
				case complete <- struct{}{}:
				default:
				}
			}
		})
		if err := a.GatherCandidates(); err != nil {
			rt.Fatalf("harness: %v", err)
		}
		select {
		case <-complete:
		case <-time.After(20 * time.Second):
			st.Inconclusive()
			rt.Fatalf("VERIF-INCONCLUSIVE: gathering did not complete")
		}
		local, _ := a.GetLocalCandidates()
		var got []string
		for _, c := range local {
			if c.Type() == CandidateTypeHost {
				got = append(got, c.Address())
			}
		}
		iface := ifaceOf[muxIP]
		ref := c19Reference(norm, CandidateTypeHost, muxIP, iface)
		if ref.ambiguous {
			st.Exclude("externals-all-filtered-by-networks(undocumented)")

			return
		}
		want, keep := c19ApplyRef(ref, muxIP)
		if !keep {
			want = nil
		}
		alt := c19ReferenceD9(norm, CandidateTypeHost, muxIP, iface)
		wantD9, keepD9 := c19ApplyRef(alt, muxIP)
		if !keepD9 {
			wantD9 = nil
		}
		sorted := func(ss []string) []string {
			out := c19Norm(ss)
			sort.Strings(out)
			// (one candidate per distinct address: the mux path deduplicates)
			var u []string
			for i, s := range out {
				if i == 0 || out[i-1] != s {
					u = append(u, s)
				}
			}

			return u
		}
		scoped := false
		for _, r := range rules {
			if r.Iface != "" {
				scoped = true
			}
		}
		st.Record(vfHash(rules, muxIP), ref.matched && scoped, fmt.Sprintf("rule-matched:%v", ref.matched), fmt.Sprintf("interface-scoped-rule:%v", scoped))
		if ref.matched && st.WantSample() {
			st.Sample(func() string { return fmt.Sprintf("rules=%v mux=%s(%s) published=%v", rules, muxIP, iface, got) })
		}
		have := sorted(got)
		switch {
		case c19Same(have, sorted(want)):
		case c19Same(have, sorted(wantD9)):
			st.Fail(rt, c19KnownD9, "UDP mux on %s (%s): published %v, documented precedence gives %v\nrules: %v", muxIP, iface, have, sorted(want), rules)
		default:
			st.Fail(rt, "C19/gather/mux-host-address-not-as-documented", "UDP mux on %s (interface %s): published host addresses %v, the rules give %v\nrules: %v", muxIP, iface, have, sorted(want), rules)
		}
	})
}
