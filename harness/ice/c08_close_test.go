//go:build verif

package ice

// C08 — Close always terminates, unblocks everyone, and is final.

import (
	"os"
	"context"
	"errors"
	"fmt"
	"net"
	"net/netip"
	"runtime"
	"strings"
	"sync"
	"sync/atomic"
	"testing"
	"time"

	"github.com/pion/ice/v4/internal/taskloop"
	"github.com/pion/logging"
	"github.com/pion/stun/v3"
	"pgregory.net/rapid"
)

// c08Census counts goroutines that have a frame in pion/ice source files (not in the harness files).
func c08Census() (int, string) {
	buf := make([]byte, 8<<20)
	n := runtime.Stack(buf, true)
	cnt := 0
	var sample string
	for _, g := range strings.Split(string(buf[:n]), "\n\n") {
		lines := strings.Split(g, "\n")
		own := false
		for i := 1; i+1 < len(lines); i += 2 {
			file := lines[i+1]
			if strings.Contains(file, "/repo/") && !strings.Contains(file, "zz_verif_") && !strings.Contains(file, "_test.go") {
				own = true
			}
		}
		if strings.Contains(g, "c08Census") || strings.Contains(g, "testing.(*T).Run") && !own {
			continue
		}
		if own {
			cnt++
			sample = g
		}
	}

	return cnt, sample
}

type c08Blocked struct {
	name string
	ch   chan error
}

func TestVerif_C08_Close(t *testing.T) {
	st := vfNewStats(t)
	rapid.Check(t, func(rt *rapid.T) {
		controlling := rapid.Bool().Draw(rt, "controlling")
		nOps := rapid.IntRange(0, 8).Draw(rt, "nOps")
		ops := make([]string, nOps)
		for i := range ops {
			ops[i] = rapid.SampledFrom([]string{
				"gather", "gather", "addRemote", "start", "start", "connect", "connect", "blockedRead", "blockedWrite", "awaitConnect", "dial",
				"restart", "tick", "releaseStun", "releaseTurn",
			}).Draw(rt, "op")
		}
		closeAt := rapid.IntRange(0, nOps).Draw(rt, "closeAt")
		flavour := rapid.SampledFrom([]string{"Close", "Close", "GracefulClose", "Conn.Close"}).Draw(rt, "flavour")
		fromHandler := rapid.IntRange(0, 3).Draw(rt, "fromHandler") == 0
		handlerState := rapid.SampledFrom([]ConnectionState{ConnectionStateChecking, ConnectionStateConnected}).Draw(rt, "handlerState")
		handlerKind := rapid.SampledFrom([]string{"state", "state", "candidate", "selected-pair"}).Draw(rt, "handlerKind")
		closers := rapid.IntRange(1, 3).Draw(rt, "closers")
		stunMode := rapid.SampledFrom([]string{"now", "later", "never"}).Draw(rt, "stunMode")
		turnMode := rapid.SampledFrom([]string{"ok", "allocate-blocks"}).Draw(rt, "turnMode")
		closeErr := rapid.IntRange(0, 4).Draw(rt, "socketCloseError") == 0
		closeStuck := rapid.IntRange(0, 4).Draw(rt, "socketCloseFailsAndReadStaysBlocked") == 0
		slowHandler := rapid.IntRange(0, 3).Draw(rt, "slowCandidateHandler") == 0
		desc := fmt.Sprintf("controlling=%v ops=%v closeAt=%d flavour=%s fromHandler=%v(%s/%s) closers=%d stun=%s turn=%s closeErr=%v closeStuck=%v slowHandler=%v",
			controlling, ops, closeAt, flavour, fromHandler, handlerKind, handlerState, closers, stunMode, turnMode, closeErr, closeStuck, slowHandler)

		before, _ := c08Census()
		fn := newFakeNet([]fnIface{{Name: "eth0", Up: true, Addrs: []string{"10.0.0.1"}}})
		fn.stunServers["198.51.100.1:3478"] = stunMode
		fn.turnMode = turnMode
		fn.closeErr = closeErr
		cfg := simAgentConfig{
			controlling: controlling, maxBinding: 7, disconnected: time.Hour, keepalive: 2 * time.Second, explicitTimeout: true,
			extra: []AgentOption{
				WithNet(fn), WithCandidateTypes([]CandidateType{CandidateTypeHost, CandidateTypeServerReflexive, CandidateTypeRelay}),
				WithUrls([]*stun.URI{
					{Scheme: stun.SchemeTypeSTUN, Host: "198.51.100.1", Port: 3478, Proto: stun.ProtoTypeUDP},
					{Scheme: stun.SchemeTypeTURN, Host: "198.51.100.2", Port: 3478, Proto: stun.ProtoTypeUDP, Username: "u", Password: "p"},
				}),
				WithSTUNGatherTimeout(60 * time.Millisecond),
			},
		}
		s, err := newSoloSim(cfg, []duoSockSpec{{Kind: simKindHost}}, []soloEpSpec{{Typ: CandidateTypeHost}})
		if err != nil {
			rt.Fatalf("harness: %v", err)
		}
		defer s.close()
		a := s.ag.a
		a.turnClientFactory = fn.turnFactory
		s.ag.socks[0].closeErr = closeErr
		s.ag.socks[0].closeStuck = closeStuck
		conn := &Conn{agent: a}
		var (
			closeReturned     atomic.Bool
			gracefulReturned  atomic.Bool
			handlerAfterGrace atomic.Int32
			handlerRunning    atomic.Int32
			statesMu          sync.Mutex
			states            []ConnectionState
			closedFromHandler atomic.Bool
			releaseSlow       = make(chan struct{})
		)
		onHandler := func() func() {
			if gracefulReturned.Load() {
				handlerAfterGrace.Add(1)
			}
			handlerRunning.Add(1)

			return func() { handlerRunning.Add(-1) }
		}
		_ = a.OnConnectionStateChange(func(cs ConnectionState) {
			defer onHandler()()
			statesMu.Lock()
			states = append(states, cs)
			statesMu.Unlock()
			if fromHandler && handlerKind == "state" && cs == handlerState && closedFromHandler.CompareAndSwap(false, true) {
				if flavour == "GracefulClose" {
					// documented: GracefulClose must not be called from inside a handler; use a fresh goroutine
					go func() { _ = a.GracefulClose(); gracefulReturned.Store(true); closeReturned.Store(true) }()
				} else {
					_ = a.Close()
					closeReturned.Store(true)
				}
			}
		})
		closeFromHere := func() {
			if closedFromHandler.CompareAndSwap(false, true) {
				if flavour == "GracefulClose" {
					go func() { _ = a.GracefulClose(); gracefulReturned.Store(true); closeReturned.Store(true) }()
				} else {
					_ = a.Close()
					closeReturned.Store(true)
				}
			}
		}
		_ = a.OnCandidate(func(Candidate) {
			defer onHandler()()
			if fromHandler && handlerKind == "candidate" {
				closeFromHere()
			}
			if slowHandler {
				select {
				case <-releaseSlow:
				case <-time.After(300 * time.Microsecond):
				}
			}
		})
		_ = a.OnSelectedCandidatePairChange(func(Candidate, Candidate) {
			defer onHandler()()
			if fromHandler && handlerKind == "selected-pair" {
				closeFromHere()
			}
		})
		peerRole := "controlled"
		if !controlling {
			peerRole = "controlling"
		}
		var lastGatherDone chan struct{}
		var blocked []c08Blocked
		spawn := func(name string, f func() error) {
			ch := make(chan error, 1)
			blocked = append(blocked, c08Blocked{name, ch})
			go func() { ch <- f() }()
		}
		started := false
		lbl := map[string]bool{}
		runOp := func(op string) {
			switch op {
			case "gather":
				_ = a.GatherCandidates()
				c11Jitter(rapid.IntRange(0, 20).Draw(rt, "gatherJitter"))
			case "addRemote":
				_ = a.AddRemoteCandidate(s.epCandidate(0, soloEpSpec{Typ: CandidateTypeHost}))
			case "start":
				if !started && !closeReturned.Load() {
					if err := s.ag.start(s.peer.ufrag, s.peer.pwd); err == nil {
						started = true
					}
				}
			case "connect":
				if started && !closeReturned.Load() && s.ag.selectedPair() == nil && !s.ag.socks[0].isClosed() {
					_ = s.ag.addRemoteSync(s.epCandidate(0, soloEpSpec{Typ: CandidateTypeHost}))
					if controlling {
						for r := 0; r < 2; r++ {
							s.ag.tick()
							for _, d := range s.agentRequests() {
								s.removeInflight(d)
								if ep := s.epByAddr(d.dst); ep != nil && !d.src.isClosed() {
									s.answer(d, ep)
								}
							}
						}
					} else {
						s.peerRequest(s.eps[0], s.ag.socks[0], true, nil, 100, peerRole, 77)
						for _, d := range s.agentRequests() {
							s.removeInflight(d)
							if ep := s.epByAddr(d.dst); ep != nil && !d.src.isClosed() {
								s.answer(d, ep)
							}
						}
					}
				}
			case "blockedRead":
				spawn("Conn.Read", func() error { _, err := conn.Read(make([]byte, 1500)); return err })
				lbl["blocked-read"] = true
			case "blockedWrite":
				if s.ag.selectedPair() != nil {
					s.ag.socks[0].mu.Lock()
					s.ag.socks[0].blockWrites = true
					s.ag.socks[0].mu.Unlock()
					spawn("Conn.Write", func() error { _, err := conn.Write([]byte("blocked payload")); return err })
					for d := time.Now().Add(2 * time.Second); s.ag.socks[0].blockedWriters() == 0 && time.Now().Before(d); {
						runtime.Gosched()
					}
					lbl["blocked-write"] = true
				}
			case "awaitConnect":
				spawn("AwaitConnect", func() error { return a.AwaitConnect(context.Background()) })
				lbl["blocked-await"] = true
			case "dial":
				if !started {
					started = true
					if controlling {
						spawn("Dial", func() error { _, err := a.Dial(context.Background(), s.peer.ufrag, s.peer.pwd); return err })
					} else {
						spawn("Accept", func() error { _, err := a.Accept(context.Background(), s.peer.ufrag, s.peer.pwd); return err })
					}
					select {
					case <-s.ag.contactCh:
					case <-time.After(2 * time.Second):
					}
					lbl["blocked-dial"] = true
				}
			case "restart":
				_ = a.Restart("", "")
			case "tick":
				s.ag.tick()
			case "releaseStun":
				fn.releaseOne()
			case "releaseTurn":
				select {
				case fn.turnRelease <- struct{}{}:
				default:
				}
			}
		}
		var closerResults []chan error
		doClose := func() {
			if fn.pendingCount() > 0 || turnMode == "allocate-blocks" {
				lbl["close-during-gather-exchange"] = true
			}
			if fromHandler && closedFromHandler.Load() {
				return // the handler already closed
			}
			for c := 0; c < closers; c++ {
				ch := make(chan error, 1)
				closerResults = append(closerResults, ch)
				fl := flavour
				go func() {
					var err error
					switch fl {
					case "GracefulClose":
						err = a.GracefulClose()
						gracefulReturned.Store(true)
					case "Conn.Close":
						err = conn.Close()
					default:
						err = a.Close()
					}
					closeReturned.Store(true)
					ch <- err
				}()
			}
		}
		closedIssued := false
		for i := 0; i <= nOps; i++ {
			if i == closeAt {
				doClose()
				closedIssued = true
			}
			if i < nOps {
				runOp(ops[i])
			}
		}
		_ = closedIssued
		// owned blocking points are released so that nothing waits on the harness
		releaseAll := func() {
			for fn.releaseOne() {
			}
			for k := 0; k < 8; k++ {
				select {
				case fn.turnRelease <- struct{}{}:
				default:
				}
			}
		}
		if !fromHandler || !closedFromHandler.Load() {
			// make sure a closer exists (the handler variant may never have fired)
			if len(closerResults) == 0 {
				doClose()
			}
		}
		releaseAll()
		close(releaseSlow)
		waitCh := func(ch chan error, what string) (error, bool) {
			select {
			case err := <-ch:
				return err, true
			case <-time.After(25 * time.Second):
				dead, dump := vfStuck("pion/ice/v4")
				if dead {
					st.Fail(rt, "C08/"+what+"/never-returns", "%s did not return (all pion/ice goroutines blocked in two dumps)\n%s\n%s", what, desc, dump)
				}
				st.Inconclusive()
				rt.Fatalf("VERIF-INCONCLUSIVE: %s still running after 25 s\n%s", what, desc)

				return nil, false
			}
		}
		for _, ch := range closerResults {
			waitCh(ch, "close")
		}
		if fromHandler && closedFromHandler.Load() {
			for d := time.Now().Add(25 * time.Second); !closeReturned.Load() && time.Now().Before(d); {
				time.Sleep(100 * time.Microsecond)
			}
			if !closeReturned.Load() {
				dead, dump := vfStuck("pion/ice/v4")
				if dead {
					st.Fail(rt, "C08/close-from-handler/never-returns", "Close called from a connection-state handler did not return\n%s\n%s", desc, dump)
				}
				st.Inconclusive()
				rt.Fatalf("VERIF-INCONCLUSIVE: close from handler still running\n%s", desc)
			}
			lbl["close-from-handler"] = true
		}
		logAtClose := s.w.logLen()
		// Close waits for the latest gathering cycle (cancelled or not) to wind down before it returns
		// (read after the loop has ended: the task loop was the only writer and Close has returned)
		if lastGatherDone = a.gatherCandidateDone; lastGatherDone != nil {
			select {
			case <-lastGatherDone:
			default:
				st.Fail(rt, "C08/final/gather-goroutine-running-after-close", "Close returned while the latest gathering cycle is still running\n%s", desc)
			}
		}
		// every blocked call returns, with an error
		for _, b := range blocked {
			err, _ := waitCh(b.ch, "blocked-"+b.name)
			if err == nil && b.name != "AwaitConnect" && b.name != "Dial" && b.name != "Accept" && b.name != "Conn.Write" {
				st.Fail(rt, "C08/unblock/"+b.name+"-returned-nil", "%s returned without error after Close\n%s", b.name, desc)
			}
		}
		// later API calls: prompt, without effect, closed error where the result depends on agent state
		type call struct {
			name     string
			f        func() error
			wantErr  bool
		}
		lc := s.ag.socks[0].cand
		calls := []call{
			{"GatherCandidates", func() error { return a.GatherCandidates() }, true},
			{"GetLocalCandidates", func() error { c, err := a.GetLocalCandidates(); if len(c) != 0 { return fmt.Errorf("returned %d candidates", len(c)) }; return err }, true}, //nolint:err113
			{"GetRemoteCandidates", func() error { _, err := a.GetRemoteCandidates(); return err }, true},
			{"GetLocalUserCredentials", func() error { _, _, err := a.GetLocalUserCredentials(); return err }, true},
			{"GetRemoteUserCredentials", func() error { _, _, err := a.GetRemoteUserCredentials(); return err }, true},
			{"GetGatheringState", func() error { _, err := a.GetGatheringState(); return err }, true},
			{"Restart", func() error { return a.Restart("", "") }, true},
			{"SetRemoteCredentials", func() error { return a.SetRemoteCredentials("uuuu", "pppppppppppppppppppppppp") }, true},
			{"UpdateOptions", func() error { return a.UpdateOptions(WithUrls(nil)) }, true},
			{"RenominateCandidate", func() error { return a.RenominateCandidate(lc, s.epCandidate(0, soloEpSpec{Typ: CandidateTypeHost})) }, true},
			{"StartDial", func() error { _, err := a.StartDial("uuuu", "pppppppppppppppppppppppp"); return err }, true},
			{"Accept", func() error { _, err := a.Accept(context.Background(), "uuuu", "pppppppppppppppppppppppp"); return err }, true},
			{"AwaitConnect", func() error { return a.AwaitConnect(context.Background()) }, true}, // (a closed agent is not connected, even if it once was)
			{"Conn.Read", func() error { _, err := conn.Read(make([]byte, 100)); return err }, true},
			{"Conn.Write", func() error { _, err := conn.Write([]byte("x")); return err }, true},
			{"Conn.WriteToPair", func() error { _, err := conn.WriteToPair(1, []byte("x")); return err }, true},
			{"AddRemoteCandidate", func() error { return a.AddRemoteCandidate(s.epCandidate(0, soloEpSpec{Typ: CandidateTypeHost})) }, true}, // (a closed agent will never add it: the call must say so)
			{"GetCandidatePairsStats", func() error { if n := len(a.GetCandidatePairsStats()); n != 0 { return fmt.Errorf("returned %d pairs", n) }; return nil }, false}, //nolint:err113
			{"GetSelectedCandidatePair", func() error { p, err := a.GetSelectedCandidatePair(); if p != nil { return fmt.Errorf("selected pair still set") }; return err }, false}, //nolint:err113
			{"Conn.GetCandidatePairsInfo", func() error { if n := len(conn.GetCandidatePairsInfo()); n != 0 { return fmt.Errorf("returned %d", n) }; return nil }, false}, //nolint:err113
			{"Close", func() error { return a.Close() }, false},
			{"GracefulClose", func() error { return a.GracefulClose() }, false},
			{"Conn.Close", func() error { return conn.Close() }, false},
		}
		for _, c := range calls {
			ch := make(chan error, 1)
			go func() { ch <- c.f() }()
			err, _ := waitCh(ch, "post-close-"+c.name)
			switch {
			case c.wantErr && !errors.Is(err, taskloop.ErrClosed):
				st.Fail(rt, "C08/final/"+c.name+"-not-closed-error", "%s after Close returned %v (want the closed error)\n%s", c.name, err, desc)
			case !c.wantErr && err != nil && (strings.HasPrefix(c.name, "Get") || strings.HasPrefix(c.name, "Conn.Get")):
				st.Fail(rt, "C08/final/"+c.name+"-not-empty", "%s after Close: %v\n%s", c.name, err, desc)
			}
		}
		gracefulReturned.Store(gracefulReturned.Load() || false)
		// nothing is emitted after Close returned
		time.Sleep(200 * time.Microsecond)
		if out := s.w.emittedSince(logAtClose, 0); len(out) != 0 {
			st.Fail(rt, "C08/final/datagram-after-close", "%d datagram(s) emitted after Close had returned: %v\n%s", len(out), out, desc)
		}
		// the callback stream ends with Closed (wait until the notifier is idle), nothing after it
		s.w.settle()
		statesMu.Lock()
		got := append([]ConnectionState{}, states...)
		statesMu.Unlock()
		if flavour == "GracefulClose" && !fromHandler {
			if len(got) == 0 || got[len(got)-1] != ConnectionStateClosed {
				st.Fail(rt, "C08/final/closed-not-notified", "GracefulClose returned but the last notified state is %v\n%s", got, desc)
			}
		}
		for i, cs := range got {
			if cs == ConnectionStateClosed && i != len(got)-1 {
				st.Fail(rt, "C08/final/state-after-closed", "states notified after Closed: %v\n%s", got, desc)
			}
		}
		if handlerAfterGrace.Load() != 0 {
			st.Fail(rt, "C08/graceful/handler-after-return", "%d handler invocation(s) started after GracefulClose had returned\n%s", handlerAfterGrace.Load(), desc)
		}
		if gracefulReturned.Load() && !fromHandler && handlerRunning.Load() != 0 {
			st.Fail(rt, "C08/graceful/handler-still-running", "a handler is still running after GracefulClose returned\n%s", desc)
		}
		// no goroutine started by the agent keeps running; every socket released
		verifContactTakers.Delete(a)
		ok := false
		var after int
		var sample string
		for d := time.Now().Add(5 * time.Second); time.Now().Before(d); {
			after, sample = c08Census()
			if after <= before {
				ok = true

				break
			}
			time.Sleep(200 * time.Microsecond)
		}
		if !ok {
			st.Fail(rt, "C08/final/goroutine-left", "%d pion/ice goroutine(s) before, %d after Close, e.g.\n%s\n%s", before, after, sample, desc)
		}
		// sockets of a cycle superseded by Restart are released when that cycle has wound down (bounded wait,
		// same grace as the goroutine census)
		var open []string
		for d := time.Now().Add(5 * time.Second); time.Now().Before(d); {
			if open, _, _ = fn.tally(); len(open) == 0 {
				break
			}
			time.Sleep(200 * time.Microsecond)
		}
		if len(open) != 0 {
			st.Fail(rt, "C08/final/socket-left-open", "sockets still open after Close: %v\n%s", open, desc)
		}
		if !s.ag.socks[0].isClosed() && !closeStuck {
			st.Fail(rt, "C08/final/socket-left-open", "candidate socket still open after Close\n%s", desc)
		}
		if closeStuck {
			lbl["socket-close-fails-read-stays-blocked"] = true
		}
		var labels []string
		for l := range lbl {
			labels = append(labels, l)
		}
		labels = append(labels, "flavour:"+flavour)
		nontrivial := lbl["blocked-read"] || lbl["blocked-write"] || lbl["blocked-await"] || lbl["blocked-dial"] || lbl["close-during-gather-exchange"] || lbl["close-from-handler"]
		st.Record(vfHashStr(desc), nontrivial, labels...)
		if nontrivial && st.WantSample() {
			st.Sample(func() string { return desc })
		}
	})
}


// Close with a TCP passive candidate whose receive queue is full (a peer floods it while nothing drains).
func TestVerif_C08_CloseWithFloodedTCP(t *testing.T) {
	st := vfNewStats(t)
	lf := simLoggerFactory
	rapid.Check(t, func(rt *rapid.T) {
		readBuf := rapid.IntRange(1, 6).Draw(rt, "readBuffer")
		flood := rapid.IntRange(0, 12).Draw(rt, "floodPackets")
		startAgent := rapid.Bool().Draw(rt, "startAgent")
		flavour := rapid.SampledFrom([]string{"Close", "GracefulClose"}).Draw(rt, "flavour")
		desc := fmt.Sprintf("readBuffer=%d flood=%d started=%v flavour=%s", readBuf, flood, startAgent, flavour)
		fn := newFakeNet([]fnIface{{Name: "eth0", Up: true, Addrs: []string{"10.0.0.1"}}})
		ln := newC15Listener()
		mux := NewTCPMuxDefault(TCPMuxParams{Listener: ln, Logger: lf.NewLogger("mux"), ReadBufferSize: readBuf})
		defer func() {
			done := make(chan struct{})
			go func() { _ = mux.Close(); close(done) }()
			select {
			case <-done:
			case <-time.After(10 * time.Second):
			}
		}()
		a, err := NewAgentWithOptions(WithNet(fn), WithLoggerFactory(lf), WithMulticastDNSMode(MulticastDNSModeDisabled),
			WithCandidateTypes([]CandidateType{CandidateTypeHost}), WithNetworkTypes([]NetworkType{NetworkTypeTCP4}), WithTCPMux(mux))
		if err != nil {
			rt.Fatalf("harness: %v", err)
		}
		gotCand := make(chan struct{}, 4)
		_ = a.OnCandidate(func(c Candidate) {
			if c == nil {
				gotCand <- struct{}{}
			}
		})
		if err := a.GatherCandidates(); err != nil {
			rt.Fatalf("harness: %v", err)
		}
		select {
		case <-gotCand:
		case <-time.After(20 * time.Second):
			st.Inconclusive()
			rt.Fatalf("VERIF-INCONCLUSIVE: gathering did not complete")
		}
		if startAgent {
			if _, err := a.StartAccept("peerUfragXY", "peerPasswordPeerPassword0123"); err != nil {
				rt.Fatalf("harness: %v", err)
			}
		}
		ufrag, _, _ := a.GetLocalUserCredentials()
		cp, sp := net.Pipe()
		remote := &net.TCPAddr{IP: net.IPv4(198, 51, 100, 7), Port: 40000}
		ln.ch <- &c15Conn{Conn: sp, local: &net.TCPAddr{IP: net.IPv4(10, 0, 0, 1), Port: 8443}, remote: remote}
		go func() {
			_ = cp.SetWriteDeadline(time.Now().Add(5 * time.Second))
			for i := 0; i <= flood; i++ {
				if _, err := cp.Write(c15Frame(c15StunBinding(ufrag+":peer", true, stun.MethodBinding))); err != nil {
					return
				}
			}
		}()
		c11Jitter(rapid.IntRange(0, 40).Draw(rt, "jitter"))
		done := make(chan error, 1)
		go func() {
			if flavour == "GracefulClose" {
				done <- a.GracefulClose()
			} else {
				done <- a.Close()
			}
		}()
		select {
		case <-done:
		case <-time.After(25 * time.Second):
			dead, dump := vfStuck("pion/ice/v4")
			if dead {
				st.Fail(rt, "C08/close/never-returns", "Close did not return with a flooded TCP candidate (%s)\n%s", desc, dump)
			}
			st.Inconclusive()
			rt.Fatalf("VERIF-INCONCLUSIVE: Close still running after 25 s (%s)", desc)
		}
		_ = cp.Close()
		st.Record(vfHashStr(desc), flood > readBuf, fmt.Sprintf("flooded:%v", flood > readBuf))
		if flood > readBuf && st.WantSample() {
			st.Sample(func() string { return desc })
		}
	})
}

// TestVerif_C08_CloseDuringSrflxMuxGather: server-reflexive gathering through a UniversalUDPMux whose STUN
// server never answers, with a STUN gather timeout of a minute; Close (optionally after a Restart and a second
// GatherCandidates) is injected once the request is on the wire and must return at once, not at the timeout.
func TestVerif_C08_CloseDuringSrflxMuxGather(t *testing.T) {
	st := vfNewStats(t)
	lf := simLoggerFactory
	if os.Getenv("VERIF_DEBUG_LOG") != "" {
		lf = logging.NewDefaultLoggerFactory()
		lf.DefaultLogLevel = logging.LogLevelDebug
	}
	rapid.Check(t, func(rt *rapid.T) {
		flavour := rapid.SampledFrom([]string{"Close", "GracefulClose"}).Draw(rt, "flavour")
		restartFirst := rapid.Bool().Draw(rt, "restartAndRegatherFirst")
		withHost := rapid.Bool().Draw(rt, "hostCandidatesToo")
		desc := fmt.Sprintf("flavour=%s restartFirst=%v withHost=%v", flavour, restartFirst, withHost)
		before, _ := c08Census()
		fn := newFakeNet([]fnIface{{Name: "eth0", Up: true, Addrs: []string{"10.0.0.1"}}})
		base := newC12Base("10.0.0.1:7100")
		requests := make(chan struct{}, 16)
		base.onWrite = func(data []byte, dst netip.AddrPort) {
			if netip.AddrPortFrom(dst.Addr().Unmap(), dst.Port()).String() == "198.51.100.1:3478" && stun.IsMessage(data) {
				select {
				case requests <- struct{}{}:
				default:
				}
			}
		}
		mux := NewUniversalUDPMuxDefault(UniversalUDPMuxParams{Logger: lf.NewLogger("mux"), UDPConn: base, XORMappedAddrCacheTTL: time.Hour})
		defer func() { _ = mux.Close() }()
		types := []CandidateType{CandidateTypeServerReflexive}
		if withHost {
			types = append(types, CandidateTypeHost)
		}
		a, err := NewAgentWithOptions(WithNet(fn), WithLoggerFactory(lf), WithMulticastDNSMode(MulticastDNSModeDisabled),
			WithCandidateTypes(types), WithNetworkTypes([]NetworkType{NetworkTypeUDP4}), WithUDPMuxSrflx(mux),
			WithUrls([]*stun.URI{{Scheme: stun.SchemeTypeSTUN, Host: "198.51.100.1", Port: 3478, Proto: stun.ProtoTypeUDP}}),
			WithSTUNGatherTimeout(time.Minute))
		if err != nil {
			rt.Fatalf("harness: %v", err)
		}
		_ = a.OnCandidate(func(Candidate) {})
		waitRequest := func() {
			select {
			case <-requests:
			case <-time.After(20 * time.Second):
				_ = a.Close()
				st.Inconclusive()
				rt.Fatalf("VERIF-INCONCLUSIVE: no STUN request on the mux socket after 20 s")
			}
		}
		if err := a.GatherCandidates(); err != nil {
			rt.Fatalf("harness: %v", err)
		}
		waitRequest()
		if restartFirst {
			if err := a.Restart("", ""); err != nil {
				rt.Fatalf("harness: %v", err)
			}
			if err := a.GatherCandidates(); err != nil {
				rt.Fatalf("harness: %v", err)
			}
			waitRequest()
		}
		t0 := time.Now()
		done := make(chan struct{})
		go func() {
			if flavour == "GracefulClose" {
				_ = a.GracefulClose()
			} else {
				_ = a.Close()
			}
			close(done)
		}()
		select {
		case <-done:
		case <-time.After(20 * time.Second):
			_, dump := vfStuck("pion/ice/v4")
			st.Fail(rt, "C08/close/waits-for-stun-timeout", "%s has not returned 20 s after it was called while a STUN request through the srflx mux was unanswered (gather timeout 1 min) (%s)\n%s", flavour, desc, dump)
		}
		took := time.Since(t0)
		st.Record(vfHashStr(desc), true, "restart-first:"+fmt.Sprint(restartFirst))
		if st.WantSample() {
			st.Sample(func() string { return fmt.Sprintf("%s: returned after %s", desc, took.Round(time.Millisecond)) })
		}
		// nothing started by the agent keeps running (bounded grace as in the main close test); the mux's own
		// worker belongs to the application and is stopped first
		_ = mux.Close()
		ok := false
		var after int
		var sample string
		for d := time.Now().Add(5 * time.Second); time.Now().Before(d); {
			after, sample = c08Census()
			if after <= before {
				ok = true

				break
			}
			time.Sleep(2 * time.Millisecond)
		}
		if !ok {
			st.Fail(rt, "C08/final/goroutine-left", "%d pion/ice goroutine(s) before, %d still running 5 s after %s returned (%s), e.g.\n%s", before, after, flavour, desc, sample)
		}
	})
}

// TestVerif_C08_CloseFromBindingRequestHandler: the application's binding-request handler is a callback too;
// Close called from inside it must return (D26: it is invoked inside the task loop, which Close waits for).
func TestVerif_C08_CloseFromBindingRequestHandler(t *testing.T) {
	st := vfNewStats(t)
	rapid.Check(t, func(rt *rapid.T) {
		controlling := rapid.Bool().Draw(rt, "controlling")
		viaConn := rapid.Bool().Draw(rt, "viaConnClose")
		var (
			a        *Agent
			returned = make(chan struct{})
			once     sync.Once
		)
		cfg := simAgentConfig{
			controlling: controlling, maxBinding: 7, disconnected: time.Hour, keepalive: 2 * time.Second, explicitTimeout: true,
			extra: []AgentOption{WithBindingRequestHandler(func(*stun.Message, Candidate, Candidate, *CandidatePair) bool {
				once.Do(func() {
					if viaConn {
						_ = (&Conn{agent: a}).Close()
					} else {
						_ = a.Close()
					}
					close(returned)
				})

				return false
			})},
		}
		s, err := newSoloSim(cfg, []duoSockSpec{{Kind: simKindHost}}, []soloEpSpec{{Typ: CandidateTypeHost}})
		if err != nil {
			rt.Fatalf("harness: %v", err)
		}
		a = s.ag.a
		if err := s.ag.start(s.peer.ufrag, s.peer.pwd); err != nil {
			rt.Fatalf("harness: %v", err)
		}
		_ = s.ag.addRemoteSync(s.epCandidate(0, soloEpSpec{Typ: CandidateTypeHost}))
		peerRole := "controlled"
		if !controlling {
			peerRole = "controlling"
		}
		go s.peerRequest(s.eps[0], s.ag.socks[0], false, nil, 100, peerRole, 77)
		desc := fmt.Sprintf("controlling=%v viaConn=%v", controlling, viaConn)
		st.Record(vfHashStr(desc), true, "close-from-binding-request-handler")
		if st.WantSample() {
			st.Sample(func() string { return desc })
		}
		select {
		case <-returned:
			s.close()
		case <-time.After(8 * time.Second):
			dead, dump := vfStuck("pion/ice/v4")
			if dead {
				// the task loop of this agent is gone for good; nothing to clean up
				st.Fail(rt, "C08/close-from-handler/binding-request-handler-deadlock", "Close called from inside the binding-request handler did not return (%s)\n%s", desc, dump)

				return
			}
			st.Inconclusive()
			rt.Fatalf("VERIF-INCONCLUSIVE: Close from the binding-request handler still running after 8 s")
		}
	})
}

// TestVerif_C08_CloseWithActiveTCP: an agent with an active ICE-TCP candidate (real loopback TCP: the active
// side dials through the OS) whose peer holds, closes or resets the connection; Close at a drawn moment —
// while dialing, while healthy, or once the connection has died — returns in bounded time and leaves nothing
// running.
func TestVerif_C08_CloseWithActiveTCP(t *testing.T) {
	st := vfNewStats(t)
	probe, err := net.Listen("tcp4", "127.0.0.1:0") //nolint:noctx
	if err != nil {
		t.Skipf("no loopback TCP listener: %v", err)
	}
	_ = probe.Close()
	rapid.Check(t, func(rt *rapid.T) {
		peer := rapid.SampledFrom([]string{"hold", "reset", "reset", "close", "refuse"}).Draw(rt, "peerBehaviour")
		after := time.Duration(rapid.IntRange(0, 30).Draw(rt, "peerActsAfterMs")) * time.Millisecond
		when := rapid.SampledFrom([]string{"at-once", "after-accept", "once-dead", "once-dead"}).Draw(rt, "closeWhen")
		flavour := rapid.SampledFrom([]string{"Close", "GracefulClose"}).Draw(rt, "flavour")
		desc := fmt.Sprintf("peer=%s after=%s closeWhen=%s flavour=%s", peer, after, when, flavour)
		before, _ := c08Census()
		ln, err := net.Listen("tcp4", "127.0.0.1:0") //nolint:noctx
		if err != nil {
			rt.Fatalf("harness: %v", err)
		}
		port := ln.Addr().(*net.TCPAddr).Port //nolint:forcetypeassert
		accepted := make(chan struct{}, 8)
		var held []net.Conn
		var hmu sync.Mutex
		if peer == "refuse" {
			_ = ln.Close()
		} else {
			go func() {
				for {
					c, err := ln.Accept()
					if err != nil {
						return
					}
					accepted <- struct{}{}
					go func(c net.Conn) {
						time.Sleep(after)
						switch peer {
						case "reset":
							if tc, ok := c.(*net.TCPConn); ok {
								_ = tc.SetLinger(0)
							}
							_ = c.Close()
						case "close":
							_ = c.Close()
						default:
							hmu.Lock()
							held = append(held, c)
							hmu.Unlock()
						}
					}(c)
				}
			}()
		}
		defer func() {
			_ = ln.Close()
			hmu.Lock()
			for _, c := range held {
				_ = c.Close()
			}
			hmu.Unlock()
		}()
		interval := 5 * time.Millisecond
		a, err := NewAgent(&AgentConfig{
			NetworkTypes: []NetworkType{NetworkTypeTCP4}, CandidateTypes: []CandidateType{CandidateTypeHost}, MulticastDNSMode: MulticastDNSModeDisabled,
			IncludeLoopback: true, IPFilter: func(ip net.IP) bool { return ip.IsLoopback() }, CheckInterval: &interval, LoggerFactory: simLoggerFactory,
		})
		if err != nil {
			rt.Fatalf("harness: %v", err)
		}
		if _, err := a.StartDial("remoteufragXY", "remotepasswordremotepassword"); err != nil {
			rt.Fatalf("harness: %v", err)
		}
		rc, err := UnmarshalCandidate(fmt.Sprintf("1052353102 1 tcp 1675624447 127.0.0.1 %d typ host tcptype passive", port))
		if err != nil {
			rt.Fatalf("harness: %v", err)
		}
		_ = a.AddRemoteCandidate(rc)
		dead := false
		switch when {
		case "after-accept", "once-dead":
			if peer != "refuse" {
				select {
				case <-accepted:
				case <-time.After(5 * time.Second):
				}
			}
			if when == "once-dead" && (peer == "reset" || peer == "close") {
				// wait until the active connection has noticed that it is dead
				for d := time.Now().Add(3 * time.Second); time.Now().Before(d) && !dead; {
					_ = a.loop.Run(a.loop, func(context.Context) {
						for _, cs := range a.localCandidates {
							for _, c := range cs {
								if h, ok := c.(*CandidateHost); ok && h.TCPType() == TCPTypeActive {
									if ac, ok := h.conn.(*activeTCPConn); ok && ac.closed.Load() {
										dead = true
									}
								}
							}
						}
					})
					time.Sleep(2 * time.Millisecond)
				}
			}
		}
		done := make(chan struct{})
		go func() {
			if flavour == "GracefulClose" {
				_ = a.GracefulClose()
			} else {
				_ = a.Close()
			}
			close(done)
		}()
		select {
		case <-done:
		case <-time.After(20 * time.Second):
			stuck, dump := vfStuck("pion/ice/v4")
			if stuck {
				st.Fail(rt, "C08/close/never-returns", "%s did not return with an active TCP candidate (%s, connection dead=%v)\n%s", flavour, desc, dead, dump)
			}
			st.Inconclusive()
			rt.Fatalf("VERIF-INCONCLUSIVE: %s still running after 20 s (%s)", flavour, desc)
		}
		st.Record(vfHashStr(desc), dead, fmt.Sprintf("connection-dead-before-close:%v", dead), "peer:"+peer)
		if dead && st.WantSample() {
			st.Sample(func() string { return desc })
		}
		_ = ln.Close()
		ok := false
		var now int
		var sample string
		for d := time.Now().Add(5 * time.Second); time.Now().Before(d); {
			now, sample = c08Census()
			if now <= before {
				ok = true

				break
			}
			time.Sleep(2 * time.Millisecond)
		}
		if !ok {
			st.Fail(rt, "C08/final/goroutine-left", "%d pion/ice goroutine(s) before, %d still running 5 s after %s returned (%s), e.g.\n%s", before, now, flavour, desc, sample)
		}
	})
}
