//go:build verif

package ice

import (
	"fmt"
	"sync"
	"sync/atomic"
	"testing"
	"time"

	"pgregory.net/rapid"
)

// TestVerif_C10_GettersDuringClose: the task-loop backed getters called from several goroutines while Close is in
// progress (the teardown of each socket takes 0.2..3 ms, so "Close has begun, the close callback is still running"
// is a wide window). Every call observes a state produced by whole operations: either the live agent (all pairs,
// all local and all remote candidates of the session) or the closed one (nothing) — never a part of the teardown —
// and once a goroutine has seen the closed agent it never sees the live one again. Run under the race detector.
func TestVerif_C10_GettersDuringClose(t *testing.T) {
	st := vfNewStats(t)
	rapid.Check(t, func(rt *rapid.T) {
		nLocal := rapid.IntRange(1, 3).Draw(rt, "nLocal")
		nEp := rapid.IntRange(1, 3).Draw(rt, "nEp")
		var locals []duoSockSpec
		var eps []soloEpSpec
		for i := 0; i < nLocal; i++ {
			locals = append(locals, duoSockSpec{Kind: simKindHost})
		}
		for i := 0; i < nEp; i++ {
			eps = append(eps, soloEpSpec{Typ: CandidateTypeHost})
		}
		s, err := newSoloSim(simAgentConfig{controlling: rapid.Bool().Draw(rt, "controlling"), maxBinding: 7, disconnected: time.Hour, keepalive: 2 * time.Second, explicitTimeout: true}, locals, eps)
		if err != nil {
			rt.Fatalf("harness: %v", err)
		}
		defer s.close()
		if err := s.ag.start(s.peer.ufrag, s.peer.pwd); err != nil {
			rt.Fatalf("harness: %v", err)
		}
		for i := range eps {
			_ = s.ag.addRemoteSync(s.epCandidate(i, eps[i]))
		}
		s.ag.tick()
		delay := time.Duration(rapid.IntRange(200, 3000).Draw(rt, "socketCloseMicros")) * time.Microsecond
		for _, sk := range s.ag.socks {
			sk.closeDelay = delay
		}
		a := s.ag.a
		liveP, liveL, liveR := len(a.GetCandidatePairsStats()), len(a.GetLocalCandidatesStats()), len(a.GetRemoteCandidatesStats())
		if liveP != nLocal*nEp || liveL != nLocal || liveR != nEp {
			rt.Fatalf("harness: live agent has %d pairs / %d local / %d remote candidates, expected %d / %d / %d", liveP, liveL, liveR, nLocal*nEp, nLocal, nEp)
		}
		nReaders := rapid.IntRange(2, 4).Draw(rt, "readers")
		jitter := rapid.IntRange(0, 300).Draw(rt, "closeAfterMicros")
		var closeBegun, closeReturned atomic.Bool
		var viol []string
		var violMu sync.Mutex
		var inWindow atomic.Int32
		var wg sync.WaitGroup
		for g := 0; g < nReaders; g++ {
			wg.Add(1)
			go func(g int) {
				defer wg.Done()
				seenClosed := false
				after := 0
				for k := 0; after < 3 && k < 200000; k++ {
					if closeReturned.Load() {
						after++
					}
					began := closeBegun.Load()
					var what string
					var n, live int
					switch (k + g) % 3 {
					case 0:
						what, n, live = "GetCandidatePairsStats", len(a.GetCandidatePairsStats()), liveP
					case 1:
						what, n, live = "GetLocalCandidatesStats", len(a.GetLocalCandidatesStats()), liveL
					default:
						what, n, live = "GetRemoteCandidatesStats", len(a.GetRemoteCandidatesStats()), liveR
					}
					if began && !closeReturned.Load() {
						inWindow.Add(1)
					}
					msg := ""
					switch {
					case n != 0 && n != live:
						msg = fmt.Sprintf("C10/close/getter-saw-partial-teardown reader %d call %d: %s returned %d entries; the live agent has %d, the closed one 0", g, k, what, n, live)
					case n == live && seenClosed:
						msg = fmt.Sprintf("C10/close/getter-saw-live-after-closed reader %d call %d: %s returned the live %d entries after an earlier call of this reader had already seen the closed agent", g, k, what, n)
					case n == live && after > 1:
						msg = fmt.Sprintf("C10/close/getter-saw-live-after-close-returned reader %d call %d: %s returned %d entries after Close had returned", g, k, what, n)
					}
					if n == 0 {
						seenClosed = true
					}
					if msg != "" {
						violMu.Lock()
						viol = append(viol, msg)
						violMu.Unlock()

						return
					}
				}
			}(g)
		}
		c11Jitter(jitter)
		closeBegun.Store(true)
		done := make(chan struct{})
		go func() { _ = a.Close(); closeReturned.Store(true); close(done) }()
		select {
		case <-done:
		case <-time.After(30 * time.Second):
			st.Inconclusive()
			rt.Fatalf("VERIF-INCONCLUSIVE: Close did not return within 30 s")
		}
		wg.Wait()
		st.Record(vfHash(nLocal, nEp, nReaders, jitter, delay), inWindow.Load() > 0, fmt.Sprintf("calls-while-close-in-progress:%v", inWindow.Load() > 0))
		if st.WantSample() {
			st.Sample(func() string {
				return fmt.Sprintf("%d×%d pairs, %d readers, socket close %v, %d getter calls while Close was in progress", nLocal, nEp, nReaders, delay, inWindow.Load())
			})
		}
		if len(viol) > 0 {
			sig := viol[0][:len("C10/close/getter-saw-")]
			for _, k := range []string{"C10/close/getter-saw-partial-teardown", "C10/close/getter-saw-live-after-closed", "C10/close/getter-saw-live-after-close-returned"} {
				if len(viol[0]) >= len(k) && viol[0][:len(k)] == k {
					sig = k
				}
			}
			st.Fail(rt, sig, "%s", viol[0])
		}
	})
}
