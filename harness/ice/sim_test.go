//go:build verif

package ice

// SimNet — deterministic one/two-agent simulator (DESIGN.md §4.1).
// The checker owns the network (an in-flight multiset of datagrams) and, through hook H1, the
// connectivity-check timer of each agent. Every step is synchronous.

import (
	"context"
	"errors"
	"fmt"
	"net"
	"os"
	"net/netip"
	"runtime"
	"strings"
	"sync"
	"sync/atomic"
	"time"

	"github.com/pion/logging"
	"github.com/pion/stun/v3"
)

type ctxT = context.Context

type simSock struct {
	blockWrites bool      // WriteTo blocks until Close or until a deadline ≤ now is set (C08)
	wdl         time.Time // write deadline
	failWrites  bool      // WriteTo returns (0, error): e.g. ENOBUFS / EPERM from the kernel
	closeErr    bool      // Close returns an error
	closeDelay  time.Duration // Close takes this long (a slow teardown widens the window in which Close is in progress)
	closeStuck  bool      // Close returns an error and does not release a pending read (only a deadline does)
	rdl         time.Time // read deadline
	rdlCh       chan struct{}
	blocked     int       // writers currently blocked
	w      *simWorld
	side   int
	idx    int // index within the side (stable across generations)
	gen    int
	priv   netip.AddrPort
	pub    netip.AddrPort
	kind   int
	mu     sync.Mutex
	closed bool
	done   chan struct{}
	cand   Candidate
	writes int
}

func (s *simSock) ReadFrom([]byte) (int, net.Addr, error) {
	for {
		s.mu.Lock()
		rdl := s.rdl
		if s.rdlCh == nil {
			s.rdlCh = make(chan struct{}, 1)
		}
		ch := s.rdlCh
		s.mu.Unlock()
		var timer <-chan time.Time
		if !rdl.IsZero() {
			d := time.Until(rdl)
			if d <= 0 {
				return 0, nil, os.ErrDeadlineExceeded
			}
			timer = time.After(d)
		}
		select {
		case <-s.done:
			return 0, nil, net.ErrClosed
		case <-ch: // deadline changed
		case <-timer:
		}
	}
}

func (s *simSock) WriteTo(b []byte, addr net.Addr) (int, error) {
	s.mu.Lock()
	if s.closed {
		s.mu.Unlock()

		return 0, net.ErrClosed
	}
	if s.blockWrites {
		s.blocked++
		for {
			if s.closed {
				s.blocked--
				s.mu.Unlock()

				return 0, net.ErrClosed
			}
			if !s.wdl.IsZero() && !time.Now().Before(s.wdl) {
				s.blocked--
				s.mu.Unlock()

				return 0, os.ErrDeadlineExceeded
			}
			s.mu.Unlock()
			time.Sleep(50 * time.Microsecond)
			s.mu.Lock()
		}
	}
	if s.failWrites {
		s.mu.Unlock()

		return 0, errors.New("simSock: injected write error") //nolint:err113
	}
	s.writes++
	s.mu.Unlock()
	var (
		ipb  net.IP
		port int
	)
	switch ua := addr.(type) {
	case *net.UDPAddr:
		ipb, port = ua.IP, ua.Port
	case *net.TCPAddr: // passive TCP candidates write through a packet conn too
		ipb, port = ua.IP, ua.Port
	default:
		return 0, fmt.Errorf("simSock: unexpected addr type %T", addr) //nolint:err113
	}
	ip, _ := netip.AddrFromSlice(ipb)
	s.w.emit(s, netip.AddrPortFrom(ip.Unmap(), uint16(port)), b) //nolint:gosec

	return len(b), nil
}

func (s *simSock) Close() error {
	if s.closeDelay > 0 {
		time.Sleep(s.closeDelay)
	}
	s.mu.Lock()
	defer s.mu.Unlock()
	if s.closeStuck {
		return errors.New("simSock: injected close failure, socket stays open") //nolint:err113
	}
	if !s.closed {
		s.closed = true
		close(s.done)
	}
	if s.closeErr {
		return errors.New("simSock: injected close error") //nolint:err113
	}

	return nil
}

func (s *simSock) isClosed() bool {
	s.mu.Lock()
	defer s.mu.Unlock()

	return s.closed
}

func (s *simSock) LocalAddr() net.Addr {
	return &net.UDPAddr{IP: s.priv.Addr().AsSlice(), Port: int(s.priv.Port())}
}
func (s *simSock) SetDeadline(t time.Time) error {
	_ = s.SetReadDeadline(t)

	return s.SetWriteDeadline(t)
}

func (s *simSock) SetReadDeadline(t time.Time) error {
	s.mu.Lock()
	s.rdl = t
	if s.rdlCh == nil {
		s.rdlCh = make(chan struct{}, 1)
	}
	ch := s.rdlCh
	s.mu.Unlock()
	select {
	case ch <- struct{}{}:
	default:
	}

	return nil
}
func (s *simSock) SetWriteDeadline(t time.Time) error {
	s.mu.Lock()
	s.wdl = t
	s.mu.Unlock()

	return nil
}

func (s *simSock) blockedWriters() int {
	s.mu.Lock()
	defer s.mu.Unlock()

	return s.blocked
}
func (s *simSock) name() string                     { return fmt.Sprintf("%c%d", 'A'+s.side, s.idx) }

// simMsg is the monitor's decoded view of a STUN datagram.
type simMsg struct {
	class      stun.MessageClass
	method     stun.Method
	txid       [stun.TransactionIDSize]byte
	useCand    bool
	nomination *uint32
	role       string // "controlling" / "controlled" / ""
	tiebreaker uint64
	username   string
	errCode    int
	// attributes found behind MESSAGE-INTEGRITY (unauthenticated; RFC 5389 §15.4 says they are to be ignored)
	trailingUse  bool
	trailingRole string
}

type simDgram struct {
	id    int
	src   *simSock
	srcAt netip.AddrPort // source address as seen by the receiver
	dst   netip.AddrPort
	data  []byte
	msg   *simMsg // nil for non-STUN
	dup   bool
	srcControlling bool // role of the emitting agent at the moment of emission
}

func (d *simDgram) String() string {
	kind := fmt.Sprintf("data[%d]", len(d.data))
	if d.msg != nil {
		kind = fmt.Sprintf("%s-%s", d.msg.method, d.msg.class)
		if d.msg.useCand {
			kind += "+USE"
		}
		if d.msg.nomination != nil {
			kind += fmt.Sprintf("+nom%d", *d.msg.nomination)
		}
	}

	return fmt.Sprintf("#%d %s→%s %s", d.id, d.src.name(), d.dst, kind)
}

func simDecode(b []byte, nomAttr stun.AttrType) *simMsg {
	if !stun.IsMessage(b) {
		return nil
	}
	m := &stun.Message{Raw: append([]byte{}, b...)}
	if err := m.Decode(); err != nil {
		return nil
	}
	out := &simMsg{class: m.Type.Class, method: m.Type.Method, txid: m.TransactionID}
	// what a message "carries" is what its MESSAGE-INTEGRITY covers: attributes behind it are not authenticated
	for i, a := range m.Attributes {
		if a.Type == stun.AttrMessageIntegrity {
			for _, t := range m.Attributes[i+1:] {
				switch t.Type {
				case stun.AttrUseCandidate, nomAttr:
					out.trailingUse = true
				case stun.AttrICEControlling:
					out.trailingRole = "controlling"
				case stun.AttrICEControlled:
					out.trailingRole = "controlled"
				}
			}
			m.Attributes = m.Attributes[:i+1]

			break
		}
	}
	out.useCand = m.Contains(stun.AttrUseCandidate)
	var nom NominationAttribute
	if err := nom.GetFromWithType(m, nomAttr); err == nil {
		v := nom.Value
		out.nomination = &v
	}
	var ctl AttrControl
	if err := ctl.GetFrom(m); err == nil {
		out.tiebreaker = ctl.Tiebreaker
		if ctl.Role == Controlling {
			out.role = "controlling"
		} else {
			out.role = "controlled"
		}
	}
	var u stun.Username
	if err := u.GetFrom(m); err == nil {
		out.username = u.String()
	}
	var ec stun.ErrorCodeAttribute
	if err := ec.GetFrom(m); err == nil {
		out.errCode = int(ec.Code)
	}

	return out
}

// simEvent is one entry of the monitor log.
type simEvent struct {
	step int
	kind string // "emit", "deliver", "drop", "noroute", "linkdown", "closed", "state", "selected", "candidate"
	side int
	d    *simDgram
	to   *simSock // receiving socket (deliver)
	note string
}

type simAgent struct {
	w           *simWorld
	side        int
	a           *Agent
	contact     func()
	contactCh   chan struct{}
	socks       []*simSock // current generation
	allSocks    []*simSock
	gen         int
	ufrag, pwd  string
	controlling bool
	lite        bool
	started     bool
	signalled   map[int]bool // idx -> signalled to the peer in this generation

	mu       sync.Mutex
	states   []ConnectionState
	selected []string
	// stateAt[i] is the w.step at which states[i] was notified
	stateStep []int
}

type simWorld struct {
	mu       sync.Mutex
	agents   [2]*simAgent
	inflight []*simDgram
	nextID   int
	step     int
	log      []simEvent
	link     map[[2]string]bool // (src sock name, dst sock name) -> up; missing = up
	trace    []string
	nomAttr  stun.AttrType
	started  time.Time
	counts   map[string]int
	logEmits bool
}

func newSimWorld() *simWorld {
	return &simWorld{link: map[[2]string]bool{}, nomAttr: DefaultNominationAttribute, started: time.Now(), counts: map[string]int{}, logEmits: true}
}

func (w *simWorld) tracef(format string, args ...any) {
	if len(w.trace) < 4000 {
		w.trace = append(w.trace, fmt.Sprintf(format, args...))
	}
}

func (w *simWorld) emit(src *simSock, dst netip.AddrPort, b []byte) {
	w.mu.Lock()
	defer w.mu.Unlock()
	w.nextID++
	d := &simDgram{id: w.nextID, src: src, srcAt: src.pub, dst: dst, data: append([]byte{}, b...)}
	d.msg = simDecode(b, w.nomAttr)
	if ag := w.agents[src.side]; ag != nil && ag.a != nil {
		d.srcControlling = ag.a.isControlling.Load()
	}
	w.inflight = append(w.inflight, d)
	w.log = append(w.log, simEvent{step: w.step, kind: "emit", side: src.side, d: d})
	w.counts["emit"]++
}

func (w *simWorld) inflightLen() int {
	w.mu.Lock()
	defer w.mu.Unlock()

	return len(w.inflight)
}

func (w *simWorld) take(i int) *simDgram {
	w.mu.Lock()
	defer w.mu.Unlock()
	if len(w.inflight) == 0 {
		return nil
	}
	i %= len(w.inflight)
	d := w.inflight[i]
	w.inflight = append(w.inflight[:i], w.inflight[i+1:]...)

	return d
}

func (w *simWorld) peek(i int) *simDgram {
	w.mu.Lock()
	defer w.mu.Unlock()
	if len(w.inflight) == 0 {
		return nil
	}

	return w.inflight[i%len(w.inflight)]
}

// route finds the live socket of the side opposite to src whose public address is dst.
func (w *simWorld) route(src *simSock, dst netip.AddrPort) *simSock {
	peer := w.agents[1-src.side]
	if peer == nil {
		return nil
	}
	for _, s := range peer.socks {
		if s.pub == dst {
			return s
		}
	}

	return nil
}

func (w *simWorld) linkUp(src, dst *simSock) bool {
	up, ok := w.link[[2]string{src.name(), dst.name()}]

	return !ok || up
}

func (w *simWorld) logEvent(e simEvent) {
	w.mu.Lock()
	e.step = w.step
	w.log = append(w.log, e)
	w.counts[e.kind]++
	w.mu.Unlock()
}

// deliver hands datagram d to the agent owning the destination socket (synchronously) and reports what happened.
func (w *simWorld) deliver(d *simDgram) string {
	dst := w.route(d.src, d.dst)
	switch {
	case dst == nil:
		w.logEvent(simEvent{kind: "noroute", side: d.src.side, d: d})

		return "noroute"
	case dst.isClosed() || dst.cand == nil:
		w.logEvent(simEvent{kind: "closed", side: d.src.side, d: d, to: dst})

		return "closed"
	case !w.linkUp(d.src, dst):
		w.logEvent(simEvent{kind: "linkdown", side: d.src.side, d: d, to: dst})

		return "linkdown"
	case d.src.priv.Addr().Is4() != dst.priv.Addr().Is4():
		w.logEvent(simEvent{kind: "noroute", side: d.src.side, d: d})

		return "noroute"
	}
	w.logEvent(simEvent{kind: "deliver", side: d.src.side, d: d, to: dst})
	if cb := simBase(dst.cand); cb != nil {
		cb.handleInboundPacket(d.data, d.srcAt)
	}
	w.settle()

	return "deliver"
}

func simBase(c Candidate) *candidateBase {
	return c17Base(c)
}

// settle waits until every notifier queue of every agent is empty and idle (state barrier, no sleeping).
func (w *simWorld) settle() {
	for _, ag := range w.agents {
		if ag == nil || ag.a == nil {
			continue
		}
		for _, n := range []*handlerNotifier{ag.a.connectionStateNotifier, ag.a.candidateNotifier, ag.a.selectedCandidatePairNotifier} {
			deadline := time.Now().Add(20 * time.Second)
			for {
				n.Lock()
				idle := !n.runningConnectionStates && !n.runningCandidates && !n.runningCandidatePairs &&
					len(n.connectionStates) == 0 && len(n.candidates) == 0 && len(n.selectedCandidatePairs) == 0
				n.Unlock()
				if idle || time.Now().After(deadline) {
					break
				}
				runtime.Gosched()
			}
		}
	}
}

type simAgentConfig struct {
	controlling     bool
	lite            bool
	maxBinding      uint16
	renomination    bool
	checkPriority   bool
	disconnected    time.Duration
	failed          time.Duration
	keepalive       time.Duration
	explicitTimeout bool
	remoteIPFilter  func(net.IP) bool
	disableActive   bool
	extra           []AgentOption
	viaConfig       bool // build the agent from an AgentConfig struct (NewAgent) instead of options
	nomStride       uint32 // > 1: renomination values come from a table spanning the 24-bit range (0: the default generator 1, 2, 3, …)
}

var simLoggerFactory = func() *logging.DefaultLoggerFactory { //nolint:gochecknoglobals
	lf := logging.NewDefaultLoggerFactory()
	lf.DefaultLogLevel = logging.LogLevelDisabled

	return lf
}()

func (w *simWorld) newAgent(side int, cfg simAgentConfig) (*simAgent, error) {
	opts := []AgentOption{
		WithMulticastDNSMode(MulticastDNSModeDisabled),
		WithLoggerFactory(simLoggerFactory),
		WithNetworkTypes([]NetworkType{NetworkTypeUDP4, NetworkTypeUDP6}),
		WithHostAcceptanceMinWait(0), WithSrflxAcceptanceMinWait(0), WithPrflxAcceptanceMinWait(0), WithRelayAcceptanceMinWait(0),
		WithCheckInterval(time.Hour),
	}
	if cfg.maxBinding > 0 {
		opts = append(opts, WithMaxBindingRequests(cfg.maxBinding))
	}
	if cfg.lite {
		opts = append(opts, WithICELite(true), WithCandidateTypes([]CandidateType{CandidateTypeHost}))
	}
	if cfg.renomination {
		gen := DefaultNominationValueGenerator()
		if cfg.nomStride > 1 {
			// strictly increasing 24-bit values with gaps of more than 2^23 between some of them
			table := []uint32{5, 0x400000, 0x880000, 0x900000, 0xC80000, 0xF00000, 0xF80000, 0xFC0000, 0xFE0000, 0xFF0000, 0xFFF000, 0xFFFF00, 0xFFFFF0, 0xFFFFFF}
			if cfg.nomStride == 3 {
				// an application generator that runs past 2^24: the attribute carries 24 bits, so what the peer sees —
				// and what counts on both sides — is the value on the wire (0xFFFFF0, 0xFFFFFE, 3, 5, 1, 0x800000, 2, …)
				table = []uint32{0xFFFFF0, 0xFFFFFE, 0x1000003, 0x1000005, 0x2000001, 0x1800000, 0x3000002, 0x3000002, 0x3000002}
			}
			var k atomic.Uint32
			gen = func() uint32 {
				i := int(k.Add(1)) - 1
				if i >= len(table) {
					i = len(table) - 1
				}

				return table[i]
			}
		}
		opts = append(opts, WithRenomination(gen))
	}
	if cfg.checkPriority {
		opts = append(opts, WithEnableUseCandidateCheckPriority())
	}
	if cfg.explicitTimeout || !cfg.lite {
		opts = append(opts, WithDisconnectedTimeout(cfg.disconnected))
	}
	opts = append(opts, WithFailedTimeout(cfg.failed), WithKeepaliveInterval(cfg.keepalive))
	if cfg.remoteIPFilter != nil {
		opts = append(opts, WithRemoteIPFilter(cfg.remoteIPFilter))
	}
	if cfg.disableActive {
		opts = append(opts, WithDisableActiveTCP())
	}
	opts = append(opts, cfg.extra...)
	var (
		a   *Agent
		err error
	)
	if cfg.viaConfig {
		// the same configuration through the AgentConfig struct (only the fields C04 varies; no extras)
		zero, hour := time.Duration(0), time.Hour
		ac := &AgentConfig{
			MulticastDNSMode: MulticastDNSModeDisabled, LoggerFactory: simLoggerFactory,
			NetworkTypes:          []NetworkType{NetworkTypeUDP4, NetworkTypeUDP6},
			HostAcceptanceMinWait: &zero, SrflxAcceptanceMinWait: &zero, PrflxAcceptanceMinWait: &zero, RelayAcceptanceMinWait: &zero,
			CheckInterval: &hour, Lite: cfg.lite, EnableUseCandidateCheckPriority: cfg.checkPriority,
			FailedTimeout: &cfg.failed, KeepaliveInterval: &cfg.keepalive,
		}
		if cfg.maxBinding > 0 {
			ac.MaxBindingRequests = &cfg.maxBinding
		}
		if cfg.lite {
			ac.CandidateTypes = []CandidateType{CandidateTypeHost}
		}
		if cfg.explicitTimeout || !cfg.lite {
			ac.DisconnectedTimeout = &cfg.disconnected
		}
		a, err = NewAgent(ac)
	} else {
		a, err = NewAgentWithOptions(opts...)
	}
	if err != nil {
		return nil, err
	}
	ag := &simAgent{w: w, side: side, a: a, controlling: cfg.controlling, lite: cfg.lite, contactCh: make(chan struct{}, 1), signalled: map[int]bool{}}
	verifContactTakers.Store(a, func(c func()) {
		ag.contact = c
		select {
		case ag.contactCh <- struct{}{}:
		default:
		}
	})
	_ = a.OnConnectionStateChange(func(s ConnectionState) {
		ag.mu.Lock()
		ag.states = append(ag.states, s)
		ag.stateStep = append(ag.stateStep, w.step)
		ag.mu.Unlock()
		w.logEvent(simEvent{kind: "state", side: side, note: s.String()})
	})
	_ = a.OnSelectedCandidatePairChange(func(l, r Candidate) {
		ag.mu.Lock()
		ag.selected = append(ag.selected, l.Address()+"|"+r.Address())
		ag.mu.Unlock()
		w.logEvent(simEvent{kind: "selected", side: side, note: fmt.Sprintf("%s:%d<->%s:%d", l.Address(), l.Port(), r.Address(), r.Port())})
	})
	ag.ufrag, ag.pwd, _ = a.GetLocalUserCredentials()
	w.agents[side] = ag

	return ag, nil
}

func (ag *simAgent) close() {
	verifContactTakers.Delete(ag.a)
	done := make(chan struct{})
	go func() { _ = ag.a.Close(); close(done) }()
	select {
	case <-done:
	case <-time.After(10 * time.Second): // never hang the harness on a failing case
	}
}

func simAddrs(side, idx, gen int, v6 bool, nat bool, reusePorts bool) (priv, pub netip.AddrPort) {
	g := gen
	if reusePorts {
		g = 0
	}
	port := uint16(5000 + 100*g + idx) //nolint:gosec
	if v6 {
		priv = netip.AddrPortFrom(netip.MustParseAddr(fmt.Sprintf("fd00:%d::%d", side+1, idx+1)), port)
		pub = priv
		if nat {
			pub = netip.AddrPortFrom(netip.MustParseAddr(fmt.Sprintf("2001:db8:%d::%d", side+1, idx+1)), port+1000)
		}

		return priv, pub
	}
	priv = netip.AddrPortFrom(netip.MustParseAddr(fmt.Sprintf("10.%d.0.%d", side+1, idx+1)), port)
	pub = priv
	if nat {
		pub = netip.AddrPortFrom(netip.MustParseAddr(fmt.Sprintf("203.0.113.%d", side*16+idx+1)), port+1000)
	}

	return priv, pub
}

const (
	simKindHost     = 0 // plain host: pub == priv, host candidate advertises it
	simKindNATHost  = 1 // NATed: host candidate advertises the private (unroutable) address; pub is learnt only as prflx
	simKindSrflx    = 2 // NATed: srflx candidate advertises the public address
	simKindRelayish = 3 // pub == priv, candidate typed relay (lowest priority)
	simKindTCPHost  = 4 // passive TCP host candidate (the socket is a packet conn, as with a TCP mux)
)

// addLocal creates a socket + local candidate and starts it in the agent.
func (ag *simAgent) addLocal(idx int, v6 bool, kind int, reusePorts bool) (*simSock, error) {
	nat := kind == simKindNATHost || kind == simKindSrflx
	priv, pub := simAddrs(ag.side, idx, ag.gen, v6, nat, reusePorts)
	s := &simSock{w: ag.w, side: ag.side, idx: idx, gen: ag.gen, priv: priv, pub: pub, kind: kind, done: make(chan struct{})}
	var (
		c   Candidate
		err error
	)
	switch kind {
	case simKindHost, simKindNATHost:
		c, err = NewCandidateHost(&CandidateHostConfig{Network: "udp", Address: priv.Addr().String(), Port: int(priv.Port()), Component: 1})
	case simKindTCPHost:
		c, err = NewCandidateHost(&CandidateHostConfig{Network: "tcp", Address: priv.Addr().String(), Port: int(priv.Port()), Component: 1, TCPType: TCPTypePassive})
	case simKindSrflx:
		c, err = NewCandidateServerReflexive(&CandidateServerReflexiveConfig{
			Network: "udp", Address: pub.Addr().String(), Port: int(pub.Port()), Component: 1,
			RelAddr: priv.Addr().String(), RelPort: int(priv.Port()),
		})
	case simKindRelayish:
		c, err = NewCandidateRelay(&CandidateRelayConfig{
			Network: "udp", Address: pub.Addr().String(), Port: int(pub.Port()), Component: 1,
			RelAddr: "192.0.2.1", RelPort: 3478,
		})
	}
	if err != nil {
		return nil, err
	}
	s.cand = c
	if err := ag.a.addCandidate(context.Background(), c, s); err != nil {
		return nil, err
	}
	ag.socks = append(ag.socks, s)
	ag.allSocks = append(ag.allSocks, s)
	ag.w.settle()

	return s, nil
}

// start moves the agent to Checking with the peer's credentials and takes over its check timer (H1).
func (ag *simAgent) start(remoteUfrag, remotePwd string) error {
	if err := ag.a.startConnectivityChecks(ag.controlling, remoteUfrag, remotePwd); err != nil {
		return err
	}
	select {
	case <-ag.contactCh:
	case <-time.After(20 * time.Second):
		return fmt.Errorf("VERIF-INCONCLUSIVE: hook H1 did not hand over the contact closure") //nolint:err113
	}
	ag.started = true
	ag.w.settle()

	return nil
}

func (ag *simAgent) tick() {
	if ag.contact != nil {
		ag.contact()
		ag.w.settle()
	}
}

// signal hands a copy of local candidate idx (as it would travel through signalling) to the peer agent.
func (ag *simAgent) signalTo(peer *simAgent, s *simSock) error {
	c, err := UnmarshalCandidate(s.cand.Marshal())
	if err != nil {
		return err
	}
	ag.signalled[s.idx] = true

	return peer.addRemoteSync(c)
}

// addRemoteSync runs the agent's own remote-candidate admission inside its loop, synchronously.
func (ag *simAgent) addRemoteSync(c Candidate) error {
	err := ag.a.loop.Run(ag.a.loop, func(context.Context) {
		ag.a.addRemoteCandidate(c)
	})
	ag.w.settle()

	return err
}

func (ag *simAgent) state() ConnectionState {
	var s ConnectionState
	_ = ag.a.loop.Run(ag.a.loop, func(context.Context) { s = ag.a.connectionState })

	return s
}

func (ag *simAgent) selectedPair() *CandidatePair {
	return ag.a.getSelectedPair()
}

// sockByLocal finds the simSock carrying local candidate c.
func (ag *simAgent) sockByLocal(c Candidate) *simSock {
	for _, s := range ag.allSocks {
		if s.cand == c || (c != nil && c17Base(s.cand) != nil && c17Base(s.cand) == c17Base(c)) {
			return s
		}
	}
	for _, s := range ag.socks {
		if s.cand.Equal(c) {
			return s
		}
	}

	return nil
}

// restart restarts the agent (new generation, old sockets are closed by the agent).
func (ag *simAgent) restart() error {
	if err := ag.a.Restart("", ""); err != nil {
		return err
	}
	ag.gen++
	ag.socks = nil
	ag.signalled = map[int]bool{}
	ag.ufrag, ag.pwd, _ = ag.a.GetLocalUserCredentials()
	ag.w.settle()

	return nil
}

func (w *simWorld) dump() string {
	var sb strings.Builder
	for _, l := range w.trace {
		sb.WriteString(l)
		sb.WriteString("\n")
	}

	return sb.String()
}

// history renders the event log (emit / deliver / drop / state / selected), for failure messages.
func (w *simWorld) history() string {
	w.mu.Lock()
	defer w.mu.Unlock()
	var sb strings.Builder
	for _, e := range w.log {
		switch {
		case e.d != nil && e.d.msg != nil:
			nom := ""
			if e.d.msg.useCand {
				nom = " USE-CANDIDATE"
			}
			if e.d.msg.nomination != nil {
				nom += fmt.Sprintf(" nomination=%d", *e.d.msg.nomination)
			}
			fmt.Fprintf(&sb, "  %s %c: %s%s\n", e.kind, 'A'+e.side, e.d, nom)
		case e.d != nil:
			fmt.Fprintf(&sb, "  %s %c: %s\n", e.kind, 'A'+e.side, e.d)
		default:
			fmt.Fprintf(&sb, "  %s %c: %s\n", e.kind, 'A'+e.side, e.note)
		}
	}

	return sb.String()
}

func (w *simWorld) elapsed() time.Duration { return time.Since(w.started) }

// ---- message construction for the scripted peer (solo mode)

type simReqOpts struct {
	username    string
	key         string // integrity key; "" = no MESSAGE-INTEGRITY
	role        string // "controlling" / "controlled" / ""
	tiebreaker  uint64
	useCand     bool
	nomination  *uint32
	priority    uint32
	noPriority  bool
	fingerprint bool
	txid        *[stun.TransactionIDSize]byte
	trailing    []stun.Setter // attributes appended after MESSAGE-INTEGRITY (not covered by it; RFC 5389 §15.4: to be ignored)
}

func simBuildRequest(o simReqOpts) *stun.Message {
	setters := []stun.Setter{stun.BindingRequest}
	if o.txid != nil {
		setters = append(setters, stun.NewTransactionIDSetter(*o.txid))
	} else {
		setters = append(setters, stun.TransactionID)
	}
	if o.username != "" {
		setters = append(setters, stun.NewUsername(o.username))
	}
	if o.useCand {
		setters = append(setters, UseCandidate())
	}
	if o.nomination != nil {
		setters = append(setters, Nomination(*o.nomination))
	}
	switch o.role {
	case "controlling":
		setters = append(setters, AttrControlling(o.tiebreaker))
	case "controlled":
		setters = append(setters, AttrControlled(o.tiebreaker))
	}
	if !o.noPriority {
		setters = append(setters, PriorityAttr(o.priority))
	}
	if o.key != "" {
		setters = append(setters, stun.NewShortTermIntegrity(o.key))
	}
	setters = append(setters, o.trailing...)
	if o.fingerprint {
		setters = append(setters, stun.Fingerprint)
	}
	m, err := stun.Build(setters...)
	if err != nil {
		panic(err)
	}

	return m
}

func simBuildSuccess(txid [stun.TransactionIDSize]byte, mapped netip.AddrPort, key string, fingerprint bool) *stun.Message {
	setters := []stun.Setter{
		stun.BindingSuccess, stun.NewTransactionIDSetter(txid),
		&stun.XORMappedAddress{IP: mapped.Addr().AsSlice(), Port: int(mapped.Port())},
	}
	if key != "" {
		setters = append(setters, stun.NewShortTermIntegrity(key))
	}
	if fingerprint {
		setters = append(setters, stun.Fingerprint)
	}
	m, err := stun.Build(setters...)
	if err != nil {
		panic(err)
	}

	return m
}

// simBuildError builds an authentic Binding error response (the peer refuses the check).
func simBuildError(txid [stun.TransactionIDSize]byte, code stun.ErrorCode, key string) *stun.Message {
	m, err := stun.Build(stun.NewType(stun.MethodBinding, stun.ClassErrorResponse), stun.NewTransactionIDSetter(txid),
		stun.ErrorCodeAttribute{Code: code, Reason: []byte("refused")}, stun.NewShortTermIntegrity(key), stun.Fingerprint)
	if err != nil {
		panic(err)
	}

	return m
}

// sockByLocalAddr finds the live socket whose candidate has the given transport address.
func (ag *simAgent) sockByLocalAddr(ap netip.AddrPort) *simSock {
	for _, s := range ag.socks {
		if s.cand != nil && s.cand.addrPort() == ap {
			return s
		}
	}

	return nil
}
