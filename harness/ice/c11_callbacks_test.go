//go:build verif

package ice

// C11 (a) — handlerNotifier: per stream, events are delivered once, in order, never concurrently with
// themselves; nothing after a graceful Close.

import (
	"fmt"
	"runtime"
	"strings"
	"sync"
	"sync/atomic"
	"testing"
	"time"

	"pgregory.net/rapid"
)

func c11Jitter(n int) {
	for i := 0; i < n%8; i++ {
		runtime.Gosched()
	}
	if n >= 8 {
		time.Sleep(time.Duration(n-7) * 4 * time.Microsecond)
	}
}

type c11Ev struct {
	Behaviour int // 0 return, 1 sleep, 2 block until released, 3 re-enter same stream, 4 re-enter other stream, 5 Close(false) from inside
	Delay     int
	Hold      int
}

type c11Stream struct {
	Events []c11Ev
}

type c11Close struct {
	Graceful bool
	Delay    int
}

const (
	c11Before = 0 // enqueued before any Close call began: must be delivered
	c11During = 1 // overlaps a Close call: may or may not be delivered
	c11After  = 2 // enqueued after a Close call returned: must not be delivered
)

func TestVerif_C11_Notifier(t *testing.T) {
	st := vfNewStats(t)
	rapid.Check(t, func(rt *rapid.T) {
		var streams [3]c11Stream
		for s := range streams {
			n := rapid.IntRange(0, 40).Draw(rt, "nEvents")
			for i := 0; i < n; i++ {
				streams[s].Events = append(streams[s].Events, c11Ev{
					Behaviour: rapid.SampledFrom([]int{0, 0, 0, 1, 1, 2, 3, 4, 5}).Draw(rt, "behaviour"),
					Delay:     rapid.IntRange(0, 12).Draw(rt, "delay"),
					Hold:      rapid.IntRange(0, 40).Draw(rt, "hold"),
				})
			}
		}
		nClose := rapid.IntRange(0, 2).Draw(rt, "nClose")
		closes := make([]c11Close, nClose)
		for i := range closes {
			closes[i] = c11Close{Graceful: rapid.Bool().Draw(rt, "graceful"), Delay: rapid.IntRange(0, 150).Draw(rt, "closeDelay")}
		}
		desc := fmt.Sprintf("streams=%+v closes=%+v", streams, closes)

		var (
			mu            sync.Mutex
			logs          [3][]int // delivered event ids per stream
			inHandler     [3]atomic.Int32
			maxIn         [3]atomic.Int32
			closeStarted  atomic.Bool
			closeReturned atomic.Bool
			gracefulDone  atomic.Bool
			afterGraceful atomic.Int32 // handler entries observed after a graceful Close returned
			status        = map[int]int{} // event id -> c11Before/During/After
			enqueuer      = map[int]int{} // event id -> enqueuer id
			order         = map[int][]int{}
			nextReentrant atomic.Int32
			viol          []string
			queueWhileRun atomic.Bool
			closeInDeliv  atomic.Bool
		)
		release := make(chan struct{})
		var h *handlerNotifier
		// ids: stream*1000 + index for scripted events; 100000+ for re-entrant ones
		cands := map[int]Candidate{}
		pairs := map[int]*CandidatePair{}
		var idMu sync.Mutex
		mkCand := func(id int) Candidate {
			c, err := NewCandidateHost(&CandidateHostConfig{Network: "udp", Address: "10.0.0.1", Port: 1 + id%60000, Component: 1, Foundation: fmt.Sprint(id)})
			if err != nil {
				panic(err)
			}
			idMu.Lock()
			cands[id] = c
			idMu.Unlock()

			return c
		}
		mkPair := func(id int) *CandidatePair {
			p := &CandidatePair{id: uint64(id)} //nolint:gosec
			idMu.Lock()
			pairs[id] = p
			idMu.Unlock()

			return p
		}
		var enqueue func(stream, id, who int)
		handle := func(stream, id int) {
			if gracefulDone.Load() {
				afterGraceful.Add(1)
			}
			n := inHandler[stream].Add(1)
			if n > maxIn[stream].Load() {
				maxIn[stream].Store(n)
			}
			mu.Lock()
			logs[stream] = append(logs[stream], id)
			mu.Unlock()
			if id < 100000 {
				ev := streams[id/1000].Events[id%1000]
				switch ev.Behaviour {
				case 1:
					c11Jitter(ev.Hold)
				case 2:
					tm := time.NewTimer(time.Duration(ev.Hold) * 25 * time.Microsecond)
					select {
					case <-release:
					case <-tm.C:
					}
					tm.Stop()
				case 3:
					enqueue(stream, 100000+int(nextReentrant.Add(1)), 10+stream)
				case 4:
					enqueue((stream+1)%3, 100000+int(nextReentrant.Add(1)), 10+stream)
				case 5:
					closeStarted.Store(true)
					h.Close(false)
					closeReturned.Store(true)
				}
				h.Lock()
				var qlen int
				switch stream {
				case 0:
					qlen = len(h.connectionStates)
				case 1:
					qlen = len(h.candidates)
				default:
					qlen = len(h.selectedCandidatePairs)
				}
				h.Unlock()
				if qlen >= 1 {
					queueWhileRun.Store(true)
				}
				if closeStarted.Load() {
					closeInDeliv.Store(true)
				}
			}
			inHandler[stream].Add(-1)
		}
		h = &handlerNotifier{
			done:                make(chan struct{}),
			connectionStateFunc: func(s ConnectionState) { handle(0, int(s)) },
			candidateFunc: func(c Candidate) {
				id := -1
				idMu.Lock()
				for k, v := range cands {
					if v == c {
						id = k
					}
				}
				idMu.Unlock()
				handle(1, id)
			},
			candidatePairFunc: func(p *CandidatePair) { handle(2, int(p.id)) }, //nolint:gosec
		}
		enqueue = func(stream, id, who int) {
			pre := c11Before
			if closeStarted.Load() {
				pre = c11During
			}
			if closeReturned.Load() {
				pre = c11After
			}
			switch stream {
			case 0:
				h.EnqueueConnectionState(ConnectionState(id))
			case 1:
				h.EnqueueCandidate(mkCand(id))
			default:
				h.EnqueueSelectedCandidatePair(mkPair(id))
			}
			post := pre
			if pre == c11Before && closeStarted.Load() {
				post = c11During
			}
			mu.Lock()
			status[id] = post
			enqueuer[id] = who
			order[who*3+stream] = append(order[who*3+stream], id)
			mu.Unlock()
		}
		var wg sync.WaitGroup
		for s := range streams {
			wg.Add(1)
			go func(s int) {
				defer wg.Done()
				for i, ev := range streams[s].Events {
					c11Jitter(ev.Delay)
					enqueue(s, s*1000+i, s)
				}
			}(s)
		}
		logAtGraceful := [3]int{-1, -1, -1}
		for _, c := range closes {
			wg.Add(1)
			go func(c c11Close) {
				defer wg.Done()
				c11Jitter(c.Delay)
				closeStarted.Store(true)
				h.Close(c.Graceful)
				closeReturned.Store(true)
				if c.Graceful {
					for s := 0; s < 3; s++ {
						if n := inHandler[s].Load(); n != 0 {
							mu.Lock()
							viol = append(viol, fmt.Sprintf("C11/notifier/handler-running-after-graceful-close stream %d has %d handler(s) running right after Close(true) returned", s, n))
							mu.Unlock()
						}
					}
					gracefulDone.Store(true)
					mu.Lock()
					for s := 0; s < 3; s++ {
						if logAtGraceful[s] < 0 {
							logAtGraceful[s] = len(logs[s])
						}
					}
					mu.Unlock()
				}
			}(c)
		}
		doneCh := make(chan struct{})
		go func() { wg.Wait(); close(doneCh) }()
		select {
		case <-doneCh:
		case <-time.After(20 * time.Second):
			close(release)
			st.Inconclusive()
			rt.Fatalf("VERIF-INCONCLUSIVE: enqueuers/closers did not return within 20 s\n%s", desc)
		}
		close(release)
		// wait until the notifier is idle (state barrier)
		deadline := time.Now().Add(20 * time.Second)
		for {
			h.Lock()
			idle := !h.runningConnectionStates && !h.runningCandidates && !h.runningCandidatePairs &&
				len(h.connectionStates) == 0 && len(h.candidates) == 0 && len(h.selectedCandidatePairs) == 0
			h.Unlock()
			if idle {
				break
			}
			if time.Now().After(deadline) {
				st.Inconclusive()
				rt.Fatalf("VERIF-INCONCLUSIVE: notifier not idle after 20 s\n%s", desc)
			}
			runtime.Gosched()
		}
		h.Close(true)
		mu.Lock()
		defer mu.Unlock()
		fail := func(sig, format string, args ...any) {
			viol = append(viol, sig+" "+fmt.Sprintf(format, args...))
		}
		for s := 0; s < 3; s++ {
			if maxIn[s].Load() > 1 {
				fail("C11/notifier/handler-overlap", "stream %d: %d handler invocations overlapped", s, maxIn[s].Load())
			}
			seen := map[int]int{}
			for _, id := range logs[s] {
				seen[id]++
				if seen[id] > 1 {
					fail("C11/notifier/delivered-twice", "stream %d: event %d delivered %d times", s, id, seen[id])
				}
				if id >= 0 && status[id] == c11After {
					fail("C11/notifier/delivered-after-close", "stream %d: event %d was enqueued after a Close call had returned but was delivered", s, id)
				}
			}
			// per enqueuer: order preserved, and everything enqueued before Close began is there
			for key, ids := range order {
				if key%3 != s {
					continue
				}
				pos := map[int]int{}
				for i, id := range logs[s] {
					pos[id] = i
				}
				last := -1
				for _, id := range ids {
					p, ok := pos[id]
					if !ok {
						if status[id] == c11Before {
							fail("C11/notifier/event-lost", "stream %d: event %d (enqueued before any Close) was never delivered", s, id)
						}

						continue
					}
					if p < last {
						fail("C11/notifier/out-of-order", "stream %d: event %d delivered before an earlier event of the same source", s, id)
					}
					last = p
				}
			}
			if logAtGraceful[s] >= 0 && len(logs[s]) != logAtGraceful[s] {
				fail("C11/notifier/delivery-after-graceful-close", "stream %d: %d event(s) delivered after Close(true) had returned", s, len(logs[s])-logAtGraceful[s])
			}
		}
		if afterGraceful.Load() != 0 {
			fail("C11/notifier/handler-started-after-graceful-close", "%d handler invocation(s) started after Close(true) returned", afterGraceful.Load())
		}
		nontrivial := queueWhileRun.Load() || closeInDeliv.Load()
		var labels []string
		if queueWhileRun.Load() {
			labels = append(labels, "burst-overlapping-handler")
		}
		if closeInDeliv.Load() {
			labels = append(labels, "close-during-delivery")
		}
		st.Record(vfHashStr(desc), nontrivial, labels...)
		if nontrivial && st.WantSample() {
			st.Sample(func() string { return desc })
		}
		if len(viol) > 0 {
			sig := strings.SplitN(viol[0], " ", 2)[0]
			st.Fail(rt, sig, "%s\n%s", strings.Join(viol, "\n"), desc)
		}
	})
}

// C11 (b) — candidate events of gathering cycles: one nil per completed cycle, after all of its candidates;
// a cycle cancelled by Restart emits none; nothing after GracefulClose returned.
func TestVerif_C11_GatherEvents(t *testing.T) {
	st := vfNewStats(t)
	rapid.Check(t, func(rt *rapid.T) {
		cfg := c09Config{
			Addrs: []string{"10.0.0.1", "10.0.1.1"}[:rapid.IntRange(1, 2).Draw(rt, "nAddrs")],
			Types: rapid.SampledFrom([][]CandidateType{{CandidateTypeHost}, {CandidateTypeHost, CandidateTypeServerReflexive}, {CandidateTypeHost, CandidateTypeRelay}, {CandidateTypeRelay}}).Draw(rt, "types"),
			StunMode: rapid.SampledFrom([]string{"now", "later", "never"}).Draw(rt, "stun"), TurnProto: "udp",
			TurnMode:   rapid.SampledFrom([]string{"ok", "allocate-blocks"}).Draw(rt, "turn"),
			BadTurnURL: rapid.Bool().Draw(rt, "badTurnURL"),
		}
		w, err := newC09World(cfg)
		if err != nil {
			rt.Fatalf("harness: %v", err)
		}
		slow := rapid.IntRange(0, 2).Draw(rt, "slowHandler")
		reenter := rapid.Bool().Draw(rt, "handlerCallsBackIntoAgent")
		var (
			mu           sync.Mutex
			events       []string
			running      atomic.Int32
			maxRunning   atomic.Int32
			gracefulDone atomic.Bool
			afterGrace   atomic.Int32
		)
		_ = w.agent.OnCandidate(func(c Candidate) {
			if gracefulDone.Load() {
				afterGrace.Add(1)
			}
			if n := running.Add(1); n > maxRunning.Load() {
				maxRunning.Store(n)
			}
			defer running.Add(-1)
			if slow > 0 {
				c11Jitter(10 * slow)
			}
			if reenter {
				// the handler calls back into the agent
				_, _ = w.agent.GetLocalCandidates()
				_, _, _ = w.agent.GetLocalUserCredentials()
				_, _ = w.agent.GetGatheringState()
			}
			mu.Lock()
			defer mu.Unlock()
			if c == nil {
				events = append(events, "nil")

				return
			}
			uf, _ := c.GetExtension("ufrag")
			events = append(events, "cand:"+uf.Value)
		})
		doubleCall := false
		nCycles := rapid.IntRange(1, 4).Draw(rt, "cycles")
		var ufrags []string
		completedBeforeRestart := map[string]bool{}
		midCycle := false
		for i := 0; i < nCycles; i++ {
			u, _, _ := w.agent.GetLocalUserCredentials()
			ufrags = append(ufrags, u)
			if err := w.gather(); err != nil {
				rt.Fatalf("harness: gather: %v", err)
			}
			if rapid.IntRange(0, 3).Draw(rt, "secondGatherCallAtOnce") == 0 {
				// a second call right behind the first: refused, or it supersedes a cycle that has not started yet —
				// never two cycles for one generation
				_ = w.gather()
				doubleCall = true
			}
			if i == nCycles-1 {
				break
			}
			when := rapid.SampledFrom([]string{"at-once", "mid", "mid", "after-complete"}).Draw(rt, "restartWhen")
			switch when {
			case "mid":
				c11Jitter(rapid.IntRange(0, 60).Draw(rt, "jitter"))
				if rapid.Bool().Draw(rt, "releaseSome") {
					w.fn.releaseOne()
				}
			case "after-complete":
				w.releaseEverything()
				w.waitCycles()
			}
			var stateBefore GatheringState
			_ = w.agent.loop.Run(w.agent.loop, nil2(func() { stateBefore = w.agent.gatheringState }))
			if stateBefore == GatheringStateComplete {
				completedBeforeRestart[u] = true
			} else {
				midCycle = true
			}
			if err := w.agent.Restart("", ""); err != nil {
				rt.Fatalf("harness: restart: %v", err)
			}
		}
		// the last cycle runs to completion; withheld STUN/TURN exchanges finish after a drawn delay
		c11Jitter(rapid.IntRange(0, 80).Draw(rt, "releaseDelay"))
		w.releaseEverything()
		if !w.waitCycles() {
			st.Inconclusive()
			rt.Fatalf("VERIF-INCONCLUSIVE: gather cycle still running after 20 s")
		}
		done := make(chan struct{})
		go func() { _ = w.agent.GracefulClose(); close(done) }()
		select {
		case <-done:
		case <-time.After(25 * time.Second):
			st.Inconclusive()
			rt.Fatalf("VERIF-INCONCLUSIVE: GracefulClose still running")
		}
		gracefulDone.Store(true)
		if n := running.Load(); n != 0 {
			st.Fail(rt, "C11/graceful/handler-still-running", "%d candidate handler(s) running after GracefulClose returned", n)
		}
		mu.Lock()
		ev := append([]string{}, events...)
		mu.Unlock()
		desc := fmt.Sprintf("%+v slow=%d reenter=%v doubleCall=%v cycles=%v events=%v", cfg, slow, reenter, doubleCall, ufrags, ev)
		if maxRunning.Load() > 1 {
			st.Fail(rt, "C11/gather/handler-overlap", "candidate handler ran %d times concurrently: %s", maxRunning.Load(), desc)
		}
		// per generation: candidates, then at most one nil; generations in order
		pos := map[string]int{}
		for i, u := range ufrags {
			pos[u] = i
		}
		cur := -1
		nilFor := map[int]int{}
		lastGenWithCand := -1
		for i, e := range ev {
			if e == "nil" {
				// attribute the nil to the latest generation that can own it: the one whose candidates precede it,
				// or — if a generation published nothing — the next generation without a nil that completed
				g := lastGenWithCand
				if g < 0 || nilFor[g] > 0 {
					g = cur + 1
					for g < len(ufrags) && nilFor[g] > 0 {
						g++
					}
				}
				nilFor[g]++
				if g > cur {
					cur = g
				}

				continue
			}
			g, ok := pos[strings.TrimPrefix(e, "cand:")]
			if !ok {
				st.Fail(rt, "C11/gather/unknown-generation", "event %d %s carries a ufrag of no cycle: %s", i, e, desc)
			}
			if g < cur {
				st.Fail(rt, "C11/gather/old-generation-after-new", "event %d %s belongs to an older generation than the previous events: %s", i, e, desc)
			}
			if nilFor[g] > 0 {
				st.Fail(rt, "C11/gather/candidate-after-nil", "event %d %s arrives after the nil candidate of its own cycle: %s", i, e, desc)
			}
			cur, lastGenWithCand = g, g
		}
		total := 0
		for g, n := range nilFor {
			total += n
			if n > 1 {
				st.Fail(rt, "C11/gather/extra-nil", "cycle %d has %d nil candidates: %s", g, n, desc)
			}
		}
		must := 1 // the last cycle ran to completion
		for _, u := range ufrags[:len(ufrags)-1] {
			if completedBeforeRestart[u] {
				must++
			}
		}
		if total < must {
			st.Fail(rt, "C11/gather/missing-nil", "%d nil candidate(s), at least %d cycles ran to completion: %s", total, must, desc)
		}
		if total > len(ufrags) {
			st.Fail(rt, "C11/gather/extra-nil", "%d nil candidates for %d cycles: %s", total, len(ufrags), desc)
		}
		if len(ev) > 0 && ev[len(ev)-1] != "nil" {
			st.Fail(rt, "C11/gather/nil-not-last", "the completed last cycle's nil candidate is not the last event: %s", desc)
		}
		time.Sleep(200 * time.Microsecond)
		if afterGrace.Load() != 0 {
			st.Fail(rt, "C11/graceful/handler-after-return", "%d candidate event(s) delivered after GracefulClose returned", afterGrace.Load())
		}
		labels := []string{fmt.Sprintf("cycles:%d", nCycles)}
		if midCycle {
			labels = append(labels, "restart-mid-cycle")
		}
		st.Record(vfHashStr(desc), midCycle, labels...)
		if midCycle && st.WantSample() {
			st.Sample(func() string { return desc })
		}
	})
}

// TestVerif_C11_ClosedDeliveredOnce: several overlapping Close / GracefulClose calls while the agent's
// teardown is slow (a TURN allocation of the running gathering cycle is held back by the checker): the Closed
// state reaches the application's handler exactly once, as the last state, and no closer returns before it
// has been queued for delivery (a GracefulClose not before it has been delivered).
func TestVerif_C11_ClosedDeliveredOnce(t *testing.T) {
	st := vfNewStats(t)
	rapid.Check(t, func(rt *rapid.T) {
		nClosers := rapid.IntRange(1, 3).Draw(rt, "closers")
		graceful := make([]bool, nClosers)
		gap := make([]int, nClosers)
		for i := range graceful {
			graceful[i] = rapid.Bool().Draw(rt, "graceful")
			gap[i] = rapid.IntRange(0, 60).Draw(rt, "gapBeforeCloser")
		}
		holdTeardown := rapid.Bool().Draw(rt, "teardownHeldByPendingAllocation")
		started := rapid.Bool().Draw(rt, "agentStarted")
		cfg := c09Config{Addrs: []string{"10.0.0.1"}, Types: []CandidateType{CandidateTypeHost, CandidateTypeRelay}, StunMode: "now", TurnProto: "udp", TurnMode: "ok"}
		if holdTeardown {
			cfg.TurnMode = "allocate-blocks"
		}
		w, err := newC09World(cfg)
		if err != nil {
			rt.Fatalf("harness: %v", err)
		}
		var (
			mu     sync.Mutex
			states []ConnectionState
		)
		_ = w.agent.OnConnectionStateChange(func(cs ConnectionState) {
			mu.Lock()
			states = append(states, cs)
			mu.Unlock()
		})
		_ = w.agent.OnCandidate(func(Candidate) {})
		if started {
			if _, err := w.agent.StartAccept("peerUfragXY", "peerPasswordPeerPassword0123"); err != nil {
				rt.Fatalf("harness: %v", err)
			}
		}
		if err := w.gather(); err != nil {
			rt.Fatalf("harness: %v", err)
		}
		c11Jitter(rapid.IntRange(0, 40).Draw(rt, "jitterBeforeClose"))
		var wg sync.WaitGroup
		returned := make([]atomic.Bool, nClosers)
		for i := 0; i < nClosers; i++ {
			c11Jitter(gap[i])
			wg.Add(1)
			go func(i int) {
				defer wg.Done()
				if graceful[i] {
					_ = w.agent.GracefulClose()
				} else {
					_ = w.agent.Close()
				}
				returned[i].Store(true)
			}(i)
		}
		c11Jitter(rapid.IntRange(0, 80).Draw(rt, "holdFor"))
		w.releaseEverything()
		doneCh := make(chan struct{})
		go func() { wg.Wait(); close(doneCh) }()
		select {
		case <-doneCh:
		case <-time.After(25 * time.Second):
			st.Inconclusive()
			rt.Fatalf("VERIF-INCONCLUSIVE: closers still running after 25 s")
		}
		// let the (non-graceful) notifier finish delivering what was queued
		for d := time.Now().Add(5 * time.Second); time.Now().Before(d); {
			n := w.agent.connectionStateNotifier
			n.Lock()
			idle := !n.runningConnectionStates && len(n.connectionStates) == 0
			n.Unlock()
			if idle {
				break
			}
			time.Sleep(50 * time.Microsecond)
		}
		mu.Lock()
		got := append([]ConnectionState{}, states...)
		mu.Unlock()
		desc := fmt.Sprintf("closers=%v gaps=%v teardownHeld=%v started=%v states=%v", graceful, gap, holdTeardown, started, got)
		st.Record(vfHashStr(desc), nClosers >= 2 && holdTeardown, fmt.Sprintf("closers:%d", nClosers), fmt.Sprintf("teardown-held:%v", holdTeardown))
		if nClosers >= 2 && holdTeardown && st.WantSample() {
			st.Sample(func() string { return desc })
		}
		nClosed := 0
		for _, s := range got {
			if s == ConnectionStateClosed {
				nClosed++
			}
		}
		if nClosed != 1 {
			st.Fail(rt, "C11/close/closed-state-delivered-"+fmt.Sprint(nClosed)+"-times", "the Closed state reached the handler %d time(s): %s", nClosed, desc)
		}
		if len(got) > 0 && got[len(got)-1] != ConnectionStateClosed {
			st.Fail(rt, "C11/close/state-after-closed", "Closed is not the last state delivered: %s", desc)
		}
	})
}
