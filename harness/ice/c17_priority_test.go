//go:build verif

package ice

// C17 — candidate and pair priorities follow the RFC formulas for every
// configuration. Oracle: reference formulas written from the statement with
// math/big; sweep (exhaustive in the thorough tier) + rapid PBT.

import (
	"strings"
	"net/netip"
	"fmt"
	"math/big"
	"testing"

	"pgregory.net/rapid"
)

type c17Combo struct {
	typ   CandidateType
	net   NetworkType
	tcp   TCPType
	proto string
}

var (
	c17Types  = []CandidateType{CandidateTypeHost, CandidateTypeServerReflexive, CandidateTypePeerReflexive, CandidateTypeRelay}
	c17Nets   = []NetworkType{NetworkTypeUDP4, NetworkTypeUDP6, NetworkTypeTCP4, NetworkTypeTCP6}
	c17TCP    = []TCPType{TCPTypeUnspecified, TCPTypeActive, TCPTypePassive, TCPTypeSimultaneousOpen}
	c17Protos = []string{"udp", "tcp", "dtls", "tls", "quic"}
)

func c17Make(tb vfFataler, cb c17Combo) Candidate {
	network := cb.net.NetworkShort()
	addr := "10.1.2.3"
	if cb.net.IsIPv6() {
		addr = "2001:db8::7"
	}
	var (
		cand Candidate
		err  error
	)
	switch cb.typ {
	case CandidateTypeHost:
		cand, err = NewCandidateHost(&CandidateHostConfig{Network: network, Address: addr, Port: 4000, Component: 1, TCPType: cb.tcp})
	case CandidateTypeServerReflexive:
		cand, err = NewCandidateServerReflexive(&CandidateServerReflexiveConfig{
			Network: network, Address: addr, Port: 4000, Component: 1, RelAddr: "0.0.0.0", RelPort: 9,
		})
	case CandidateTypePeerReflexive:
		cand, err = NewCandidatePeerReflexive(&CandidatePeerReflexiveConfig{
			Network: network, Address: addr, Port: 4000, Component: 1, RelAddr: "0.0.0.0", RelPort: 9,
		})
	case CandidateTypeRelay:
		cand, err = NewCandidateRelay(&CandidateRelayConfig{
			Network: network, Address: addr, Port: 4000, Component: 1, RelAddr: "0.0.0.0", RelPort: 9,
			RelayProtocol: cb.proto,
		})
	default:
		tb.Fatalf("bad type")
	}
	if err != nil {
		tb.Fatalf("constructor failed for %+v: %v", cb, err)
	}
	c17Base(cand).tcpType = cb.tcp
	if cand.NetworkType() != cb.net {
		tb.Fatalf("constructor gave network type %v, want %v", cand.NetworkType(), cb.net)
	}

	return cand
}

func c17Base(c Candidate) *candidateBase {
	switch v := c.(type) {
	case *CandidateHost:
		return &v.candidateBase
	case *CandidateServerReflexive:
		return &v.candidateBase
	case *CandidatePeerReflexive:
		return &v.candidateBase
	case *CandidateRelay:
		return &v.candidateBase
	case *candidateBase:
		return v
	}

	return nil
}

// Reference, from the statement of C17 (RFC 8445 §5.1.2.1, RFC 6544 §4.2).
func c17RefTypePref(typ CandidateType, isTCP bool, offset uint16) int64 {
	var base int64
	switch typ {
	case CandidateTypeHost:
		base = 126
	case CandidateTypePeerReflexive:
		base = 110
	case CandidateTypeServerReflexive:
		base = 100
	default:
		base = 0
	}
	if isTCP {
		base -= int64(offset)
		if base < 0 {
			base = 0
		}
	}

	return base
}

func c17RefLocalPref(cb c17Combo) int64 {
	if cb.typ == CandidateTypeRelay {
		switch cb.proto {
		case "tls":
			return 0
		case "tcp":
			return 1
		case "dtls":
			return 2
		default:
			return 3
		}
	}
	if !cb.net.IsTCP() {
		return 65535
	}
	var dir int64
	switch cb.typ {
	case CandidateTypeHost:
		switch cb.tcp {
		case TCPTypeActive:
			dir = 6
		case TCPTypePassive:
			dir = 4
		case TCPTypeSimultaneousOpen:
			dir = 2
		}
	default: // srflx / prflx (NAT-assisted and server reflexive)
		switch cb.tcp {
		case TCPTypeSimultaneousOpen:
			dir = 6
		case TCPTypeActive:
			dir = 4
		case TCPTypePassive:
			dir = 2
		}
	}

	return 8192*dir + 8191
}

func c17RefPriority(cb c17Combo, offset uint16, component uint16) (int64, int64) {
	tp := c17RefTypePref(cb.typ, cb.net.IsTCP(), offset)
	lp := c17RefLocalPref(cb)

	return tp, (1<<24)*tp + (1<<8)*lp + (256 - int64(component))
}

// c17CheckOne returns "" or a failure description (+signature).
func c17CheckOne(cand Candidate, cb c17Combo, offset, component uint16) (string, string) {
	c17Base(cand).component = component
	wantTP, want := c17RefPriority(cb, offset, component)
	gotTP := int64(c17Base(cand).TypePreference())
	got := int64(cand.Priority())
	if gotTP < 0 || gotTP > 126 {
		return "C17/type-preference/out-of-range", fmt.Sprintf("%+v offset=%d: type preference %d not in 0..126 (want %d)", cb, offset, gotTP, wantTP)
	}
	if gotTP != wantTP {
		return "C17/type-preference/mismatch", fmt.Sprintf("%+v offset=%d: type preference %d, want %d", cb, offset, gotTP, wantTP)
	}
	if got != want {
		return "C17/candidate-priority/mismatch", fmt.Sprintf("%+v offset=%d comp=%d: priority %d, want %d", cb, offset, component, got, want)
	}
	if got >= 1<<31 {
		return "C17/candidate-priority/range", fmt.Sprintf("%+v offset=%d comp=%d: priority %d ≥ 2^31", cb, offset, component, got)
	}
	if component >= 1 && component <= 255 && got < 1 {
		return "C17/candidate-priority/zero", fmt.Sprintf("%+v offset=%d comp=%d: priority %d < 1", cb, offset, component, got)
	}

	return "", ""
}

func c17Combos() []c17Combo {
	var out []c17Combo
	for _, ty := range c17Types {
		for _, n := range c17Nets {
			for _, tt := range c17TCP {
				if ty == CandidateTypeRelay {
					for _, p := range c17Protos {
						out = append(out, c17Combo{ty, n, tt, p})
					}
				} else {
					out = append(out, c17Combo{ty, n, tt, ""})
				}
			}
		}
	}

	return out
}

var c17BoundaryOffsets = []uint16{
	0, 1, 26, 27, 28, 99, 100, 101, 109, 110, 111, 125, 126, 127, 128, 255, 256, 32767, 32768, 65534, 65535,
}

// Sweep: quick = boundary offsets, thorough = all 65 536 offsets (sharded by offset).
func TestVerif_C17_CandidatePrioritySweep(t *testing.T) {
	st := vfNewStats(t)
	shard, shards := vfShard()
	combos := c17Combos()
	cands := make([]Candidate, len(combos))
	agent := &Agent{}
	for i, cb := range combos {
		cands[i] = c17Make(t, cb)
		c17Base(cands[i]).currAgent = agent
	}
	components := []uint16{1, 2, 128, 255, 256}
	var offsets []uint16
	if vfTier() == "thorough" {
		for o := 0; o < 65536; o++ {
			if o%shards == shard {
				offsets = append(offsets, uint16(o))
			}
		}
		st.SetExhaustive(true)
	} else {
		offsets = c17BoundaryOffsets
	}
	evals, nt := 0, 0
	for _, off := range offsets {
		agent.tcpPriorityOffset = off
		for i, cb := range combos {
			for _, comp := range components {
				evals++
				if off > 0 && cb.net.IsTCP() {
					nt++
				}
				if sig, msg := c17CheckOne(cands[i], cb, off, comp); sig != "" {
					st.RecordEnum(evals, nt)
					st.Fail(t, sig, "%s", msg)

					return
				}
			}
		}
	}
	st.RecordEnum(evals, nt)
	st.Sample(func() string {
		cb := combos[len(combos)/2]
		_, p := c17RefPriority(cb, 27, 1)

		return fmt.Sprintf("combo=%+v offset=27 component=1 priority=%d (of %d combos × %d offsets × %d components)",
			cb, p, len(combos), len(offsets), len(components))
	})
}

// PBT: random configuration, agent built through the public configuration paths.
func TestVerif_C17_CandidatePriorityPBT(t *testing.T) {
	st := vfNewStats(t)
	combos := c17Combos()
	rapid.Check(t, func(rt *rapid.T) {
		cb := combos[rapid.IntRange(0, len(combos)-1).Draw(rt, "combo")]
		off := rapid.OneOf(rapid.SampledFrom(c17BoundaryOffsets), rapid.Uint16()).Draw(rt, "offset")
		comp := rapid.OneOf(rapid.SampledFrom([]uint16{1, 2, 128, 255, 256}), rapid.Uint16Range(1, 256)).Draw(rt, "component")
		path := rapid.SampledFrom([]string{"option", "config", "default", "noagent"}).Draw(rt, "path")
		cand := c17Make(rt, cb)
		switch path {
		case "option":
			a, err := NewAgentWithOptions(WithMulticastDNSMode(MulticastDNSModeDisabled), WithTCPPriorityOffset(off))
			if err != nil {
				rt.Fatalf("agent: %v", err)
			}
			defer a.Close() //nolint:errcheck
			c17Base(cand).currAgent = a
		case "config":
			o := off
			a, err := NewAgent(&AgentConfig{MulticastDNSMode: MulticastDNSModeDisabled, TCPPriorityOffset: &o})
			if err != nil {
				rt.Fatalf("agent: %v", err)
			}
			defer a.Close() //nolint:errcheck
			c17Base(cand).currAgent = a
		case "default":
			a, err := NewAgentWithOptions(WithMulticastDNSMode(MulticastDNSModeDisabled))
			if err != nil {
				rt.Fatalf("agent: %v", err)
			}
			defer a.Close() //nolint:errcheck
			c17Base(cand).currAgent = a
			off = 27
		default:
			off = 27 // documented default when the candidate is not attached to an agent
		}
		nt := off > 0 && cb.net.IsTCP()
		st.Record(vfHash(cb, off, comp, path), nt, "path:"+path, "type:"+cb.typ.String())
		if st.WantSample() {
			st.Sample(func() string { return fmt.Sprintf("%+v offset=%d comp=%d path=%s prio=%d", cb, off, comp, path, cand.Priority()) })
		}
		if sig, msg := c17CheckOne(cand, cb, off, comp); sig != "" {
			st.Fail(rt, sig, "%s (path %s)", msg, path)
		}
	})
}

var c17PrioBoundaries = []uint32{0, 1, 2, 1<<24 - 1, 1 << 24, 1<<31 - 1, 1 << 31, 1<<32 - 2, 1<<32 - 1}

func c17RefPair(g, d uint32) *big.Int {
	mn, mx := g, d
	if mn > mx {
		mn, mx = mx, mn
	}
	r := new(big.Int).Mul(big.NewInt(int64(mn)), big.NewInt(1<<32-1))
	r.Add(r, new(big.Int).Mul(big.NewInt(2), big.NewInt(int64(mx))))
	if g > d {
		r.Add(r, big.NewInt(1))
	}

	return r
}

func c17PairCands(tb vfFataler, lp, rp uint32) (Candidate, Candidate) {
	mk := func(addr string, port int, prio uint32) Candidate {
		if prio == 0 {
			// 0 in a config means "computed": a relay/tls candidate with component 256 computes to 0.
			c, err := NewCandidateRelay(&CandidateRelayConfig{Network: "udp", Address: addr, Port: port, Component: 256, RelayProtocol: "tls", RelAddr: "10.9.9.9", RelPort: 9})
			if err != nil {
				tb.Fatalf("%v", err)
			}

			return c
		}
		c, err := NewCandidateHost(&CandidateHostConfig{Network: "udp", Address: addr, Port: port, Component: 1, Priority: prio})
		if err != nil {
			tb.Fatalf("%v", err)
		}

		return c
	}

	return mk("10.0.0.1", 1000, lp), mk("10.0.0.2", 2000, rp)
}

func c17PairPrio(tb vfFataler, local, remote uint32, controlling bool) uint64 {
	l, r := c17PairCands(tb, local, remote)
	p := newCandidatePair(l, r, controlling)
	if l.Priority() != local || r.Priority() != remote {
		tb.Fatalf("harness: priority override not honoured (%d,%d) vs (%d,%d)", l.Priority(), r.Priority(), local, remote)
	}

	return p.priority()
}

func TestVerif_C17_PairPriority(t *testing.T) {
	st := vfNewStats(t)
	prioGen := rapid.OneOf(
		rapid.SampledFrom(c17PrioBoundaries),
		rapid.Uint32(),
		rapid.Uint32Range(0, 1<<31-1),
	)
	rapid.Check(t, func(rt *rapid.T) {
		g := prioGen.Draw(rt, "g")
		d := prioGen.Draw(rt, "d")
		if rapid.IntRange(0, 9).Draw(rt, "adjacent") == 0 {
			delta := rapid.Int64Range(-2, 2).Draw(rt, "delta")
			nd := int64(g) + delta
			if nd >= 0 && nd <= 1<<32-1 {
				d = uint32(nd)
			}
		}
		isB := func(x uint32) bool {
			for _, b := range c17PrioBoundaries {
				if x == b {
					return true
				}
			}

			return false
		}
		nt := g != d && (isB(g) || isB(d) || (int64(g)-int64(d) <= 2 && int64(d)-int64(g) <= 2))
		st.Record(vfHash(g, d), nt)
		if st.WantSample() && nt {
			st.Sample(func() string { return fmt.Sprintf("G=%d D=%d pair=%s", g, d, c17RefPair(g, d)) })
		}
		want := c17RefPair(g, d)
		if !want.IsUint64() {
			rt.Fatalf("reference does not fit 64 bits for %d,%d", g, d)
		}
		// controlling agent: local = G, remote = D
		gotCtl := c17PairPrio(rt, g, d, true)
		if gotCtl != want.Uint64() {
			st.Fail(rt, "C17/pair-priority/mismatch", "controlling local=%d remote=%d: %d, want %s", g, d, gotCtl, want)
		}
		// mirrored pair on the controlled agent: local = D, remote = G
		gotCtd := c17PairPrio(rt, d, g, false)
		if gotCtd != gotCtl {
			st.Fail(rt, "C17/pair-priority/mirror", "G=%d D=%d: controlling side %d, controlled side %d", g, d, gotCtl, gotCtd)
		}
		// weak monotonicity in each argument
		g2 := prioGen.Draw(rt, "g2")
		lo, hi := g, g2
		if lo > hi {
			lo, hi = hi, lo
		}
		if c17PairPrio(rt, lo, d, true) > c17PairPrio(rt, hi, d, true) {
			st.Fail(rt, "C17/pair-priority/monotone-g", "d=%d: prio(g=%d) > prio(g=%d)", d, lo, hi)
		}
		if c17PairPrio(rt, d, lo, true) > c17PairPrio(rt, d, hi, true) {
			st.Fail(rt, "C17/pair-priority/monotone-d", "g=%d: prio(d=%d) > prio(d=%d)", d, lo, hi)
		}
	})
}

// Foundations coincide exactly for equal (type, address, network type).
func TestVerif_C17_Foundation(t *testing.T) {
	st := vfNewStats(t)
	addrs4 := []string{"10.0.0.1", "10.0.0.2", "192.168.1.7", "203.0.113.9"}
	addrs6 := []string{"2001:db8::1", "2001:db8::2", "fd00::5"}
	type fc struct {
		typ  CandidateType
		net  NetworkType
		addr string
		port int
		comp uint16
		tcp  TCPType
		rel  int
		rip  string // related (base) address: not part of the foundation
	}
	gen := rapid.Custom(func(rt *rapid.T) fc {
		n := rapid.SampledFrom(c17Nets).Draw(rt, "net")
		a := rapid.SampledFrom(addrs4).Draw(rt, "a4")
		if n.IsIPv6() {
			a = rapid.SampledFrom(addrs6).Draw(rt, "a6")
		}

		return fc{
			typ: rapid.SampledFrom(c17Types).Draw(rt, "type"), net: n, addr: a,
			port: rapid.IntRange(1, 65535).Draw(rt, "port"), comp: rapid.Uint16Range(1, 3).Draw(rt, "comp"),
			tcp: rapid.SampledFrom(c17TCP).Draw(rt, "tcp"), rel: rapid.IntRange(0, 65535).Draw(rt, "rel"),
			rip: rapid.SampledFrom([]string{"10.9.9.9", "10.9.9.9", "10.9.9.10", "192.0.2.44", ""}).Draw(rt, "relatedAddress"),
		}
	})
	mk := func(rt *rapid.T, f fc) Candidate {
		c := c17Make(rt, c17Combo{f.typ, f.net, f.tcp, "udp"})
		b := c17Base(c)
		// rebuild with the drawn address/port through the constructors
		var err error
		switch f.typ {
		case CandidateTypeHost:
			c, err = NewCandidateHost(&CandidateHostConfig{Network: f.net.NetworkShort(), Address: f.addr, Port: f.port, Component: f.comp, TCPType: f.tcp})
		case CandidateTypeServerReflexive:
			c, err = NewCandidateServerReflexive(&CandidateServerReflexiveConfig{Network: f.net.NetworkShort(), Address: f.addr, Port: f.port, Component: f.comp, RelAddr: f.rip, RelPort: f.rel})
		case CandidateTypePeerReflexive:
			c, err = NewCandidatePeerReflexive(&CandidatePeerReflexiveConfig{Network: f.net.NetworkShort(), Address: f.addr, Port: f.port, Component: f.comp, RelAddr: f.rip, RelPort: f.rel})
		case CandidateTypeRelay:
			c, err = NewCandidateRelay(&CandidateRelayConfig{Network: f.net.NetworkShort(), Address: f.addr, Port: f.port, Component: f.comp, RelAddr: f.rip, RelPort: f.rel})
		}
		_ = b
		if err != nil {
			rt.Fatalf("%v", err)
		}

		return c
	}
	rapid.Check(t, func(rt *rapid.T) {
		x := gen.Draw(rt, "x")
		y := gen.Draw(rt, "y")
		if rapid.Bool().Draw(rt, "sameTriple") {
			y.typ, y.net, y.addr = x.typ, x.net, x.addr
			// the same address may be written in another way (an address is not its spelling)
			if a, err := netip.ParseAddr(y.addr); err == nil && rapid.IntRange(0, 2).Draw(rt, "otherSpelling") == 0 {
				switch {
				case a.Is4():
					y.addr = "::ffff:" + y.addr
				case rapid.Bool().Draw(rt, "expanded"):
					y.addr = a.StringExpanded()
				default:
					y.addr = strings.ToUpper(y.addr)
				}
			}
		}
		// host candidates published under one mDNS name (the gatherer builds them from the name and then attaches the
		// interface address): the address of the candidate is the name, so the foundations coincide whatever the
		// hidden interface addresses are
		if rapid.IntRange(0, 3).Draw(rt, "mdnsHostPair") == 0 {
			n := rapid.SampledFrom([]NetworkType{NetworkTypeUDP4, NetworkTypeUDP6, NetworkTypeTCP4, NetworkTypeTCP6}).Draw(rt, "mdnsNet")
			pool := addrs4
			if n.IsIPv6() {
				pool = addrs6
			}
			ip1 := rapid.SampledFrom(pool).Draw(rt, "hiddenAddress1")
			ip2 := rapid.SampledFrom(pool).Draw(rt, "hiddenAddress2")
			var fs, texts []string
			for _, ip := range []string{ip1, ip2} {
				cfg := &CandidateHostConfig{Network: n.NetworkShort(), Address: "8a4e0c1f-6d2b-4f57-9c3a-1b2d3e4f5a6b.local", Port: x.port, Component: 1}
				if n.IsTCP() {
					cfg.TCPType = TCPTypePassive
				}
				h, err := NewCandidateHost(cfg)
				if err != nil {
					rt.Fatalf("harness: %v", err)
				}
				if err := h.setIPAddr(netip.MustParseAddr(ip)); err != nil {
					rt.Fatalf("harness: setIPAddr: %v", err)
				}
				fs = append(fs, h.Foundation())
				texts = append(texts, strings.Fields(h.Marshal())[0])
			}
			st.Label(fmt.Sprintf("mdns-host-pair:hidden-addresses-differ:%v", ip1 != ip2))
			if fs[0] != fs[1] || texts[0] != texts[1] {
				st.Fail(rt, "C17/foundation/mdns-name-differs-by-hidden-address", "two %s host candidates with the same mDNS name: foundations %s (hidden %s) and %s (hidden %s), first tokens of the text %s / %s", n, fs[0], ip1, fs[1], ip2, texts[0], texts[1])
			}
		}
		cx, cy := mk(rt, x), mk(rt, y)
		canon := func(s string) string {
			if a, err := netip.ParseAddr(s); err == nil {
				return a.Unmap().String()
			}

			return s
		}
		same := x.typ == y.typ && x.net == y.net && canon(x.addr) == canon(y.addr)
		st.Record(vfHash(x, y), same && (x.port != y.port || x.comp != y.comp || x.tcp != y.tcp || x.rip != y.rip), fmt.Sprintf("same:%v", same), fmt.Sprintf("related-address-differs:%v", same && x.rip != y.rip && x.typ != CandidateTypeHost))
		if st.WantSample() {
			st.Sample(func() string { return fmt.Sprintf("%+v / %+v -> %s / %s", x, y, cx.Foundation(), cy.Foundation()) })
		}
		if same && cx.Foundation() != cy.Foundation() {
			st.Fail(rt, "C17/foundation/differs-for-equal-triple", "%+v vs %+v: %s != %s", x, y, cx.Foundation(), cy.Foundation())
		}
		if !same && cx.Foundation() == cy.Foundation() {
			st.Label("crc-collision-or-equal-foundation-for-different-triple")
			// only a CRC-32 collision may explain it: recompute over a different hash to tell
			if vfHash(x.typ, canon(x.addr), x.net) != vfHash(y.typ, canon(y.addr), y.net) {
				// (type,address,network) differ: allowed only as a collision; for this tiny pool a
				// collision would be astonishing, so flag it.
				st.Fail(rt, "C17/foundation/equal-for-different-triple", "%+v vs %+v share foundation %s", x, y, cx.Foundation())
			}
		}
	})
}
