//go:build verif

package ice

import (
	"fmt"
	"net"
	"sync/atomic"
	"testing"
	"time"

	"pgregory.net/rapid"
)

// TestVerif_C08_RestartAndCloseUnderDataFlood: a started agent whose host sockets (FakeNet: the receive loops
// really read the datagrams) are being flooded with non-STUN datagrams — from an address that is no remote
// candidate, and/or from a signalled one — goes through a drawn sequence of Restart / forced failure and is then
// closed. Every call must return (stable-blocked rule), and nothing is left running.
func TestVerif_C08_RestartAndCloseUnderDataFlood(t *testing.T) {
	st := vfNewStats(t)
	rapid.Check(t, func(rt *rapid.T) {
		nAddrs := rapid.IntRange(1, 3).Draw(rt, "hostAddresses")
		steps := rapid.SliceOfN(rapid.SampledFrom([]string{"restart", "restart", "fail", "regather"}), 0, 3).Draw(rt, "steps")
		flavour := rapid.SampledFrom([]string{"Close", "GracefulClose"}).Draw(rt, "flavour")
		fromKnown := rapid.Bool().Draw(rt, "alsoFromASignalledAddress")
		desc := fmt.Sprintf("addrs=%d steps=%v flavour=%s fromKnown=%v", nAddrs, steps, flavour, fromKnown)
		before, _ := c08Census()
		var addrs []string
		for i := 0; i < nAddrs; i++ {
			addrs = append(addrs, fmt.Sprintf("10.0.0.%d", i+1))
		}
		fn := newFakeNet([]fnIface{{Name: "eth0", Up: true, Addrs: addrs}})
		a, err := NewAgentWithOptions(WithNet(fn), WithLoggerFactory(simLoggerFactory), WithMulticastDNSMode(MulticastDNSModeDisabled),
			WithCandidateTypes([]CandidateType{CandidateTypeHost}), WithNetworkTypes([]NetworkType{NetworkTypeUDP4}),
			WithCheckInterval(time.Hour), WithKeepaliveInterval(time.Hour), WithDisconnectedTimeout(time.Hour), WithFailedTimeout(time.Hour))
		if err != nil {
			rt.Fatalf("harness: %v", err)
		}
		gathered := make(chan struct{}, 8)
		_ = a.OnCandidate(func(c Candidate) {
			if c == nil {
				select {
				case gathered <- struct{}{}:
				default:
				}
			}
		})
		gather := func() bool {
			if err := a.GatherCandidates(); err != nil {
				return false
			}
			select {
			case <-gathered:
				return true
			case <-time.After(20 * time.Second):
				st.Inconclusive()
				rt.Fatalf("VERIF-INCONCLUSIVE: gathering did not complete within 20 s")

				return false
			}
		}
		gather()
		if err := a.startConnectivityChecks(true, "peerUfragPeerUfrag", "peerPasswordPeerPasswordPeerPwd"); err != nil {
			rt.Fatalf("harness: %v", err)
		}
		known := &net.UDPAddr{IP: net.ParseIP("192.0.2.77"), Port: 4000}
		signal := func() {
			if fromKnown {
				c, _ := NewCandidateHost(&CandidateHostConfig{Network: "udp", Address: known.IP.String(), Port: known.Port, Component: 1})
				_ = a.AddRemoteCandidate(c)
			}
		}
		signal()
		// the flood: keeps every open UDP socket of the fake net supplied with datagrams
		var stop, pause atomic.Bool
		var pushed atomic.Int64
		resume := make(chan struct{}, 1)
		floodDone := make(chan struct{})
		go func() {
			defer close(floodDone)
			unknown := &net.UDPAddr{IP: net.ParseIP("203.0.113.200"), Port: 9}
			payload := []byte{0x80, 0x60, 1, 2, 3, 4, 5, 6, 7, 8, 9, 10}
			for !stop.Load() {
				if pause.Load() {
					<-resume // (parked while the stable-blocked rule looks at the goroutines)

					continue
				}
				fn.mu.Lock()
				socks := append([]*fnSock{}, fn.socks...)
				fn.mu.Unlock()
				for k, sk := range socks {
					if sk.kind != "udp" || sk.isClosed() {
						continue
					}
					from := unknown
					if fromKnown && (k+int(pushed.Load()))%2 == 0 {
						from = known
					}
					select {
					case sk.inbound <- fnDgram{data: payload, from: from}:
						pushed.Add(1)
					default:
					}
				}
				time.Sleep(20 * time.Microsecond)
			}
		}()
		bounded := func(what string, f func()) bool {
			done := make(chan struct{})
			go func() { f(); close(done) }()
			for waited := 0; ; waited++ {
				select {
				case <-done:
					return true
				case <-time.After(5 * time.Second):
				}
				pause.Store(true)
				time.Sleep(50 * time.Millisecond)
				stuck, dump := vfStuck("pion/ice/v4")
				pause.Store(false)
				select {
				case resume <- struct{}{}:
				default:
				}
				if stuck {
					st.Fail(rt, "C08/flood/"+what+"-never-returns", "%s has not returned and every pion/ice goroutine is blocked, while non-STUN datagrams keep arriving on the host sockets (%s; %d datagrams pushed)\n%s", what, desc, pushed.Load(), dump)

					return false
				} else if waited >= 5 {
					st.Inconclusive()
					rt.Fatalf("VERIF-INCONCLUSIVE: %s still running after 30 s but not stably blocked", what)
				}
			}
		}
		ok := true
		for _, step := range steps {
			if !ok {
				break
			}
			time.Sleep(time.Duration(rapid.IntRange(0, 3).Draw(rt, "pauseMs")) * time.Millisecond)
			switch step {
			case "restart":
				ok = bounded("Restart", func() { _ = a.Restart("", "") })
				if ok {
					_ = a.SetRemoteCredentials("peerUfragPeerUfrag", "peerPasswordPeerPasswordPeerPwd")
					gather()
					signal()
				}
			case "regather":
				ok = bounded("Restart", func() { _ = a.Restart("", "") })
				if ok {
					_ = a.GatherCandidates() // not waited for: the next step lands in the running cycle
				}
			case "fail":
				ok = bounded("the transition to Failed", func() {
					_ = a.loop.Run(a.loop, func(ctxT) { a.updateConnectionState(ConnectionStateFailed) })
				})
			}
		}
		if ok {
			ok = bounded(flavour, func() {
				if flavour == "GracefulClose" {
					_ = a.GracefulClose()
				} else {
					_ = a.Close()
				}
			})
		}
		stop.Store(true)
		select {
		case resume <- struct{}{}:
		default:
		}
		<-floodDone
		st.Record(vfHashStr(desc), len(steps) > 0 && pushed.Load() > 0, fmt.Sprintf("steps:%d", len(steps)))
		if st.WantSample() {
			st.Sample(func() string { return fmt.Sprintf("%s: %d datagrams pushed", desc, pushed.Load()) })
		}
		if !ok {
			return
		}
		good := false
		var after int
		var sample string
		for d := time.Now().Add(5 * time.Second); time.Now().Before(d); {
			after, sample = c08Census()
			if after <= before {
				good = true

				break
			}
			time.Sleep(2 * time.Millisecond)
		}
		if !good {
			st.Fail(rt, "C08/final/goroutine-left", "%d pion/ice goroutine(s) before, %d still running 5 s after %s returned (%s), e.g.\n%s", before, after, flavour, desc, sample)
		}
	})
}
