//go:build verif

package ice

// FakeNet — hermetic transport.Net with a socket tally, a scripted STUN responder and a stub TURN client
// (DESIGN.md §4.2). Used by C08, C09, C11b, C18.

import (
	"sync/atomic"
	"errors"
	"fmt"
	"io"
	"net"
	"net/netip"
	"os"
	"sort"
	"sync"
	"syscall"
	"time"

	"github.com/pion/stun/v3"
	"github.com/pion/transport/v4"
	"github.com/pion/turn/v5"
)

type fnIface struct {
	Name     string
	Up       bool
	Loopback bool
	Addrs    []string // IP strings
}

type fnSock struct {
	id       int
	kind     string // "udp", "tcp-dial", "relay", "turn-client"
	local    netip.AddrPort
	opened   time.Time
	closes   int
	opsAfter int // reads/writes issued after the first Close
	fn       *fakeNet
	mu       sync.Mutex
	closed   bool
	closeCh  chan struct{}
	inbound  chan fnDgram
	rdl      time.Time
	rdlCh    chan struct{}
	tag      string
}

type fnDgram struct {
	data []byte
	from net.Addr
}

type fnPending struct {
	sock *fnSock
	req  []byte
	dst  net.Addr
}

type fakeNet struct {
	tcpServerSaysGarbage bool // dialed TCP connections deliver a non-TLS banner
	mu        sync.Mutex
	ifMu      sync.RWMutex // guards ifaces (may change at run time)
	ifaces    []fnIface
	socks     []*fnSock
	ports     map[string]bool // "ip:port" in use
	nextPort  int
	listenErr map[int]error // n-th ListenUDP call (1-based) fails
	listenN   int
	// STUN responder
	stunServers map[string]string // "ip:port" -> mode: "now", "later", "never"
	pending     []fnPending
	mapped      netip.AddrPort // address reported in XOR-MAPPED-ADDRESS (port is replaced by the socket's port)
	closeErr    bool           // sockets return an error from Close
	// stub TURN
	turnClients  []*fnTurnClient
	turnMode     string // "ok", "listen-error", "allocate-error", "allocate-blocks"
	turnRelease  chan struct{}
	noIPv6       bool // a host without IPv6: udp6 sockets cannot be created
	oddLocalAddr bool // UDP sockets report a local address that is not a *net.UDPAddr (an application's own transport.Net)
	listenPacket int
	// inUseFailures counts listens refused because the port was still held (e.g. by a cycle winding down)
	inUseFailures int
}

func newFakeNet(ifaces []fnIface) *fakeNet {
	return &fakeNet{
		ifaces: ifaces, ports: map[string]bool{}, nextPort: 50000, listenErr: map[int]error{},
		stunServers: map[string]string{}, mapped: netip.MustParseAddrPort("203.0.113.50:0"), turnMode: "ok",
		turnRelease: make(chan struct{}, 64),
	}
}

// addIface makes a new interface appear at run time (continual gathering watches the interface list).
func (f *fakeNet) addIface(ifc fnIface) {
	f.ifMu.Lock()
	f.ifaces = append(append([]fnIface{}, f.ifaces...), ifc)
	f.ifMu.Unlock()
}

func (f *fakeNet) removeIface(name string) {
	f.ifMu.Lock()
	var kept []fnIface
	for _, ifc := range f.ifaces {
		if ifc.Name != name {
			kept = append(kept, ifc)
		}
	}
	f.ifaces = kept
	f.ifMu.Unlock()
}

func (f *fakeNet) hasIP(ip net.IP) bool {
	f.ifMu.RLock()
	defer f.ifMu.RUnlock()
	for _, ifc := range f.ifaces {
		for _, a := range ifc.Addrs {
			if net.ParseIP(a).Equal(ip) {
				return true
			}
		}
	}

	return false
}

func (f *fakeNet) newSock(kind string, local netip.AddrPort) *fnSock {
	s := &fnSock{id: len(f.socks), kind: kind, local: local, opened: time.Now(), fn: f, closeCh: make(chan struct{}), inbound: make(chan fnDgram, 16), rdlCh: make(chan struct{}, 1)}
	f.socks = append(f.socks, s)

	return s
}

func (f *fakeNet) listenUDP(network string, laddr *net.UDPAddr) (*fnSock, error) {
	f.mu.Lock()
	defer f.mu.Unlock()
	f.listenN++
	if err, ok := f.listenErr[f.listenN]; ok {
		return nil, err
	}
	ip := net.IPv4zero
	if network == "udp6" {
		ip = net.IPv6unspecified
	}
	if laddr != nil && laddr.IP != nil {
		ip = laddr.IP
	}
	if ip.IsMulticast() {
		// (the mDNS group addresses: bindable on any host that has the address family at all)
		if network == "udp6" && f.noIPv6 {
			return nil, &net.OpError{Op: "listen", Net: network, Err: os.NewSyscallError("socket", syscall.EAFNOSUPPORT)}
		}
	} else if !ip.IsUnspecified() && !f.hasIP(ip) {
		return nil, &net.OpError{Op: "listen", Net: network, Err: os.NewSyscallError("bind", syscall.EADDRNOTAVAIL)}
	}
	a, _ := netip.AddrFromSlice(ip)
	a = a.Unmap()
	port := 0
	if laddr != nil {
		port = laddr.Port
	}
	if port == 0 {
		for {
			f.nextPort++
			if !f.ports[fmt.Sprintf("%s:%d", a, f.nextPort)] {
				port = f.nextPort

				break
			}
		}
	} else if f.ports[fmt.Sprintf("%s:%d", a, port)] {
		f.inUseFailures++

		return nil, &net.OpError{Op: "listen", Net: network, Err: os.NewSyscallError("bind", syscall.EADDRINUSE)}
	}
	f.ports[fmt.Sprintf("%s:%d", a, port)] = true

	return f.newSock("udp", netip.AddrPortFrom(a, uint16(port))), nil //nolint:gosec
}

// ---- transport.Net

func (f *fakeNet) ListenPacket(network string, address string) (net.PacketConn, error) {
	ap, err := netip.ParseAddrPort(address)
	if err != nil {
		return nil, err
	}
	s, err := f.listenUDP(network, &net.UDPAddr{IP: ap.Addr().AsSlice(), Port: int(ap.Port())})
	if err != nil {
		return nil, err
	}
	s.mu.Lock()
	s.tag = "(ListenPacket)" // the TURN client's socket (the port range is for host candidates and reflexive bases)
	s.mu.Unlock()

	return s, nil
}

func (f *fakeNet) ListenUDP(network string, locAddr *net.UDPAddr) (transport.UDPConn, error) {
	// as the kernel: a link-local IPv6 address cannot be bound without its zone
	if locAddr != nil && locAddr.IP.To4() == nil && locAddr.IP.IsLinkLocalUnicast() && locAddr.Zone == "" {
		return nil, &net.OpError{Op: "listen", Net: network, Addr: locAddr, Err: errors.New("bind: invalid argument")} //nolint:err113
	}
	s, err := f.listenUDP(network, locAddr)
	if err != nil {
		return nil, err
	}

	return s, nil
}

func (f *fakeNet) ListenTCP(string, *net.TCPAddr) (transport.TCPListener, error) {
	return nil, errors.New("fakeNet: ListenTCP not supported") //nolint:err113
}
func (f *fakeNet) Dial(string, string) (net.Conn, error) {
	return nil, errors.New("fakeNet: Dial not supported") //nolint:err113
}
func (f *fakeNet) DialUDP(string, *net.UDPAddr, *net.UDPAddr) (transport.UDPConn, error) {
	return nil, errors.New("fakeNet: DialUDP not supported") //nolint:err113
}

func (f *fakeNet) DialTCP(_ string, _, raddr *net.TCPAddr) (transport.TCPConn, error) {
	f.mu.Lock()
	defer f.mu.Unlock()
	f.nextPort++
	s := f.newSock("tcp-dial", netip.AddrPortFrom(netip.MustParseAddr("10.0.0.1"), uint16(f.nextPort))) //nolint:gosec
	if f.tcpServerSaysGarbage {
		// the server is not speaking TLS: a client handshake on this connection fails at once
		s.inbound <- fnDgram{data: []byte("HTTP/1.1 400 Bad Request\r\n\r\n")}
	}

	return &fnTCPConn{fnSock: s, remote: raddr}, nil
}
func (f *fakeNet) ResolveIPAddr(n, a string) (*net.IPAddr, error)   { return net.ResolveIPAddr(n, a) }
func (f *fakeNet) ResolveUDPAddr(n, a string) (*net.UDPAddr, error) { return net.ResolveUDPAddr(n, a) }
func (f *fakeNet) ResolveTCPAddr(n, a string) (*net.TCPAddr, error) { return net.ResolveTCPAddr(n, a) }

// fnIfaceCalls counts Interfaces() calls of all fake nets (a test that needs "the monitor has polled" reads the difference).
var fnIfaceCalls atomic.Int64 //nolint:gochecknoglobals

func (f *fakeNet) Interfaces() ([]*transport.Interface, error) {
	fnIfaceCalls.Add(1)
	var out []*transport.Interface
	f.ifMu.RLock()
	ifaces := f.ifaces
	f.ifMu.RUnlock()
	for i, ifc := range ifaces {
		flags := net.FlagMulticast
		if ifc.Up {
			flags |= net.FlagUp
		}
		if ifc.Loopback {
			flags |= net.FlagLoopback
		}
		ti := transport.NewInterface(net.Interface{Index: i + 1, MTU: 1500, Name: ifc.Name, Flags: flags})
		for _, a := range ifc.Addrs {
			ip := net.ParseIP(a)
			bits := 128
			if ip.To4() != nil {
				bits = 32
				ip = ip.To4()
			}
			ti.AddAddress(&net.IPNet{IP: ip, Mask: net.CIDRMask(bits-8, bits)})
		}
		out = append(out, ti)
	}

	return out, nil
}

func (f *fakeNet) InterfaceByIndex(int) (*transport.Interface, error) {
	return nil, errors.New("not supported") //nolint:err113
}

func (f *fakeNet) InterfaceByName(string) (*transport.Interface, error) {
	return nil, errors.New("not supported") //nolint:err113
}
func (f *fakeNet) CreateDialer(*net.Dialer) transport.Dialer                   { return nil }
func (f *fakeNet) CreateListenConfig(*net.ListenConfig) transport.ListenConfig { return nil }

// ---- fnSock as transport.UDPConn

func (s *fnSock) touch() {
	if s.closed {
		s.opsAfter++
	}
}

func (s *fnSock) Close() error {
	s.mu.Lock()
	s.closes++
	if !s.closed {
		s.closed = true
		close(s.closeCh)
		s.fn.mu.Lock()
		delete(s.fn.ports, fmt.Sprintf("%s:%d", s.local.Addr(), s.local.Port()))
		s.fn.mu.Unlock()
	}
	s.mu.Unlock()
	if s.fn.closeErr {
		return errors.New("fakeNet: injected close error") //nolint:err113
	}

	return nil
}

func (s *fnSock) isClosed() bool {
	s.mu.Lock()
	defer s.mu.Unlock()

	return s.closed
}

// fnOddAddr: what an application's own transport.Net may hand out as the local address of a UDP connection.
type fnOddAddr struct{ s string }

func (a fnOddAddr) Network() string { return "udp" }
func (a fnOddAddr) String() string  { return a.s }

func (s *fnSock) LocalAddr() net.Addr {
	if s.fn != nil && s.fn.oddLocalAddr && s.kind == "udp" {
		return fnOddAddr{s.local.String()}
	}

	return &net.UDPAddr{IP: s.local.Addr().AsSlice(), Port: int(s.local.Port())}
}
func (s *fnSock) RemoteAddr() net.Addr { return nil }

func (s *fnSock) SetDeadline(t time.Time) error { return s.SetReadDeadline(t) }

func (s *fnSock) SetReadDeadline(t time.Time) error {
	s.mu.Lock()
	s.rdl = t
	s.mu.Unlock()
	select {
	case s.rdlCh <- struct{}{}:
	default:
	}

	return nil
}
func (s *fnSock) SetWriteDeadline(time.Time) error { return nil }
func (s *fnSock) SetReadBuffer(int) error          { return nil }
func (s *fnSock) SetWriteBuffer(int) error         { return nil }

func (s *fnSock) ReadFrom(p []byte) (int, net.Addr, error) {
	s.mu.Lock()
	s.touch()
	s.mu.Unlock()
	for {
		s.mu.Lock()
		dl := s.rdl
		s.mu.Unlock()
		var timer <-chan time.Time
		if !dl.IsZero() {
			d := time.Until(dl)
			if d <= 0 {
				return 0, nil, os.ErrDeadlineExceeded
			}
			timer = time.After(d)
		}
		select {
		case dg := <-s.inbound:
			return copy(p, dg.data), dg.from, nil
		case <-s.closeCh:
			return 0, nil, net.ErrClosed
		case <-timer:
			return 0, nil, os.ErrDeadlineExceeded
		case <-s.rdlCh:
		}
	}
}

func (s *fnSock) Read(p []byte) (int, error) { n, _, err := s.ReadFrom(p); return n, err }
func (s *fnSock) ReadFromUDP(b []byte) (int, *net.UDPAddr, error) {
	n, a, err := s.ReadFrom(b)
	ua, _ := a.(*net.UDPAddr)

	return n, ua, err
}

func (s *fnSock) ReadMsgUDP(b, _ []byte) (int, int, int, *net.UDPAddr, error) {
	n, a, err := s.ReadFromUDP(b)

	return n, 0, 0, a, err
}

func (s *fnSock) WriteTo(p []byte, addr net.Addr) (int, error) {
	s.mu.Lock()
	s.touch()
	closed := s.closed
	s.mu.Unlock()
	if closed {
		return 0, net.ErrClosed
	}
	s.fn.onWrite(s, p, addr)

	return len(p), nil
}
func (s *fnSock) Write(p []byte) (int, error)                      { return len(p), nil }
func (s *fnSock) WriteToUDP(b []byte, a *net.UDPAddr) (int, error) { return s.WriteTo(b, a) }
func (s *fnSock) WriteMsgUDP(b, _ []byte, a *net.UDPAddr) (int, int, error) {
	n, err := s.WriteTo(b, a)

	return n, 0, err
}

// onWrite: the scripted STUN responder.
func (f *fakeNet) onWrite(s *fnSock, p []byte, dst net.Addr) {
	if !stun.IsMessage(p) {
		return
	}
	f.mu.Lock()
	mode, ok := f.stunServers[dst.String()]
	if !ok {
		f.mu.Unlock()

		return
	}
	switch mode {
	case "now":
		f.mu.Unlock()
		f.reply(fnPending{s, append([]byte{}, p...), dst})
	case "later":
		f.pending = append(f.pending, fnPending{s, append([]byte{}, p...), dst})
		f.mu.Unlock()
	default:
		f.mu.Unlock()
	}
}

func (f *fakeNet) reply(pn fnPending) {
	m := &stun.Message{Raw: pn.req}
	if m.Decode() != nil || m.Type != stun.BindingRequest {
		return
	}
	resp, err := stun.Build(stun.BindingSuccess, stun.NewTransactionIDSetter(m.TransactionID),
		&stun.XORMappedAddress{IP: f.mapped.Addr().AsSlice(), Port: int(pn.sock.local.Port())}, stun.Fingerprint)
	if err != nil {
		return
	}
	select {
	case pn.sock.inbound <- fnDgram{resp.Raw, pn.dst}:
	default:
	}
}

// releaseOne answers the oldest withheld STUN request; reports whether there was one.
func (f *fakeNet) releaseOne() bool {
	f.mu.Lock()
	if len(f.pending) == 0 {
		f.mu.Unlock()

		return false
	}
	pn := f.pending[0]
	f.pending = f.pending[1:]
	f.mu.Unlock()
	f.reply(pn)

	return true
}

func (f *fakeNet) pendingCount() int {
	f.mu.Lock()
	defer f.mu.Unlock()

	return len(f.pending)
}

// tally reports sockets still open and the use-after-close count.
func (f *fakeNet) tally() (open []string, usedAfterClose int, total int) {
	f.mu.Lock()
	socks := append([]*fnSock{}, f.socks...)
	tcs := append([]*fnTurnClient{}, f.turnClients...)
	f.mu.Unlock()
	for _, s := range socks {
		s.mu.Lock()
		if !s.closed {
			open = append(open, fmt.Sprintf("%s#%d(%s)%s", s.kind, s.id, s.local, s.tag))
		}
		usedAfterClose += s.opsAfter
		s.mu.Unlock()
	}
	for _, tc := range tcs {
		tc.mu.Lock()
		if !tc.closed {
			open = append(open, fmt.Sprintf("turn-client#%d", tc.id))
		}
		tc.mu.Unlock()
	}
	sort.Strings(open)

	return open, usedAfterClose, len(socks) + len(tcs)
}

// ---- TCP conn for TURN over TCP

type fnTCPConn struct {
	*fnSock
	remote *net.TCPAddr
}

func (c *fnTCPConn) Read(p []byte) (int, error) {
	select {
	case <-c.closeCh:
		return 0, io.EOF
	case dg := <-c.inbound:
		return copy(p, dg.data), nil
	}
}
func (c *fnTCPConn) Write(p []byte) (int, error) { return len(p), nil }
func (c *fnTCPConn) LocalAddr() net.Addr {
	return &net.TCPAddr{IP: c.local.Addr().AsSlice(), Port: int(c.local.Port())}
}
func (c *fnTCPConn) RemoteAddr() net.Addr                 { return c.remote }
func (c *fnTCPConn) CloseRead() error                     { return nil }
func (c *fnTCPConn) CloseWrite() error                    { return nil }
func (c *fnTCPConn) ReadFrom(io.Reader) (int64, error)    { return 0, nil }
func (c *fnTCPConn) SetLinger(int) error                  { return nil }
func (c *fnTCPConn) SetKeepAlive(bool) error              { return nil }
func (c *fnTCPConn) SetKeepAlivePeriod(time.Duration) error { return nil }
func (c *fnTCPConn) SetNoDelay(bool) error                { return nil }

// ---- stub TURN client

type fnTurnClient struct {
	id        int
	fn        *fakeNet
	mu        sync.Mutex
	closed    bool
	closes    int
	listened  bool
	allocated *fnSock
	cfgConn   net.PacketConn
}

func (f *fakeNet) turnFactory(cfg *turn.ClientConfig) (turnClient, error) {
	f.mu.Lock()
	defer f.mu.Unlock()
	if f.turnMode == "factory-error" {
		return nil, errors.New("fakeNet: injected TURN client construction error") //nolint:err113
	}
	tc := &fnTurnClient{id: len(f.turnClients), fn: f, cfgConn: cfg.Conn}
	f.turnClients = append(f.turnClients, tc)

	return tc, nil
}

func (tc *fnTurnClient) Listen() error {
	tc.fn.mu.Lock()
	mode := tc.fn.turnMode
	tc.fn.mu.Unlock()
	if mode == "listen-error" {
		return errors.New("fakeNet: injected TURN listen error") //nolint:err113
	}
	tc.mu.Lock()
	tc.listened = true
	tc.mu.Unlock()

	return nil
}

func (tc *fnTurnClient) Allocate() (net.PacketConn, error) {
	tc.fn.mu.Lock()
	mode := tc.fn.turnMode
	tc.fn.mu.Unlock()
	switch mode {
	case "allocate-error":
		return nil, errors.New("fakeNet: injected TURN allocate error") //nolint:err113
	case "allocate-blocks":
		select {
		case <-tc.fn.turnRelease:
		case <-time.After(20 * time.Second):
		}
	}
	tc.fn.mu.Lock()
	tc.fn.nextPort++
	relayIP := "198.51.100.99"
	if mode == "relay-linklocal" {
		relayIP = "fe80::77" // filtered for location-tracking reasons by the gatherer
	}
	s := tc.fn.newSock("relay", netip.AddrPortFrom(netip.MustParseAddr(relayIP), uint16(tc.fn.nextPort))) //nolint:gosec
	tc.fn.mu.Unlock()
	tc.mu.Lock()
	tc.allocated = s
	tc.mu.Unlock()

	return s, nil
}

func (tc *fnTurnClient) Close() {
	tc.mu.Lock()
	tc.closed = true
	tc.closes++
	tc.mu.Unlock()
}
