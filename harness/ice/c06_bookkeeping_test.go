//go:build verif

package ice

// C06 — candidate and pair bookkeeping stays consistent; Restart leaves no residue.

import (
	"context"
	"fmt"
	"net"
	"net/netip"
	"runtime"
	"strings"
	"testing"
	"time"

	"pgregory.net/rapid"
)

type c06PairView struct {
	id        uint64
	local     netip.AddrPort
	remote    netip.AddrPort
	lnt, rnt  NetworkType
	state     CandidatePairState
	prio      uint64
	rtype     CandidateType
	reqSent   uint64
	reqRecv   uint64
	respSent  uint64
	respRecv  uint64
	nominated bool
	selected  bool
	localPtr  Candidate
	remotePtr Candidate
}

type c06View struct {
	pairs    []c06PairView
	byIDLen  int
	byIDOK   bool
	locals   []Candidate
	remotes  []Candidate
	selected *CandidatePair
	selInChecklist bool
	pending  int
}

func c06Take(a *Agent) c06View {
	var v c06View
	_ = a.loop.Run(a.loop, func(context.Context) {
		sel := a.getSelectedPair()
		v.selected = sel
		v.byIDLen = len(a.pairsByID)
		v.byIDOK = true
		for _, p := range a.checklist {
			if a.pairsByID[p.id] != p {
				v.byIDOK = false
			}
			if p == sel {
				v.selInChecklist = true
			}
			v.pairs = append(v.pairs, c06PairView{
				id: p.id, local: p.Local.addrPort(), remote: p.Remote.addrPort(), lnt: p.Local.NetworkType(), rnt: p.Remote.NetworkType(),
				state: p.state, prio: p.priority(), rtype: p.Remote.Type(), reqSent: p.RequestsSent(), reqRecv: p.RequestsReceived(),
				respSent: p.ResponsesSent(), respRecv: p.ResponsesReceived(), nominated: p.nominated, selected: p == sel,
				localPtr: p.Local, remotePtr: p.Remote,
			})
		}
		for _, set := range a.localCandidates {
			v.locals = append(v.locals, set...)
		}
		for _, set := range a.remoteCandidates {
			v.remotes = append(v.remotes, set...)
		}
		v.pending = len(a.pendingBindingRequests)
	})

	return v
}

// waitNoAddRemoteGoroutine waits until no goroutine started by AddRemoteCandidate is left (state barrier).
func waitNoAddRemoteGoroutine() bool {
	deadline := time.Now().Add(20 * time.Second)
	buf := make([]byte, 1<<20)
	for time.Now().Before(deadline) {
		n := runtime.Stack(buf, true)
		if !strings.Contains(string(buf[:n]), "AddRemoteCandidate.func") {
			return true
		}
		runtime.Gosched()
	}

	return false
}

func TestVerif_C06_Bookkeeping(t *testing.T) {
	st := vfNewStats(t)
	rapid.Check(t, func(rt *rapid.T) {
		controlling := rapid.Bool().Draw(rt, "controlling")
		// remote IP filter: rejects a drawn subset of the endpoint addresses
		rejected := map[string]bool{}
		nEp := 6
		epSpecs := make([]soloEpSpec, nEp)
		for i := range epSpecs {
			epSpecs[i] = soloEpSpec{V6: i >= 4, Typ: CandidateTypeHost}
		}
		for i := 0; i < nEp; i++ {
			if rapid.IntRange(0, 4).Draw(rt, "rejectEp") == 0 {
				_, pub := simAddrs(1, i, 0, epSpecs[i].V6, false, true)
				rejected[pub.Addr().String()] = true
			}
		}
		// keepalives (consent checks on the selected pair, sent on every tick) on or off: the tick that enters Failed must
		// not send one for the pair it has just released
		keepalive := rapid.SampledFrom([]time.Duration{0, 2 * time.Second}).Draw(rt, "keepalive")
		cfg := simAgentConfig{
			controlling: controlling, maxBinding: 7, disconnected: 200 * time.Millisecond, failed: 300 * time.Millisecond, keepalive: keepalive, explicitTimeout: true,
			disableActive: true,
			remoteIPFilter: func(ip net.IP) bool {
				a, _ := netip.AddrFromSlice(ip)

				return !rejected[a.Unmap().String()]
			},
		}
		localSpecs := []duoSockSpec{{Kind: simKindHost}, {Kind: simKindRelayish}, {V6: true, Kind: simKindHost}, {Kind: simKindSrflx}, {Kind: simKindTCPHost}}
		if rapid.Bool().Draw(rt, "tcpLocalFirst") {
			localSpecs[0], localSpecs[4] = localSpecs[4], localSpecs[0]
		}
		signalledTCPActiveOnly := map[string]bool{} // "type|addrport" signalled with tcptype active and never otherwise
		s, err := newSoloSim(cfg, nil, epSpecs)
		if err != nil {
			rt.Fatalf("harness: %v", err)
		}
		defer s.close()
		// candidates may be added (and the agent restarted) before it is started
		lateStart := rapid.IntRange(0, 3).Draw(rt, "lateStart") == 0
		if !lateStart {
			if err := s.ag.start(s.peer.ufrag, s.peer.pwd); err != nil {
				rt.Fatalf("harness: %v", err)
			}
		}
		conn := &Conn{agent: s.ag.a}
		peerRole := "controlled"
		if !controlling {
			peerRole = "controlling"
		}
		nextLocal := 0
		lbl := map[string]bool{}
		idAddr := map[uint64]string{} // id -> local|remote transport addresses, within a generation
		var maxID uint64
		prflxSeen := map[netip.AddrPort]bool{}
		signalled := map[netip.AddrPort]bool{}

		invariants := func(where string) c06View {
			v := c06Take(s.ag.a)
			fail := func(sig, format string, args ...any) {
				st.Fail(rt, sig, "%s: %s\nops: %s", where, fmt.Sprintf(format, args...), strings.Join(s.ops, "; "))
			}
			ids := map[uint64]bool{}
			for i, p := range v.pairs {
				if ids[p.id] {
					fail("C06/pairs/duplicate-id", "pair id %d listed twice", p.id)
				}
				ids[p.id] = true
				for j := 0; j < i; j++ {
					q := v.pairs[j]
					if q.localPtr.Equal(p.localPtr) && q.remotePtr.Equal(p.remotePtr) {
						fail("C06/pairs/duplicate-pair", "pair %s→%s listed twice (ids %d and %d)", p.local, p.remote, q.id, p.id)
					}
				}
				key := fmt.Sprintf("%s|%s", p.local, p.remote)
				if prev, ok := idAddr[p.id]; ok && prev != key {
					fail("C06/pairs/id-retargeted", "pair id %d addressed %s, now %s", p.id, prev, key)
				}
				if _, ok := idAddr[p.id]; !ok {
					if p.id <= maxID {
						fail("C06/pairs/id-reused", "new pair got id %d although %d was already used in this generation", p.id, maxID)
					}
					idAddr[p.id] = key
				}
				if p.id > maxID {
					maxID = p.id
				}
				if p.lnt != p.rnt {
					fail("C06/pairs/mixed-network-types", "pair %d joins %s with %s", p.id, p.lnt, p.rnt)
				}
				foundL, foundR := false, false
				for _, l := range v.locals {
					// (a pair created on the inbound path holds the candidate through its embedded base: same object)
					if l == p.localPtr || c17Base(l) == c17Base(p.localPtr) {
						foundL = true
					}
				}
				for _, r := range v.remotes {
					if r == p.remotePtr {
						foundR = true
					}
				}
				if !foundL || !foundR {
					fail("C06/pairs/stale-candidate", "pair %d (%s→%s): local current=%v remote current=%v; pair local %v, listed locals %v", p.id, p.local, p.remote, foundL, foundR, p.localPtr, v.locals)
				}
			}
			if !v.byIDOK || v.byIDLen != len(v.pairs) {
				fail("C06/pairs/index-out-of-sync", "pairsByID has %d entries (consistent=%v), checklist %d", v.byIDLen, v.byIDOK, len(v.pairs))
			}
			if v.selected != nil && !v.selInChecklist {
				fail("C06/selected/not-listed", "selected pair %s is not among the listed pairs", pairKey(v.selected))
			}
			for i, r := range v.remotes {
				if r.TCPType() == TCPTypeActive {
					fail("C06/remotes/tcp-active-admitted", "remote %s has tcptype active", r)
				}
				if r.NetworkType().IsTCP() && signalledTCPActiveOnly[fmt.Sprintf("%s|%s", r.Type(), r.addrPort())] {
					fail("C06/remotes/tcp-active-admitted", "remote %s was signalled with tcptype active only (TCPType() reports %q)", r, r.TCPType())
				}
				if r.Type() == CandidateTypePeerReflexive {
					for _, o := range v.remotes {
						if o != r && o.Type() != CandidateTypePeerReflexive && o.NetworkType() == r.NetworkType() && o.addrPort() == r.addrPort() && o.addrPort().IsValid() && o.TCPType() == r.TCPType() {
							// (a TCP candidate's direction is part of what pion compares: a passive and an active
							// candidate on one ip:port are two candidates)
							fail("C06/remotes/prflx-not-superseded", "peer-reflexive remote %s is listed next to the signalled candidate %s with the same transport address", r, o)
						}
					}
				}
				if rejected[r.addrPort().Addr().Unmap().String()] {
					fail("C06/remotes/filtered-address-admitted", "remote %s (%s) is rejected by the remote IP filter", r, r.Type())
				}
				for j := 0; j < i; j++ {
					o := v.remotes[j]
					if o.Equal(r) {
						fail("C06/remotes/duplicate", "remote %s listed twice", r)
					}
					// the same candidate written differently (IPv6 text forms) is still the same candidate
					if o.NetworkType() == r.NetworkType() && o.Type() == r.Type() && o.addrPort() == r.addrPort() && o.addrPort().IsValid() &&
						o.RelatedAddress().Equal(r.RelatedAddress()) && o.TCPType() == r.TCPType() {
						fail("C06/remotes/duplicate-by-transport-address", "remote %s and %s are the same candidate (same type and transport address) listed twice", o, r)
					}
				}
			}
			// public views agree with the in-package view
			stats := s.ag.a.GetCandidatePairsStats()
			infos := conn.GetCandidatePairsInfo()
			if len(stats) != len(v.pairs) || len(infos) != len(v.pairs) {
				fail("C06/views/length", "stats %d infos %d pairs %d", len(stats), len(infos), len(v.pairs))
			}
			for i := range infos {
				if i < len(v.pairs) && (infos[i].ID != v.pairs[i].id || infos[i].State != v.pairs[i].state) {
					fail("C06/views/info-mismatch", "info[%d]=%+v pair=%+v", i, infos[i], v.pairs[i])
				}
			}

			return v
		}
		reset := func() {
			idAddr = map[uint64]string{}
			prflxSeen = map[netip.AddrPort]bool{}
			signalled = map[netip.AddrPort]bool{}
			signalledTCPActiveOnly = map[string]bool{}
			nextLocal = 0
			maxID = 0 // ids need only be unique within a generation
		}
		emptyCheck := func(where string, oldSocks []*simSock) {
			v := c06Take(s.ag.a)
			if len(v.pairs) != 0 || len(v.locals) != 0 || len(v.remotes) != 0 || v.selected != nil || v.pending != 0 || v.byIDLen != 0 {
				st.Fail(rt, "C06/residue/after-"+where, "pairs=%d locals=%d remotes=%d selected=%v pending=%d byID=%d\nops: %s",
					len(v.pairs), len(v.locals), len(v.remotes), v.selected != nil, v.pending, v.byIDLen, strings.Join(s.ops, "; "))
			}
			lc, _ := s.ag.a.GetLocalCandidates()
			rc, _ := s.ag.a.GetRemoteCandidates()
			if len(lc) != 0 || len(rc) != 0 || len(s.ag.a.GetCandidatePairsStats()) != 0 {
				st.Fail(rt, "C06/residue/public-views-after-"+where, "GetLocalCandidates=%d GetRemoteCandidates=%d stats=%d", len(lc), len(rc), len(s.ag.a.GetCandidatePairsStats()))
			}
			for _, sk := range oldSocks {
				if !sk.isClosed() {
					st.Fail(rt, "C06/residue/socket-open-after-"+where, "socket %s of the ended generation is still open", sk.name())
				}
			}
		}
		nOps := rapid.IntRange(1, 50).Draw(rt, "nOps")
		for i := 0; i < nOps; i++ {
			op := rapid.SampledFrom([]string{
				"addLocal", "addLocal", "addRemote", "addRemote", "addRemote", "inboundRequest", "inboundRequest", "tick", "answer", "answer",
				"nominate", "silenceFail", "restart", "writeToPair", "addRemoteTCP", "connect", "connect", "start", "addRemoteThenRestart",
			}).Draw(rt, "op")
			if (op == "restart" || op == "silenceFail" || op == "addRemoteThenRestart") && rapid.IntRange(0, 2).Draw(rt, "really") != 0 {
				op = "tick"
			}
			where := fmt.Sprintf("step %d (%s)", i, op)
			s.purgeNonRequests()
			switch op {
			case "start":
				if s.ag.started {
					continue
				}
				if err := s.ag.start(s.peer.ufrag, s.peer.pwd); err != nil {
					rt.Fatalf("harness: %v", err)
				}
				s.ops = append(s.ops, "start")
			case "addLocal":
				if nextLocal >= len(localSpecs) || s.ag.state() == ConnectionStateFailed {
					continue
				}
				sp := localSpecs[nextLocal]
				if _, err := s.ag.addLocal(nextLocal, sp.V6, sp.Kind, true); err != nil {
					rt.Fatalf("harness: addLocal: %v", err)
				}
				nextLocal++
				s.ops = append(s.ops, "addLocal")
			case "addRemote":
				ei := rapid.IntRange(0, nEp-1).Draw(rt, "ep")
				typ := rapid.SampledFrom([]CandidateType{CandidateTypeHost, CandidateTypeServerReflexive, CandidateTypeRelay, CandidateTypePeerReflexive}).Draw(rt, "rtype")
				spec := epSpecs[ei]
				spec.Typ = typ
				spec.Prio = rapid.SampledFrom([]uint32{0, 5, 2130706431}).Draw(rt, "rprio")
				if spec.V6 {
					spec.Text = rapid.SampledFrom([]int{0, 0, 1, 2}).Draw(rt, "addressText")
					if spec.Text != 0 {
						lbl["non-canonical-address-text"] = true
					}
				}
				cand := s.epCandidate(ei, spec)
				addr := s.eps[ei].pub
				// supersession bookkeeping: remember what the affected pairs looked like
				before := c06Take(s.ag.a)
				wasPrflx := false
				for _, r := range before.remotes {
					if r.addrPort() == addr && r.Type() == CandidateTypePeerReflexive && r.NetworkType() == cand.NetworkType() {
						wasPrflx = true
					}
				}
				if err := s.ag.a.AddRemoteCandidate(cand); err != nil {
					st.Fail(rt, "C06/addremote/error", "%s: %v", where, err)
				}
				if !waitNoAddRemoteGoroutine() {
					st.Inconclusive()
					rt.Fatalf("VERIF-INCONCLUSIVE: AddRemoteCandidate goroutine still running after 20 s")
				}
				s.w.settle()
				s.ops = append(s.ops, fmt.Sprintf("addRemote(%s %s prio=%d)", s.eps[ei].name(), typ, spec.Prio))
				if signalled[addr] {
					lbl["duplicate-remote"] = true
				}
				signalled[addr] = true
				if wasPrflx && typ != CandidateTypePeerReflexive && !rejected[addr.Addr().String()] {
					lbl["prflx-then-signalled"] = true
					after := c06Take(s.ag.a)
					for _, bp := range before.pairs {
						if bp.remote != addr || bp.rtype != CandidateTypePeerReflexive || bp.rnt != cand.NetworkType() {
							continue
						}
						found := false
						for _, ap := range after.pairs {
							if ap.id != bp.id {
								continue
							}
							found = true
							if ap.remote != bp.remote || ap.local != bp.local || ap.state != bp.state || ap.prio != bp.prio || ap.selected != bp.selected ||
								ap.reqSent != bp.reqSent || ap.reqRecv != bp.reqRecv || ap.respSent != bp.respSent || ap.respRecv != bp.respRecv || ap.nominated != bp.nominated {
								st.Fail(rt, "C06/supersession/pair-changed", "%s: pair %d before %+v after %+v\nops: %s", where, bp.id, bp, ap, strings.Join(s.ops, "; "))
							}
							if ap.rtype != typ {
								st.Fail(rt, "C06/supersession/type-not-updated", "%s: pair %d remote type %s, want %s", where, bp.id, ap.rtype, typ)
							}
						}
						if !found {
							st.Fail(rt, "C06/supersession/pair-lost", "%s: pair %d disappeared when its prflx remote was superseded", where, bp.id)
						}
					}
				}
			case "addRemoteTCP":
				ei := rapid.IntRange(0, 3).Draw(rt, "ep")
				tt := rapid.SampledFrom([]TCPType{TCPTypeActive, TCPTypePassive, TCPTypePassive, TCPTypeSimultaneousOpen}).Draw(rt, "tcptype")
				ap := s.eps[ei].pub
				// as it arrives through signalling: text; RFC 6544 allows tcptype on every candidate type
				ttyp := rapid.SampledFrom([]string{"host", "host", "srflx", "relay"}).Draw(rt, "tcpCandidateType")
				text := fmt.Sprintf("candidate:77 1 tcp 1518280447 %s %d typ %s", ap.Addr(), ap.Port(), ttyp)
				if ttyp != "host" {
					text += " raddr 10.0.0.7 rport 9"
				}
				if ttyp == "host" || rapid.IntRange(0, 2).Draw(rt, "withTCPType") != 0 {
					text += " tcptype " + tt.String()
				} else {
					tt = TCPTypeUnspecified // reflexive / relay TCP candidates are also signalled without a direction
				}
				cand, err := UnmarshalCandidate(text)
				if err != nil {
					rt.Fatalf("harness: %q: %v", text, err)
				}
				key := fmt.Sprintf("%s|%s", cand.Type(), ap)
				if tt == TCPTypeActive {
					if _, seen := signalledTCPActiveOnly[key]; !seen {
						signalledTCPActiveOnly[key] = true
					}
				} else {
					signalledTCPActiveOnly[key] = false
				}
				_ = s.ag.a.AddRemoteCandidate(cand)
				if !waitNoAddRemoteGoroutine() {
					st.Inconclusive()
					rt.Fatalf("VERIF-INCONCLUSIVE: AddRemoteCandidate goroutine still running")
				}
				lbl["tcp-remote"] = true
				s.ops = append(s.ops, fmt.Sprintf("addRemoteTCP(%s %s %s)", s.eps[ei].name(), ttyp, tt))
			case "inboundRequest":
				if len(s.ag.socks) == 0 {
					continue
				}
				ep := s.eps[rapid.IntRange(0, nEp-1).Draw(rt, "ep")]
				to := s.ag.socks[rapid.IntRange(0, len(s.ag.socks)-1).Draw(rt, "to")]
				// (an IPv4-mapped source on a socket bound to an IPv6 address is not generated: such a socket cannot
				// receive IPv4 traffic, and the dual-stack UDP mux hands IPv4-mapped sources to its IPv4 connection)
				if ep.priv.Addr().Is4() != to.priv.Addr().Is4() {
					continue
				}
				if rejected[ep.pub.Addr().String()] {
					lbl["filtered-prflx"] = true
				} else if !signalled[ep.pub] {
					prflxSeen[ep.pub] = true
				} else if prflxSeen[ep.pub] {
					lbl["signalled-then-prflx"] = true
				}
				s.peerRequest(ep, to, false, nil, uint32(rapid.SampledFrom([]int{1, 1845494271}).Draw(rt, "prio")), peerRole, 77) //nolint:gosec
				s.ops = append(s.ops, fmt.Sprintf("inboundRequest(%s→%s)", ep.name(), to.name()))
			case "tick":
				s.ag.tick()
				s.ops = append(s.ops, "tick")
			case "answer":
				reqs := s.agentRequests()
				if len(reqs) == 0 {
					continue
				}
				d := reqs[rapid.IntRange(0, len(reqs)-1).Draw(rt, "which")]
				s.removeInflight(d)
				if ep := s.epByAddr(d.dst); ep != nil && !d.src.isClosed() {
					s.answer(d, ep)
					s.ops = append(s.ops, fmt.Sprintf("answer(%s)", d))
				}
			case "nominate":
				if len(s.ag.socks) == 0 || controlling {
					continue
				}
				ep := s.eps[rapid.IntRange(0, nEp-1).Draw(rt, "ep")]
				to := s.ag.socks[rapid.IntRange(0, len(s.ag.socks)-1).Draw(rt, "to")]
				if ep.priv.Addr().Is4() != to.priv.Addr().Is4() {
					continue
				}
				s.peerRequest(ep, to, true, nil, 100, peerRole, 77)
				s.ops = append(s.ops, fmt.Sprintf("nominate(%s→%s)", ep.name(), to.name()))
			case "connect":
				if len(s.ag.socks) == 0 {
					continue
				}
				if controlling {
					for round := 0; round < 2; round++ {
						s.ag.tick()
						for _, d := range s.agentRequests() {
							s.removeInflight(d)
							if ep := s.epByAddr(d.dst); ep != nil && !d.src.isClosed() {
								s.answer(d, ep)
							}
						}
					}
				} else {
					ep := s.eps[rapid.IntRange(0, nEp-1).Draw(rt, "ep")]
					to := s.ag.socks[rapid.IntRange(0, len(s.ag.socks)-1).Draw(rt, "to")]
					if ep.priv.Addr().Is4() != to.priv.Addr().Is4() {
						continue
					}
					s.peerRequest(ep, to, true, nil, 100, peerRole, 77)
					for _, d := range s.agentRequests() {
						s.removeInflight(d)
						if e2 := s.epByAddr(d.dst); e2 != nil && !d.src.isClosed() {
							s.answer(d, e2)
						}
					}
				}
				s.ops = append(s.ops, "connect")
			case "writeToPair":
				v := c06Take(s.ag.a)
				if len(v.pairs) == 0 {
					continue
				}
				p := v.pairs[rapid.IntRange(0, len(v.pairs)-1).Draw(rt, "pair")]
				from := s.w.logLen()
				n, err := conn.WriteToPair(p.id, []byte("payload-for-pair"))
				out := s.w.emittedSince(from, 0)
				if p.state == CandidatePairStateSucceeded {
					if err != nil || n == 0 || len(out) != 1 || out[0].dst != p.remote || c17Base(out[0].src.cand) != c17Base(p.localPtr) {
						st.Fail(rt, "C06/writetopair/wrong-route", "%s: WriteToPair(%d) = %d,%v emitted %v; pair is %s→%s", where, p.id, n, err, out, p.local, p.remote)
					}
					lbl["write-to-pair"] = true
				} else if err == nil {
					st.Fail(rt, "C06/writetopair/unvalidated", "%s: WriteToPair(%d) accepted for a pair in state %s", where, p.id, p.state)
				}
				s.ops = append(s.ops, fmt.Sprintf("writeToPair(%d)", p.id))
			case "silenceFail":
				sp := s.ag.selectedPair()
				if sp == nil {
					continue
				}
				v := c06Take(s.ag.a)
				if len(v.pairs) >= 2 {
					lbl["failed-with-several-pairs"] = true
				}
				old := append([]*simSock{}, s.ag.socks...)
				if setter, ok := sp.Remote.(candidateActivitySetter); ok {
					setter.setLastReceived(time.Now().Add(-time.Hour))
				}
				s.ag.tick() // → Disconnected
				s.ag.tick() // → Failed
				if got := s.ag.state(); got != ConnectionStateFailed {
					st.Fail(rt, "C06/failed/not-reached", "%s: state %s after an hour of silence and two ticks", where, got)
				}
				s.ops = append(s.ops, "silence→Failed")
				emptyCheck("failed", old)
				s.ag.socks = nil
				reset()
			case "addRemoteThenRestart":
				// the application hands over a trickled candidate and restarts right away (no waiting in between)
				ei := rapid.IntRange(0, nEp-1).Draw(rt, "ep")
				cand := s.epCandidate(ei, epSpecs[ei])
				old := append([]*simSock{}, s.ag.socks...)
				_ = s.ag.a.AddRemoteCandidate(cand)
				if err := s.ag.restart(); err != nil {
					rt.Fatalf("harness: restart: %v", err)
				}
				if !waitNoAddRemoteGoroutine() {
					st.Inconclusive()
					rt.Fatalf("VERIF-INCONCLUSIVE: AddRemoteCandidate goroutine still running after 20 s")
				}
				s.w.mu.Lock()
				s.w.inflight = nil
				s.w.mu.Unlock()
				lbl["add-remote-then-restart"] = true
				s.ops = append(s.ops, fmt.Sprintf("addRemote(%s)+restart", s.eps[ei].name()))
				emptyCheck("add-remote-then-restart", old)
				reset()
				if s.ag.started {
					_ = s.ag.a.SetRemoteCredentials(s.peer.ufrag, s.peer.pwd)
				}
			case "restart":
				v := c06Take(s.ag.a)
				if len(v.pairs) >= 2 {
					lbl["restart-with-several-pairs"] = true
				}
				if !s.ag.started && len(v.pairs) > 0 {
					lbl["restart-before-start-with-pairs"] = true
				}
				old := append([]*simSock{}, s.ag.socks...)
				if err := s.ag.restart(); err != nil {
					rt.Fatalf("harness: restart: %v", err)
				}
				s.w.mu.Lock()
				s.w.inflight = nil
				s.w.mu.Unlock()
				s.ops = append(s.ops, "restart")
				emptyCheck("restart", old)
				reset()
				if s.ag.started {
					_ = s.ag.a.SetRemoteCredentials(s.peer.ufrag, s.peer.pwd)
				}
			}
			invariants(where)
		}
		if s.w.elapsed() > 3*time.Second {
			st.Inconclusive()

			return
		}
		var labels []string
		for l := range lbl {
			labels = append(labels, l)
		}
		nontrivial := lbl["prflx-then-signalled"] || lbl["restart-before-start-with-pairs"] || lbl["restart-with-several-pairs"] || lbl["failed-with-several-pairs"] || lbl["filtered-prflx"]
		desc := fmt.Sprintf("controlling=%v rejected=%v ops=%s", controlling, rejected, strings.Join(s.ops, "; "))
		st.Record(vfHashStr(desc), nontrivial, labels...)
		if nontrivial && st.WantSample() {
			st.Sample(func() string { return desc })
		}
	})
}
