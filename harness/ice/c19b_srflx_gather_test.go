//go:build verif

package ice

import (
	"fmt"
	"net/netip"
	"sort"
	"strings"
	"sync"
	"testing"
	"time"

	"github.com/pion/logging"
	"github.com/pion/stun/v3"
	"pgregory.net/rapid"
)

// TestVerif_C19_SrflxGatherPath: server-reflexive rules as the gatherer applies them, one address family at a time
// (an agent with udp4 only or udp6 only, a STUN server of that family that answers at once, one catch-all srflx rule
// for that family — global, or restricted by Networks, or by a CIDR covering the family's wildcard). Replace mode
// substitutes: the published srflx addresses are exactly the rule's externals, the STUN-derived address is not
// advertised beside them. Append mode adds: the STUN-derived address and the externals. (With both families enabled
// and a rule for one of them the statement does not say what the other family gets; not generated.)
func TestVerif_C19_SrflxGatherPath(t *testing.T) {
	st := vfNewStats(t)
	lf := logging.NewDefaultLoggerFactory()
	lf.DefaultLogLevel = logging.LogLevelDisabled
	rapid.Check(t, func(rt *rapid.T) {
		v6 := rapid.Bool().Draw(rt, "ipv6")
		replace := rapid.Bool().Draw(rt, "replaceMode")
		scope := rapid.SampledFrom([]string{"global", "networks", "cidr"}).Draw(rt, "ruleScope")
		nExt := rapid.IntRange(1, 2).Draw(rt, "externals")
		local, server, mapped, ext := "10.0.0.1", "198.51.100.1", "203.0.113.50", []string{"203.0.113.9", "203.0.113.10"}
		nt := NetworkTypeUDP4
		if v6 {
			local, server, mapped, ext = "2001:db8:1::1", "2001:db8:53::1", "2001:db8:aa::50", []string{"2001:db8:ee::9", "2001:db8:ee::10"}
			nt = NetworkTypeUDP6
		}
		ext = ext[:nExt]
		rule := AddressRewriteRule{External: ext, AsCandidateType: CandidateTypeServerReflexive, Mode: AddressRewriteAppend}
		if replace {
			rule.Mode = AddressRewriteReplace
		}
		switch scope {
		case "networks":
			rule.Networks = []NetworkType{nt}
		case "cidr":
			rule.CIDR = "0.0.0.0/0"
			if v6 {
				rule.CIDR = "::/0"
			}
		}
		fn := newFakeNet([]fnIface{{Name: "eth0", Up: true, Addrs: []string{local}}})
		fn.mapped = netip.AddrPortFrom(netip.MustParseAddr(mapped), 0)
		fn.stunServers[netip.AddrPortFrom(netip.MustParseAddr(server), 3478).String()] = "now"
		a, err := NewAgentWithOptions(WithNet(fn), WithLoggerFactory(lf), WithMulticastDNSMode(MulticastDNSModeDisabled),
			WithCandidateTypes([]CandidateType{CandidateTypeServerReflexive}), WithNetworkTypes([]NetworkType{nt}),
			WithUrls([]*stun.URI{{Scheme: stun.SchemeTypeSTUN, Host: server, Port: 3478, Proto: stun.ProtoTypeUDP}}),
			WithSTUNGatherTimeout(2*time.Second), WithAddressRewriteRules(rule))
		desc := fmt.Sprintf("family v6=%v, srflx rule mode replace=%v scope %s externals %v, STUN maps to %s", v6, replace, scope, ext, mapped)
		if err != nil {
			st.Fail(rt, "C19/validation/option-valid-rejected", "NewAgentWithOptions rejected a valid srflx rule: %v (%s)", err, desc)

			return
		}
		defer func() {
			done := make(chan struct{})
			go func() { _ = a.Close(); close(done) }()
			select {
			case <-done:
			case <-time.After(20 * time.Second):
			}
		}()
		var (
			mu    sync.Mutex
			addrs []string
			done  = make(chan struct{})
			once  sync.Once
		)
		_ = a.OnCandidate(func(c Candidate) {
			if c == nil {
				once.Do(func() { close(done) })

				return
			}
			if c.Type() == CandidateTypeServerReflexive {
				mu.Lock()
				addrs = append(addrs, c.Address())
				mu.Unlock()
			}
		})
		if err := a.GatherCandidates(); err != nil {
			rt.Fatalf("harness: gather: %v", err)
		}
		select {
		case <-done:
		case <-time.After(20 * time.Second):
			st.Inconclusive()
			rt.Fatalf("VERIF-INCONCLUSIVE: gathering did not complete within 20 s (%s)", desc)
		}
		mu.Lock()
		got := append([]string{}, addrs...)
		mu.Unlock()
		want := append([]string{}, ext...)
		if !replace {
			want = append(want, mapped)
		}
		canon := func(ss []string) string {
			set := map[string]bool{}
			for _, s := range ss {
				if ap, err := netip.ParseAddr(s); err == nil {
					s = ap.Unmap().String()
				}
				set[s] = true
			}
			var out []string
			for s := range set {
				out = append(out, s)
			}
			sort.Strings(out)

			return strings.Join(out, " ")
		}
		if canon(got) != canon(want) {
			sig := "C19/srflx-gather/append-mode-addresses"
			if replace {
				sig = "C19/srflx-gather/replace-mode-advertises-the-stun-address"
			}
			st.Fail(rt, sig, "published srflx addresses %v, want %v (%s)", got, want, desc)
		}
		st.Record(vfHashStr(desc), replace, fmt.Sprintf("ipv6:%v", v6), fmt.Sprintf("replace:%v", replace), "scope:"+scope)
		if st.WantSample() {
			st.Sample(func() string { return desc + fmt.Sprintf(" → %v", got) })
		}
	})
}
