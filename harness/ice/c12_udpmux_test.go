//go:build verif

package ice

// C12 — UDP mux delivers each datagram to the right connection and to no other.
// Model-based: reference routing table (owner by last writer, registration by ufrag and family).

import (
	"bytes"
	"errors"
	"fmt"
	"net"
	"net/netip"
	"os"
	"runtime"
	"strings"
	"sync"
	"testing"
	"time"

	"github.com/pion/logging"
	"github.com/pion/stun/v3"
	"pgregory.net/rapid"
)

type c12In struct {
	data []byte
	src  netip.AddrPort
}

// c12Base is the socket under the mux: inbound datagrams come from the harness, writes are captured.
type c12Base struct {
	mu        sync.Mutex
	cond      *sync.Cond
	queue     []c12In
	readCalls int
	closed    bool
	writes    []c12In // data + destination
	local     *net.UDPAddr
	// write faults (C13)
	blockWrites  bool
	deadlineLag  time.Duration // a blocked write notices an expired deadline only this much later (a slow kernel)
	release      chan struct{}
	deadline     time.Time
	deadlineLog  []time.Time
	deadlineErrN int // SetWriteDeadline fails on the n-th call (1-based); 0 = never
	deadlineCall int
	inWrite      int
	onWrite      func(data []byte, dst netip.AddrPort) // observer of successful writes (e.g. a scripted STUN server)
}

func newC12Base(local string) *c12Base {
	b := &c12Base{local: net.UDPAddrFromAddrPort(netip.MustParseAddrPort(local)), release: make(chan struct{}, 1024)}
	b.cond = sync.NewCond(&b.mu)

	return b
}

func (b *c12Base) readOne(p []byte) (int, netip.AddrPort, error) {
	b.mu.Lock()
	defer b.mu.Unlock()
	b.readCalls++
	b.cond.Broadcast()
	for len(b.queue) == 0 && !b.closed {
		b.cond.Wait()
	}
	if b.closed {
		return 0, netip.AddrPort{}, net.ErrClosed
	}
	in := b.queue[0]
	b.queue = b.queue[1:]
	n := copy(p, in.data)

	return n, in.src, nil
}

func (b *c12Base) ReadFrom(p []byte) (int, net.Addr, error) {
	n, ap, err := b.readOne(p)
	if err != nil {
		return 0, nil, err
	}

	return n, &net.UDPAddr{IP: ap.Addr().AsSlice(), Port: int(ap.Port()), Zone: ap.Addr().Zone()}, nil
}

func (b *c12Base) writeOne(p []byte, dst netip.AddrPort) (int, error) {
	b.mu.Lock()
	if b.closed {
		b.mu.Unlock()

		return 0, net.ErrClosed
	}
	if b.blockWrites {
		b.inWrite++
		b.cond.Broadcast()
		for {
			if !b.deadline.IsZero() && !time.Now().Before(b.deadline.Add(b.deadlineLag)) {
				b.inWrite--
				b.mu.Unlock()

				return 0, os.ErrDeadlineExceeded
			}
			select {
			case <-b.release:
				b.inWrite--
				b.writes = append(b.writes, c12In{append([]byte{}, p...), dst})
				b.mu.Unlock()

				return len(p), nil
			default:
			}
			if b.closed {
				b.inWrite--
				b.mu.Unlock()

				return 0, net.ErrClosed
			}
			b.mu.Unlock()
			runtime.Gosched()
			time.Sleep(20 * time.Microsecond)
			b.mu.Lock()
		}
	}
	if !b.deadline.IsZero() && !time.Now().Before(b.deadline) {
		b.mu.Unlock()

		return 0, os.ErrDeadlineExceeded
	}
	b.writes = append(b.writes, c12In{append([]byte{}, p...), dst})
	hook := b.onWrite
	b.mu.Unlock()
	if hook != nil {
		hook(append([]byte{}, p...), dst)
	}

	return len(p), nil
}

func (b *c12Base) WriteTo(p []byte, addr net.Addr) (int, error) {
	ua, ok := addr.(*net.UDPAddr)
	if !ok {
		return 0, errors.New("c12Base: not a UDPAddr") //nolint:err113
	}

	return b.writeOne(p, ua.AddrPort())
}

func (b *c12Base) Close() error {
	b.mu.Lock()
	b.closed = true
	b.cond.Broadcast()
	b.mu.Unlock()

	return nil
}
func (b *c12Base) LocalAddr() net.Addr               { return b.local }
func (b *c12Base) SetDeadline(time.Time) error       { return nil }
func (b *c12Base) SetReadDeadline(time.Time) error   { return nil }
func (b *c12Base) SetWriteDeadline(t time.Time) error {
	b.mu.Lock()
	defer b.mu.Unlock()
	b.deadlineCall++
	if b.deadlineErrN != 0 && b.deadlineCall == b.deadlineErrN {
		return errors.New("injected SetWriteDeadline failure") //nolint:err113
	}
	b.deadline = t
	b.deadlineLog = append(b.deadlineLog, t)

	return nil
}

// push hands one inbound datagram to the mux and waits until the worker has dispatched it
// (= it is back in ReadFrom).
func (b *c12Base) push(in c12In) bool {
	b.mu.Lock()
	target := b.readCalls + 1
	b.queue = append(b.queue, in)
	b.cond.Broadcast()
	deadline := time.Now().Add(20 * time.Second)
	for b.readCalls < target && !b.closed {
		b.mu.Unlock()
		if time.Now().After(deadline) {
			return false
		}
		runtime.Gosched()
		b.mu.Lock()
	}
	b.mu.Unlock()

	return true
}

func (b *c12Base) waitReading() {
	deadline := time.Now().Add(20 * time.Second)
	for time.Now().Before(deadline) {
		b.mu.Lock()
		ok := b.readCalls > 0 || b.closed
		b.mu.Unlock()
		if ok {
			return
		}
		runtime.Gosched()
	}
}

// c12BaseAP adds the netip.AddrPort flavour.
type c12BaseAP struct{ *c12Base }

func (b c12BaseAP) ReadFromAddrPort(p []byte) (int, netip.AddrPort, error) { return b.readOne(p) }
func (b c12BaseAP) WriteToAddrPort(p []byte, a netip.AddrPort) (int, error) { return b.writeOne(p, a) }

var c12Sources = func() []netip.AddrPort {
	var out []netip.AddrPort
	for k := 1; k <= 3; k++ {
		out = append(out,
			netip.MustParseAddrPort(fmt.Sprintf("198.51.100.%d:400%d", k, k)),
			netip.MustParseAddrPort(fmt.Sprintf("[::ffff:198.51.100.%d]:400%d", k, k)),
		)
	}
	out = append(out,
		netip.MustParseAddrPort("[2001:db8::1]:4101"), netip.MustParseAddrPort("[2001:db8::2]:4102"),
		netip.MustParseAddrPort("[fe80::1%eth0]:4201"), netip.MustParseAddrPort("[fe80::1%eth1]:4201"),
	)

	return out
}()

func c12Canon(ap netip.AddrPort) netip.AddrPort {
	a := ap.Addr().Unmap()
	if !(a.Is6() && a.IsLinkLocalUnicast()) {
		a = a.WithZone("")
	}

	return netip.AddrPortFrom(a, ap.Port())
}

type c12ModelConn struct {
	ufrag   string
	v6      bool
	handles []net.PacketConn
	open    int
	removed bool // removed from the mux (by RemoveConnByUfrag, last handle closed, or mux closed)
	expect  []c12In
	under   *udpMuxedConn
}

func c12Stun(username string, withUser bool) []byte {
	setters := []stun.Setter{stun.BindingRequest, stun.TransactionID}
	if withUser {
		setters = append(setters, stun.NewUsername(username))
	}
	setters = append(setters, stun.Fingerprint)
	m, err := stun.Build(setters...)
	if err != nil {
		panic(err)
	}

	return m.Raw
}

func TestVerif_C12_UDPMuxModel(t *testing.T) {
	st := vfNewStats(t)
	lf := logging.NewDefaultLoggerFactory()
	lf.DefaultLogLevel = logging.LogLevelDisabled
	rapid.Check(t, func(rt *rapid.T) {
		flavourAP := rapid.Bool().Draw(rt, "addrPortFlavour")
		universal := rapid.IntRange(0, 3).Draw(rt, "universalMux") == 0
		base := newC12Base("0.0.0.0:7000")
		var pc net.PacketConn = base
		if flavourAP {
			pc = c12BaseAP{base}
		}
		var mux *UDPMuxDefault
		var umux *UniversalUDPMuxDefault
		if universal {
			// the universal (srflx) mux wraps the socket and embeds the same UDPMuxDefault: routing must be identical
			umux = NewUniversalUDPMuxDefault(UniversalUDPMuxParams{Logger: lf.NewLogger("verif"), UDPConn: pc, XORMappedAddrCacheTTL: time.Hour})
			mux = umux.UDPMuxDefault
		} else {
			mux = NewUDPMuxDefault(UDPMuxParams{Logger: lf.NewLogger("verif"), UDPConn: pc})
		}
		defer mux.Close() //nolint:errcheck
		base.waitReading()
		// with the universal mux the first source may be a STUN server the mux has already asked for its mapped
		// address; its later responses are ordinary traffic of whoever writes to that address
		knownStunServer := false
		if universal && rapid.Bool().Draw(rt, "firstSourceIsKnownStunServer") {
			srv := c12Sources[0]
			got := make(chan error, 1)
			go func() {
				_, err := umux.GetXORMappedAddr(net.UDPAddrFromAddrPort(srv), 10*time.Second)
				got <- err
			}()
			var reqTx [stun.TransactionIDSize]byte
			for d := time.Now().Add(10 * time.Second); time.Now().Before(d); {
				base.mu.Lock()
				n := len(base.writes)
				if n > 0 {
					m := &stun.Message{Raw: append([]byte{}, base.writes[n-1].data...)}
					if m.Decode() == nil {
						reqTx = m.TransactionID
					}
				}
				base.mu.Unlock()
				if n > 0 {
					break
				}
				time.Sleep(50 * time.Microsecond)
			}
			resp, err := stun.Build(stun.BindingSuccess, stun.NewTransactionIDSetter(reqTx), &stun.XORMappedAddress{IP: net.IPv4(203, 0, 113, 77), Port: 7000}, stun.Fingerprint)
			if err != nil {
				rt.Fatalf("harness: %v", err)
			}
			base.push(c12In{resp.Raw, srv})
			select {
			case err := <-got:
				if err != nil {
					rt.Fatalf("harness: GetXORMappedAddr: %v", err)
				}
			case <-time.After(10 * time.Second):
				rt.Fatalf("harness: GetXORMappedAddr did not return")
			}
			base.mu.Lock()
			base.writes = nil
			base.mu.Unlock()
			knownStunServer = true
		}
		var (
			conns    []*c12ModelConn
			owner    = map[netip.AddrPort]*c12ModelConn{}
			reg      = map[string]*c12ModelConn{} // ufrag|family
			ops      []string
			lbl      = map[string]bool{}
			nextU    = 0
			muxClose = false
		)
		regKey := func(u string, v6 bool) string { return fmt.Sprintf("%s|%v", u, v6) }
		live := func() []*c12ModelConn {
			var out []*c12ModelConn
			for _, c := range conns {
				if c.open > 0 {
					out = append(out, c)
				}
			}

			return out
		}
		unbind := func(c *c12ModelConn) {
			for a, o := range owner {
				if o == c {
					delete(owner, a)
				}
			}
			if reg[regKey(c.ufrag, c.v6)] == c {
				delete(reg, regKey(c.ufrag, c.v6))
			}
			c.removed = true
		}
		waitUnregistered := func(c *c12ModelConn) bool {
			deadline := time.Now().Add(20 * time.Second)
			for time.Now().Before(deadline) {
				mux.mu.Lock()
				cur, ok := mux.getConn(c.ufrag, c.v6)
				mux.mu.Unlock()
				if !ok || cur != c.under {
					return true
				}
				runtime.Gosched()
			}

			return false
		}
		// drainAll reads everything queued on every connection and compares with the model.
		drainAll := func(where string) {
			for _, c := range conns {
				var h net.PacketConn
				for _, x := range c.handles {
					if x != nil {
						h = x
					}
				}
				if h == nil {
					if len(c.expect) != 0 {
						// model bug guard: nothing may be expected for a connection without open handle
						c.expect = nil
					}

					continue
				}
				for {
					_ = h.SetReadDeadline(time.Now().Add(-time.Second))
					buf := make([]byte, 9000)
					var (
						n   int
						src netip.AddrPort
						err error
					)
					if ap, ok := h.(AddrPortReaderWriter); ok && flavourAP {
						n, src, err = ap.ReadFromAddrPort(buf)
					} else {
						var a net.Addr
						n, a, err = h.ReadFrom(buf)
						if ua, ok := a.(*net.UDPAddr); ok && err == nil {
							src = ua.AddrPort()
						}
					}
					if err != nil {
						break
					}
					if len(c.expect) == 0 {
						st.Fail(rt, "C12/deliver/unexpected", "%s: connection %s(v6=%v) received %d bytes from %s that the routing table assigns to nobody or somebody else\nops: %s",
							where, c.ufrag, c.v6, n, src, strings.Join(ops, "; "))

						return
					}
					want := c.expect[0]
					c.expect = c.expect[1:]
					if !bytes.Equal(buf[:n], want.data) {
						st.Fail(rt, "C12/deliver/content-or-order", "%s: connection %s got %d bytes, expected datagram of %d bytes\nops: %s", where, c.ufrag, n, len(want.data), strings.Join(ops, "; "))
					}
					if src != want.src && c12Canon(src) != c12Canon(want.src) {
						st.Fail(rt, "C12/deliver/source-address", "%s: connection %s got source %s, true source %s", where, c.ufrag, src, want.src)
					}
				}
				if len(c.expect) != 0 {
					st.Fail(rt, "C12/deliver/missing", "%s: connection %s(v6=%v removed=%v) did not receive %d datagram(s) the routing table assigns to it (first from %s)\nops: %s",
						where, c.ufrag, c.v6, c.removed, len(c.expect), c.expect[0].src, strings.Join(ops, "; "))
					c.expect = nil
				}
			}
		}
		// a lazy application reads rarely: datagrams pile up unread, also on connections that are then removed
		lazyReads := rapid.IntRange(0, 2).Draw(rt, "lazyReader") == 0
		drainNow := func(where string) {
			if !lazyReads || rapid.IntRange(0, 3).Draw(rt, "readNow") == 0 {
				drainAll(where)
			}
		}
		dropUnread := func(c *c12ModelConn) {
			if len(c.expect) > 0 {
				lbl["removed-with-unread-datagrams"] = true
			}
			c.expect = nil // what was queued on a connection that ends is gone with it
		}
		nOps := rapid.IntRange(1, 60).Draw(rt, "nOps")
		for i := 0; i < nOps; i++ {
			op := rapid.SampledFrom([]string{"getConn", "getConn", "secondHandle", "write", "write", "write", "inbound", "inbound", "inbound", "inbound", "remove", "closeHandle", "muxClose"}).Draw(rt, "op")
			if op == "muxClose" && rapid.IntRange(0, 9).Draw(rt, "reallyClose") != 0 {
				op = "inbound"
			}
			where := fmt.Sprintf("step %d (%s)", i, op)
			switch op {
			case "getConn":
				v6 := rapid.Bool().Draw(rt, "v6")
				u := fmt.Sprintf("u%d", nextU)
				// a brand-new ufrag, the other family of an existing live ufrag, or a ufrag whose connection was
				// removed / closed a moment ago (an agent restarted with the same ufrag)
				switch pick := rapid.IntRange(0, 3).Draw(rt, "ufragChoice"); {
				case pick == 0 && len(live()) > 0:
					l := live()
					c := l[rapid.IntRange(0, len(l)-1).Draw(rt, "which")]
					if reg[regKey(c.ufrag, !c.v6)] != nil || c.removed {
						continue
					}
					u, v6 = c.ufrag, !c.v6
				case pick == 1 && len(conns) > 0:
					c := conns[rapid.IntRange(0, len(conns)-1).Draw(rt, "whichOld")]
					if !c.removed || reg[regKey(c.ufrag, c.v6)] != nil {
						continue
					}
					u, v6 = c.ufrag, c.v6
					lbl["ufrag-reused-after-removal"] = true
				default:
					nextU++
				}
				addr := &net.UDPAddr{IP: net.IPv4(10, 0, 0, 1), Port: 7000}
				if v6 {
					addr = &net.UDPAddr{IP: net.ParseIP("2001:db8::100"), Port: 7000}
				}
				h, err := mux.GetConn(u, addr)
				if muxClose {
					if err == nil {
						st.Fail(rt, "C12/closed/getconn-accepted", "%s: GetConn succeeded on a closed mux", where)
					}

					continue
				}
				if err != nil {
					st.Fail(rt, "C12/getconn/error", "%s: %v", where, err)
				}
				mux.mu.Lock()
				under, _ := mux.getConn(u, v6)
				mux.mu.Unlock()
				c := &c12ModelConn{ufrag: u, v6: v6, handles: []net.PacketConn{h}, open: 1, under: under}
				conns = append(conns, c)
				reg[regKey(u, v6)] = c
				ops = append(ops, fmt.Sprintf("getConn(%s,v6=%v)", u, v6))
			case "secondHandle":
				l := live()
				if len(l) == 0 || muxClose {
					continue
				}
				c := l[rapid.IntRange(0, len(l)-1).Draw(rt, "which")]
				if c.removed {
					continue
				}
				addr := &net.UDPAddr{IP: net.IPv4(10, 0, 0, 1), Port: 7000}
				if c.v6 {
					addr = &net.UDPAddr{IP: net.ParseIP("2001:db8::100"), Port: 7000}
				}
				h, err := mux.GetConn(c.ufrag, addr)
				if err != nil {
					st.Fail(rt, "C12/getconn/error", "%s: %v", where, err)
				}
				c.handles = append(c.handles, h)
				c.open++
				lbl["second-handle"] = true
				ops = append(ops, fmt.Sprintf("secondHandle(%s,v6=%v)", c.ufrag, c.v6))
			case "write":
				l := live()
				if len(l) == 0 {
					continue
				}
				c := l[rapid.IntRange(0, len(l)-1).Draw(rt, "which")]
				var h net.PacketConn
				for _, x := range c.handles {
					if x != nil {
						h = x
					}
				}
				dst := c12Sources[rapid.IntRange(0, len(c12Sources)-1).Draw(rt, "dst")]
				var err error
				if ap, ok := h.(AddrPortReaderWriter); ok && rapid.Bool().Draw(rt, "viaAddrPort") {
					_, err = ap.WriteToAddrPort([]byte("out"), dst)
				} else {
					_, err = h.WriteTo([]byte("out"), &net.UDPAddr{IP: dst.Addr().AsSlice(), Port: int(dst.Port()), Zone: dst.Addr().Zone()})
				}
				ops = append(ops, fmt.Sprintf("write(%s,v6=%v→%s removed=%v)=%v", c.ufrag, c.v6, dst, c.removed, err))
				if muxClose {
					continue
				}
				if c.removed {
					// a removed connection must not (re)acquire address bindings
					lbl["write-on-removed-connection"] = true

					continue
				}
				if err != nil {
					st.Fail(rt, "C12/write/error", "%s: %v", where, err)

					continue
				}
				canon := c12Canon(dst)
				if prev := owner[canon]; prev != nil && prev != c {
					lbl["address-takeover"] = true
				}
				if dst.Addr().Is4In6() {
					lbl["v4-mapped-alias"] = true
				}
				owner[canon] = c
			case "inbound":
				src := c12Sources[rapid.IntRange(0, len(c12Sources)-1).Draw(rt, "src")]
				kind := rapid.SampledFrom([]string{"stun-registered", "stun-registered", "stun-unregistered", "stun-empty-ufrag", "stun-nousername", "stun-garbage", "data", "data", "stun-success-xor-mapped", "data-oversize"}).Draw(rt, "kind")
				var data []byte
				ufrag := ""
				switch kind {
				case "stun-registered":
					if len(conns) == 0 {
						continue
					}
					ufrag = conns[rapid.IntRange(0, len(conns)-1).Draw(rt, "whichU")].ufrag
					data = c12Stun(ufrag+":remote", true)
				case "stun-unregistered":
					ufrag = "nobody"
					data = c12Stun("nobody:remote", true)
				case "stun-empty-ufrag":
					data = c12Stun(":remote", true)
				case "stun-success-xor-mapped":
					// a Binding success response (no USERNAME, valid XOR-MAPPED-ADDRESS): what the peer answers to a check
					m, err := stun.Build(stun.BindingSuccess, stun.TransactionID, &stun.XORMappedAddress{IP: net.IPv4(203, 0, 113, 78), Port: 7001}, stun.Fingerprint)
					if err != nil {
						rt.Fatalf("harness: %v", err)
					}
					data = m.Raw
					if knownStunServer && c12Canon(src) == c12Canon(c12Sources[0]) {
						lbl["success-response-from-known-stun-server"] = true
					}
				case "stun-nousername":
					data = c12Stun("", false)
				case "stun-garbage":
					data = c12Stun("x:y", true)
					data = data[:len(data)-3] // length field no longer matches: undecodable but STUN-looking
				case "data":
					data = append([]byte{0x80, byte(i)}, []byte("application-data")...)
				case "data-oversize":
					// longer than the mux passes on (8192): "byte-identical" or dropped, never cut off
					data = make([]byte, rapid.SampledFrom([]int{8193, 8194, 9000, 12000}).Draw(rt, "oversize"))
					data[0] = 0x80
					for k := 1; k < len(data); k++ {
						data[k] = byte(k)
					}
					lbl["oversized-datagram"] = true
				}
				canon := c12Canon(src)
				var want *c12ModelConn
				if o := owner[canon]; o != nil {
					want = o
				} else if kind == "stun-registered" || kind == "stun-unregistered" || kind == "stun-empty-ufrag" {
					want = reg[regKey(ufrag, canon.Addr().Is6())]
				}
				if muxClose {
					want = nil
				}
				if want != nil && want.open > 0 && kind != "data-oversize" {
					want.expect = append(want.expect, c12In{data, src})
				}
				if want != nil && owner[canon] == nil {
					lbl["routed-by-ufrag"] = true
				}
				if !muxClose {
					if !base.push(c12In{data, src}) {
						st.Inconclusive()
						rt.Fatalf("VERIF-INCONCLUSIVE: mux worker did not return to ReadFrom within 20 s")
					}
				}
				w := "nobody"
				if want != nil {
					w = fmt.Sprintf("%s(v6=%v)", want.ufrag, want.v6)
				}
				ops = append(ops, fmt.Sprintf("inbound(%s from %s → %s)", kind, src, w))
			case "remove":
				l := live()
				if len(l) == 0 {
					continue
				}
				c := l[rapid.IntRange(0, len(l)-1).Draw(rt, "which")]
				drainNow(where + " (before)")
				mux.RemoveConnByUfrag(c.ufrag)
				for _, x := range conns {
					if x.ufrag == c.ufrag && !x.removed {
						unbind(x)
						dropUnread(x)
					}
				}
				lbl["remove-by-ufrag"] = true
				ops = append(ops, fmt.Sprintf("remove(%s)", c.ufrag))
			case "closeHandle":
				l := live()
				if len(l) == 0 {
					continue
				}
				c := l[rapid.IntRange(0, len(l)-1).Draw(rt, "which")]
				drainNow(where + " (before)")
				for k, x := range c.handles {
					if x != nil {
						_ = x.Close()
						if rapid.Bool().Draw(rt, "closeTwice") {
							_ = x.Close()
						}
						c.handles[k] = nil
						c.open--

						break
					}
				}
				if c.open == 0 {
					if !c.removed && !muxClose && !waitUnregistered(c) {
						st.Fail(rt, "C12/close/not-unregistered", "%s: connection %s still registered after its last handle was closed", where, c.ufrag)
					}
					// closing the last handle ends that connection only: the other family's connection of the same
					// ufrag keeps its own handles and stays registered
					unbind(c)
					dropUnread(c)
					for _, x := range conns {
						if x.ufrag == c.ufrag && x != c && !x.removed {
							lbl["close-last-handle-with-live-sibling-family"] = true
						}
					}
					lbl["close-last-handle"] = true
				}
				ops = append(ops, fmt.Sprintf("closeHandle(%s,v6=%v left=%d)", c.ufrag, c.v6, c.open))
			case "muxClose":
				drainNow(where + " (before)")
				_ = mux.Close()
				muxClose = true
				for _, x := range conns {
					unbind(x)
					dropUnread(x)
				}
				ops = append(ops, "muxClose")
			}
			drainNow(where)
			// address bindings of removed/closed connections must be gone. The mux's close watcher removes them
			// asynchronously (registration first, bindings second), so this is a bounded wait, not a snapshot.
			// (Also after mux.Close: the watchers of the connections it closed forget their bindings.)
			{
				stale := func() (netip.AddrPort, *c12ModelConn) {
					mux.addressMapMu.Lock()
					defer mux.addressMapMu.Unlock()
					for a, mc := range mux.addressMap {
						for _, x := range conns {
							if x.under == mc && x.removed {
								return a, x
							}
						}
					}

					return netip.AddrPort{}, nil
				}
				deadline := time.Now().Add(20 * time.Second)
				for {
					a, x := stale()
					if x == nil {
						break
					}
					if time.Now().After(deadline) {
						st.Fail(rt, "C12/bindings/stale-after-removal", "%s: address %s is still bound to removed connection %s(v6=%v)\nops: %s", where, a, x.ufrag, x.v6, strings.Join(ops, "; "))

						break
					}
					runtime.Gosched()
				}
			}
		}
		drainAll("end of the history")
		var labels []string
		for l := range lbl {
			labels = append(labels, l)
		}
		nontrivial := lbl["address-takeover"] || (lbl["remove-by-ufrag"] || lbl["close-last-handle"]) || lbl["v4-mapped-alias"]
		desc := fmt.Sprintf("addrPort=%v universal=%v lazyReader=%v %s", flavourAP, universal, lazyReads, strings.Join(ops, "; "))
		st.Record(vfHashStr(desc), nontrivial, labels...)
		if nontrivial && st.WantSample() {
			st.Sample(func() string { return desc })
		}
	})
}

// Concurrent mode: writers, inbound traffic, removals and closes in parallel (race detector on);
// order-insensitive oracle.
func TestVerif_C12_Concurrent(t *testing.T) {
	st := vfNewStats(t)
	lf := logging.NewDefaultLoggerFactory()
	lf.DefaultLogLevel = logging.LogLevelDisabled
	rapid.Check(t, func(rt *rapid.T) {
		nConns := rapid.IntRange(2, 4).Draw(rt, "conns")
		nIn := rapid.IntRange(5, 40).Draw(rt, "inbound")
		type wr struct{ Conn, Dst, Delay int }
		type ev struct {
			Kind  string
			Conn  int
			Delay int
		}
		writes := make([]wr, rapid.IntRange(1, 20).Draw(rt, "nWrites"))
		for i := range writes {
			writes[i] = wr{rapid.IntRange(0, nConns-1).Draw(rt, "wc"), rapid.IntRange(0, len(c12Sources)-1).Draw(rt, "wd"), rapid.IntRange(0, 15).Draw(rt, "wdelay")}
		}
		evs := make([]ev, rapid.IntRange(0, 3).Draw(rt, "nEvents"))
		for i := range evs {
			evs[i] = ev{rapid.SampledFrom([]string{"remove", "close"}).Draw(rt, "ek"), rapid.IntRange(0, nConns-1).Draw(rt, "ec"), rapid.IntRange(0, 60).Draw(rt, "edelay")}
		}
		type in struct {
			Src   int
			Ufrag int // -1 = non-STUN data
		}
		ins := make([]in, nIn)
		for i := range ins {
			ins[i] = in{rapid.IntRange(0, len(c12Sources)-1).Draw(rt, "isrc"), rapid.IntRange(-1, nConns-1).Draw(rt, "iu")}
		}
		desc := fmt.Sprintf("conns=%d writes=%v events=%v inbound=%v", nConns, writes, evs, ins)
		base := newC12Base("0.0.0.0:7000")
		mux := NewUDPMuxDefault(UDPMuxParams{Logger: lf.NewLogger("verif"), UDPConn: c12BaseAP{base}})
		defer mux.Close() //nolint:errcheck
		base.waitReading()
		handles := make([]net.PacketConn, nConns)
		wrote := make([]map[netip.AddrPort]bool, nConns) // canonical destinations each conn ever wrote to
		var wmu sync.Mutex
		for i := range handles {
			h, err := mux.GetConn(fmt.Sprintf("cu%d", i), &net.UDPAddr{IP: net.IPv4(10, 0, 0, 1), Port: 7000})
			if err != nil {
				rt.Fatalf("harness: %v", err)
			}
			handles[i] = h
			wrote[i] = map[netip.AddrPort]bool{}
		}
		type got struct {
			conn int
			data []byte
		}
		var (
			gmu  sync.Mutex
			gots []got
			wg   sync.WaitGroup
			rwg  sync.WaitGroup
		)
		for i := range handles {
			rwg.Add(1)
			go func(i int) {
				defer rwg.Done()
				buf := make([]byte, 2000)
				for {
					n, _, err := handles[i].ReadFrom(buf)
					if err != nil {
						return
					}
					gmu.Lock()
					gots = append(gots, got{i, append([]byte{}, buf[:n]...)})
					gmu.Unlock()
				}
			}(i)
		}
		for _, w := range writes {
			wg.Add(1)
			go func(w wr) {
				defer wg.Done()
				c11Jitter(w.Delay)
				dst := c12Sources[w.Dst]
				wmu.Lock()
				wrote[w.Conn][c12Canon(dst)] = true
				wmu.Unlock()
				_, _ = handles[w.Conn].WriteTo([]byte("out"), &net.UDPAddr{IP: dst.Addr().AsSlice(), Port: int(dst.Port()), Zone: dst.Addr().Zone()})
			}(w)
		}
		for _, e := range evs {
			wg.Add(1)
			go func(e ev) {
				defer wg.Done()
				c11Jitter(e.Delay)
				if e.Kind == "remove" {
					mux.RemoveConnByUfrag(fmt.Sprintf("cu%d", e.Conn))
				} else {
					_ = handles[e.Conn].Close()
				}
			}(e)
		}
		wg.Add(1)
		go func() {
			defer wg.Done()
			for k, x := range ins {
				var data []byte
				if x.Ufrag >= 0 {
					data = c12Stun(fmt.Sprintf("cu%d:r%04d", x.Ufrag, k), true)
				} else {
					data = []byte(fmt.Sprintf("\x80data-%04d", k))
				}
				if !base.push(c12In{data, c12Sources[x.Src]}) {
					return
				}
			}
		}()
		done := make(chan struct{})
		go func() { wg.Wait(); close(done) }()
		select {
		case <-done:
		case <-time.After(30 * time.Second):
			st.Inconclusive()
			rt.Fatalf("VERIF-INCONCLUSIVE: concurrent program still running after 30 s")
		}
		_ = mux.Close()
		for _, h := range handles {
			_ = h.Close()
		}
		rwg.Wait()
		// oracle
		gmu.Lock()
		defer gmu.Unlock()
		seen := map[string]int{}
		for _, g := range gots {
			seen[string(g.data)]++
		}
		expected := map[string]in{}
		for k, x := range ins {
			if x.Ufrag >= 0 {
				expected[string(c12StunKey(fmt.Sprintf("cu%d:r%04d", x.Ufrag, k)))] = x
			} else {
				expected[fmt.Sprintf("\x80data-%04d", k)] = x
			}
		}
		for _, g := range gots {
			key := string(g.data)
			if stun.IsMessage(g.data) {
				key = string(c12StunKey(c12Username(g.data)))
			}
			x, ok := expected[key]
			if !ok {
				st.Fail(rt, "C12/concurrent/fabricated-or-modified", "connection cu%d received %d bytes that were never sent\n%s", g.conn, len(g.data), desc)

				continue
			}
			if seen[string(g.data)] > 1 {
				st.Fail(rt, "C12/concurrent/delivered-twice", "a datagram was delivered %d times\n%s", seen[string(g.data)], desc)
			}
			src := c12Canon(c12Sources[x.Src])
			wmu.Lock()
			byAddr := wrote[g.conn][src]
			wmu.Unlock()
			byUfrag := x.Ufrag == g.conn
			if !byAddr && !byUfrag {
				st.Fail(rt, "C12/concurrent/foreign-traffic", "connection cu%d received a datagram from %s (username ufrag cu%d) although it never wrote to that address\n%s", g.conn, src, x.Ufrag, desc)
			}
		}
		st.Record(vfHashStr(desc), len(evs) > 0 && len(writes) >= 2, fmt.Sprintf("events:%d", len(evs)))
		if len(evs) > 0 && st.WantSample() {
			st.Sample(func() string { return desc })
		}
	})
}

func c12Username(raw []byte) string {
	m := &stun.Message{Raw: append([]byte{}, raw...)}
	if m.Decode() != nil {
		return ""
	}
	var u stun.Username
	if u.GetFrom(m) != nil {
		return ""
	}

	return u.String()
}

func c12StunKey(username string) []byte { return []byte("stun:" + username) }

// MultiUDPMuxDefault: a connection is obtained from (and only receives traffic of) the mux that listens on
// the requested address.
func TestVerif_C12_MultiMux(t *testing.T) {
	st := vfNewStats(t)
	lf := logging.NewDefaultLoggerFactory()
	lf.DefaultLogLevel = logging.LogLevelDisabled
	rapid.Check(t, func(rt *rapid.T) {
		n := rapid.IntRange(2, 3).Draw(rt, "muxes")
		bases := make([]*c12Base, n)
		muxes := make([]UDPMux, n)
		for i := range bases {
			bases[i] = newC12Base(fmt.Sprintf("10.0.%d.1:7000", i))
			muxes[i] = NewUDPMuxDefault(UDPMuxParams{Logger: lf.NewLogger("verif"), UDPConn: bases[i]})
			bases[i].waitReading()
		}
		multi := NewMultiUDPMuxDefault(muxes...)
		defer multi.Close() //nolint:errcheck
		if got := len(multi.GetListenAddresses()); got != n {
			st.Fail(rt, "C12/multi/listen-addresses", "%d listen addresses for %d muxes", got, n)
		}
		type hk struct {
			u string
			k int
		}
		handles := map[hk]net.PacketConn{}
		removed := map[string]bool{}
		var ops []string
		nOps := rapid.IntRange(1, 30).Draw(rt, "nOps")
		for i := 0; i < nOps; i++ {
			op := rapid.SampledFrom([]string{"getConn", "getConn", "inbound", "inbound", "inbound", "remove", "badAddr"}).Draw(rt, "op")
			u := fmt.Sprintf("m%d", rapid.IntRange(0, 2).Draw(rt, "ufrag"))
			k := rapid.IntRange(0, n-1).Draw(rt, "mux")
			switch op {
			case "getConn":
				if removed[u] || handles[hk{u, k}] != nil {
					continue
				}
				h, err := multi.GetConn(u, bases[k].local)
				if err != nil {
					st.Fail(rt, "C12/multi/getconn", "GetConn(%s, %s): %v", u, bases[k].local, err)

					continue
				}
				handles[hk{u, k}] = h
				ops = append(ops, fmt.Sprintf("getConn(%s,mux%d)", u, k))
			case "badAddr":
				if _, err := multi.GetConn(u, &net.UDPAddr{IP: net.IPv4(10, 9, 9, 9), Port: 7000}); err == nil {
					st.Fail(rt, "C12/multi/unknown-address-accepted", "GetConn for an address no mux listens on succeeded")
				}
			case "remove":
				multi.RemoveConnByUfrag(u)
				removed[u] = true
				ops = append(ops, "remove("+u+")")
			case "inbound":
				data := c12Stun(fmt.Sprintf("%s:r%d", u, i), true)
				src := c12Sources[rapid.IntRange(0, 2).Draw(rt, "src")*2]
				if !bases[k].push(c12In{data, src}) {
					st.Inconclusive()
					rt.Fatalf("VERIF-INCONCLUSIVE: mux worker stuck")
				}
				ops = append(ops, fmt.Sprintf("inbound(%s on mux%d)", u, k))
				for key, h := range handles {
					_ = h.SetReadDeadline(time.Now().Add(-time.Second))
					buf := make([]byte, 2000)
					nn, _, err := h.ReadFrom(buf)
					shouldGet := key.u == u && key.k == k && !removed[u]
					switch {
					case err == nil && !shouldGet:
						st.Fail(rt, "C12/multi/misrouted", "connection (%s,mux%d) received a datagram for %s that arrived on mux%d\nops: %s", key.u, key.k, u, k, strings.Join(ops, "; "))
					case err != nil && shouldGet:
						st.Fail(rt, "C12/multi/missing", "connection (%s,mux%d) did not receive its datagram: %v\nops: %s", key.u, key.k, err, strings.Join(ops, "; "))
					case err == nil && !bytes.Equal(buf[:nn], data):
						st.Fail(rt, "C12/multi/content", "content differs")
					}
				}
			}
		}
		desc := fmt.Sprintf("muxes=%d %s", n, strings.Join(ops, "; "))
		st.Record(vfHashStr(desc), len(handles) >= 2)
		if len(handles) >= 2 && st.WantSample() {
			st.Sample(func() string { return desc })
		}
	})
}
