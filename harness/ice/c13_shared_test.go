//go:build verif

package ice

// C13 — users of a shared mux cannot disturb each other:
// (a) reference counting of handles, (b) the write-abort protocol on the shared UDP socket.

import (
	"context"
	"errors"
	"fmt"
	"io"
	"net"
	"net/netip"
	"os"
	"runtime"
	"strings"
	"sync"
	"sync/atomic"
	"testing"
	"time"

	"github.com/pion/logging"
	"github.com/pion/stun/v3"
	"pgregory.net/rapid"
)

// c13Under is a counted muxedPacketConn.
type c13Under struct {
	mu      sync.Mutex
	queue   chan []byte
	closes  atomic.Int32
	closed  chan struct{}
	once    sync.Once
	writes  atomic.Int32
	pending atomic.Int32
}

func newC13Under() *c13Under {
	return &c13Under{queue: make(chan []byte, 64), closed: make(chan struct{})}
}

func (u *c13Under) readFromContext(ctx context.Context, b []byte) (int, net.Addr, error) {
	// queued packets first (like the real muxed conns)
	select {
	case p := <-u.queue:
		return copy(b, p), &net.UDPAddr{IP: net.IPv4(192, 0, 2, 1), Port: 9}, nil
	default:
	}
	u.pending.Add(1)
	defer u.pending.Add(-1)
	select {
	case p := <-u.queue:
		return copy(b, p), &net.UDPAddr{IP: net.IPv4(192, 0, 2, 1), Port: 9}, nil
	case <-ctx.Done():
		return 0, nil, ctx.Err()
	case <-u.closed:
		return 0, nil, io.EOF
	}
}

func (u *c13Under) ReadFrom(b []byte) (int, net.Addr, error) {
	return u.readFromContext(context.Background(), b)
}

func (u *c13Under) WriteTo(b []byte, _ net.Addr) (int, error) {
	select {
	case <-u.closed:
		return 0, io.ErrClosedPipe
	default:
	}
	u.writes.Add(1)

	return len(b), nil
}

func (u *c13Under) Close() error {
	u.closes.Add(1)
	u.once.Do(func() { close(u.closed) })

	return nil
}
func (u *c13Under) LocalAddr() net.Addr              { return &net.UDPAddr{IP: net.IPv4(10, 0, 0, 1), Port: 1} }
func (u *c13Under) SetDeadline(time.Time) error      { return nil }
func (u *c13Under) SetReadDeadline(time.Time) error  { return nil }
func (u *c13Under) SetWriteDeadline(time.Time) error { return nil }

type c13ReadResult struct {
	n   int
	err error
	buf []byte
}

func TestVerif_C13_RefCount(t *testing.T) {
	st := vfNewStats(t)
	rapid.Check(t, func(rt *rapid.T) {
		nH := rapid.IntRange(2, 5).Draw(rt, "handles")
		u := newC13Under()
		var refs atomic.Int32
		handles := make([]*sharedPacketConn, nH)
		open := make([]bool, nH)
		reading := make([]chan c13ReadResult, nH)
		for i := range handles {
			handles[i] = newSharedPacketConn(u, &refs)
			open[i] = true
		}
		var ops []string
		lbl := map[string]bool{}
		nextPkt := 0
		queued := 0
		nOpen := func() int {
			n := 0
			for _, o := range open {
				if o {
					n++
				}
			}

			return n
		}
		waitRes := func(ch chan c13ReadResult, what string) (c13ReadResult, bool) {
			select {
			case r := <-ch:
				return r, true
			case <-time.After(20 * time.Second):
				dead, dump := vfStuck("sharedPacketConn")
				if dead {
					st.Fail(rt, "C13/refcount/read-never-returns", "%s: pending read did not return (goroutines blocked)\nops: %s\n%s", what, strings.Join(ops, "; "), dump)
				}
				st.Inconclusive()
				rt.Fatalf("VERIF-INCONCLUSIVE: %s: read result not available after 20 s", what)

				return c13ReadResult{}, false
			}
		}
		checkCloses := func(where string) {
			want := int32(0)
			if nOpen() == 0 {
				want = 1
			}
			if got := u.closes.Load(); got != want {
				sig := "C13/refcount/underlying-closed-early"
				if got > 1 {
					sig = "C13/refcount/underlying-closed-twice"
				} else if got < want {
					sig = "C13/refcount/underlying-not-closed"
				}
				st.Fail(rt, sig, "%s: underlying Close called %d time(s) with %d handle(s) open\nops: %s", where, got, nOpen(), strings.Join(ops, "; "))
			}
		}
		nOps := rapid.IntRange(1, 40).Draw(rt, "nOps")
		for i := 0; i < nOps; i++ {
			op := rapid.SampledFrom([]string{"startRead", "startRead", "push", "push", "readDeadline", "write", "write", "close", "close", "closeConcurrently"}).Draw(rt, "op")
			h := rapid.IntRange(0, nH-1).Draw(rt, "h")
			where := fmt.Sprintf("step %d (%s h%d)", i, op, h)
			switch op {
			case "startRead":
				if reading[h] != nil || nOpen() == 0 {
					continue
				}
				if !open[h] {
					_, _, err := handles[h].ReadFrom(make([]byte, 64))
					if !errors.Is(err, io.ErrClosedPipe) {
						st.Fail(rt, "C13/refcount/closed-handle-reads", "%s: read on a closed handle returned %v", where, err)
					}

					continue
				}
				if queued > 0 {
					continue // would return at once; covered by readDeadline
				}
				ch := make(chan c13ReadResult, 1)
				reading[h] = ch
				before := u.pending.Load()
				go func(hh *sharedPacketConn) {
					buf := make([]byte, 64)
					n, _, err := hh.ReadFrom(buf)
					ch <- c13ReadResult{n, err, buf[:max(n, 0)]}
				}(handles[h])
				// wait until the reader is parked in the underlying conn (state barrier)
				for d := time.Now().Add(20 * time.Second); u.pending.Load() <= before && len(ch) == 0 && time.Now().Before(d); {
					runtime.Gosched()
				}
				ops = append(ops, fmt.Sprintf("startRead(h%d)", h))
			case "push":
				if nOpen() == 0 {
					continue
				}
				nextPkt++
				pkt := []byte(fmt.Sprintf("pkt-%d", nextPkt))
				var waiting []int
				for k, ch := range reading {
					if ch != nil {
						waiting = append(waiting, k)
					}
				}
				u.queue <- pkt
				ops = append(ops, fmt.Sprintf("push(%s)", pkt))
				if len(waiting) == 0 {
					queued++

					continue
				}
				// exactly one of the parked readers gets it
				got := -1
				deadline := time.Now().Add(20 * time.Second)
				for got < 0 && time.Now().Before(deadline) {
					for _, k := range waiting {
						select {
						case r := <-reading[k]:
							if r.err != nil || string(r.buf) != string(pkt) {
								st.Fail(rt, "C13/refcount/sibling-read-failed", "%s: reader on open handle h%d got %q, %v; want %q\nops: %s", where, k, r.buf, r.err, pkt, strings.Join(ops, "; "))
							}
							reading[k] = nil
							got = k
						default:
						}
						if got >= 0 {
							break
						}
					}
					runtime.Gosched()
				}
				if got < 0 {
					st.Inconclusive()
					rt.Fatalf("VERIF-INCONCLUSIVE: no parked reader picked the packet up within 20 s")
				}
				lbl["read-by-parked-reader"] = true
			case "readDeadline":
				if reading[h] != nil {
					continue
				}
				err := handles[h].SetReadDeadline(time.Now().Add(-time.Second))
				if !open[h] {
					if !errors.Is(err, io.ErrClosedPipe) {
						st.Fail(rt, "C13/refcount/closed-handle-usable", "%s: SetReadDeadline on a closed handle returned %v", where, err)
					}

					continue
				}
				buf := make([]byte, 64)
				n, _, rerr := handles[h].ReadFrom(buf)
				if queued > 0 {
					if rerr != nil || !strings.HasPrefix(string(buf[:n]), "pkt-") {
						st.Fail(rt, "C13/refcount/sibling-read-failed", "%s: %d packet(s) queued but read gave %q, %v", where, queued, buf[:max(n, 0)], rerr)
					}
					queued--
				} else if !errors.Is(rerr, os.ErrDeadlineExceeded) {
					st.Fail(rt, "C13/refcount/deadline", "%s: empty queue and expired deadline: read gave %d, %v", where, n, rerr)
				}
				_ = handles[h].SetReadDeadline(time.Time{})
				ops = append(ops, fmt.Sprintf("readDeadline(h%d)", h))
			case "write":
				before := u.writes.Load()
				_, err := handles[h].WriteTo([]byte("x"), &net.UDPAddr{IP: net.IPv4(192, 0, 2, 1), Port: 9})
				if open[h] {
					if err != nil || u.writes.Load() != before+1 {
						st.Fail(rt, "C13/refcount/sibling-write-failed", "%s: write on an open handle: %v (siblings closed: %d)\nops: %s", where, err, nH-nOpen(), strings.Join(ops, "; "))
					}
				} else if !errors.Is(err, io.ErrClosedPipe) || u.writes.Load() != before {
					st.Fail(rt, "C13/refcount/closed-handle-writes", "%s: write on a closed handle returned %v", where, err)
				}
				ops = append(ops, fmt.Sprintf("write(h%d open=%v)", h, open[h]))
			case "close", "closeConcurrently":
				wasOpen := open[h]
				if reading[h] != nil {
					lbl["close-while-own-read-pending"] = true
				}
				for k, ch := range reading {
					if ch != nil && k != h {
						lbl["close-while-sibling-blocked-in-read"] = true
					}
				}
				if op == "closeConcurrently" {
					var wg sync.WaitGroup
					for g := 0; g < 3; g++ {
						wg.Add(1)
						go func() { defer wg.Done(); _ = handles[h].Close() }()
					}
					wg.Wait()
				} else {
					_ = handles[h].Close()
					if rapid.Bool().Draw(rt, "again") {
						_ = handles[h].Close()
					}
				}
				open[h] = false
				ops = append(ops, fmt.Sprintf("%s(h%d wasOpen=%v)", op, h, wasOpen))
				if reading[h] != nil {
					r, _ := waitRes(reading[h], where)
					reading[h] = nil
					// "fails that handle's pending I/O": any error will do — when the last handle goes, the read may see
					// the end of the underlying connection (io.EOF) before it sees its own cancellation (io.ErrClosedPipe)
					if r.err == nil || (!errors.Is(r.err, io.ErrClosedPipe) && nOpen() > 0) {
						st.Fail(rt, "C13/refcount/pending-read-on-closed-handle", "%s: pending read of the closed handle returned %d, %v (want an error; io.ErrClosedPipe while siblings are open)", where, r.n, r.err)
					}
				}
				if nOpen() == 0 {
					// the underlying conn is gone; parked readers of nobody exist
					queued = 0
				}
			}
			checkCloses(where)
			// siblings' parked readers must still be parked (not failed) while their handle is open
			for k, ch := range reading {
				if ch == nil || !open[k] {
					continue
				}
				select {
				case r := <-ch:
					st.Fail(rt, "C13/refcount/sibling-read-disturbed", "%s: parked reader on open handle h%d returned %d, %v although nothing was pushed\nops: %s", where, k, r.n, r.err, strings.Join(ops, "; "))
				default:
				}
			}
		}
		for k := range handles {
			_ = handles[k].Close()
			open[k] = false
		}
		checkCloses("end")
		var labels []string
		for l := range lbl {
			labels = append(labels, l)
		}
		desc := fmt.Sprintf("handles=%d %s", nH, strings.Join(ops, "; "))
		st.Record(vfHashStr(desc), lbl["close-while-sibling-blocked-in-read"], labels...)
		if lbl["close-while-sibling-blocked-in-read"] && st.WantSample() {
			st.Sample(func() string { return desc })
		}
	})
}

// vfStuck: stable-blocked rule (two dumps one second apart) for goroutines with a frame matching pat.
func vfStuck(pat string) (bool, string) {
	take := func() (bool, string) {
		buf := make([]byte, 4<<20)
		n := runtime.Stack(buf, true)
		text := string(buf[:n])
		all := true
		for _, g := range strings.Split(text, "\n\n") {
			if !strings.Contains(g, pat) || strings.Contains(g, "vfStuck") {
				continue
			}
			first := strings.SplitN(g, "\n", 2)[0]
			blocked := false
			for _, s := range []string{"chan receive", "chan send", "select", "Mutex.Lock", "Cond.Wait", "semacquire", "WaitGroup.Wait", "IO wait"} {
				if strings.Contains(first, s) {
					blocked = true
				}
			}
			if !blocked {
				all = false
			}
		}

		return all, text
	}
	a, _ := take()
	time.Sleep(time.Second)
	b, d := take()

	return a && b, d
}

// Reference counting through the real muxes.
func TestVerif_C13_RefCountThroughMux(t *testing.T) {
	st := vfNewStats(t)
	lf := logging.NewDefaultLoggerFactory()
	lf.DefaultLogLevel = logging.LogLevelDisabled
	rapid.Check(t, func(rt *rapid.T) {
		n := rapid.IntRange(2, 5).Draw(rt, "handles")
		order := rapid.Permutation([]int{0, 1, 2, 3, 4}[:n]).Draw(rt, "closeOrder")
		base := newC12Base("10.0.0.1:7000")
		mux := NewUDPMuxDefault(UDPMuxParams{Logger: lf.NewLogger("verif"), UDPConn: base})
		defer mux.Close() //nolint:errcheck
		var hs []net.PacketConn
		for i := 0; i < n; i++ {
			h, err := mux.GetConn("ufragX", base.local)
			if err != nil {
				rt.Fatalf("harness: %v", err)
			}
			hs = append(hs, h)
		}
		mux.mu.Lock()
		under, _ := mux.getConn("ufragX", false)
		mux.mu.Unlock()
		for k, idx := range order {
			_ = hs[idx].Close()
			if rapid.Bool().Draw(rt, "twice") {
				_ = hs[idx].Close()
			}
			closed := under.isClosed()
			if k < n-1 {
				if closed {
					st.Fail(rt, "C13/refcount/underlying-closed-early", "udp mux: underlying connection closed after %d of %d handles were closed", k+1, n)
				}
				// siblings still usable
				for _, j := range order[k+1:] {
					if _, err := hs[j].WriteTo([]byte("x"), &net.UDPAddr{IP: net.IPv4(198, 51, 100, 1), Port: 4000}); err != nil {
						st.Fail(rt, "C13/refcount/sibling-write-failed", "udp mux: sibling handle write failed after another handle closed: %v", err)
					}
				}
				if _, err := hs[idx].WriteTo([]byte("x"), &net.UDPAddr{IP: net.IPv4(198, 51, 100, 1), Port: 4000}); !errors.Is(err, io.ErrClosedPipe) {
					st.Fail(rt, "C13/refcount/closed-handle-writes", "udp mux: write on a closed handle returned %v", err)
				}
			} else if !closed {
				st.Fail(rt, "C13/refcount/underlying-not-closed", "udp mux: underlying connection still open after the last handle was closed")
			}
		}
		// the ufrag is used again at once (an agent restarted with the same ufrag): the fresh connection is live
		// and the watcher of the closed one leaves it alone
		fresh, err := mux.GetConn("ufragX", base.local)
		if err != nil {
			st.Fail(rt, "C13/refcount/reuse-after-last-close", "udp mux: GetConn right after the last handle was closed: %v", err)
		} else {
			c11Jitter(rapid.IntRange(0, 40).Draw(rt, "jitterAfterReuse"))
			if _, err := fresh.WriteTo([]byte("x"), &net.UDPAddr{IP: net.IPv4(198, 51, 100, 1), Port: 4000}); err != nil {
				st.Fail(rt, "C13/refcount/reuse-after-last-close", "udp mux: the connection handed out right after the previous one of the same ufrag was closed is unusable: %v", err)
			}
			_ = fresh.Close()
		}
		st.Record(vfHash(n, order), true, "udp-mux")
		if st.WantSample() {
			st.Sample(func() string { return fmt.Sprintf("udp mux: %d handles, close order %v", n, order) })
		}
	})
}

// Reference counting through the TCP mux.
func TestVerif_C13_RefCountThroughTCPMux(t *testing.T) {
	st := vfNewStats(t)
	lf := logging.NewDefaultLoggerFactory()
	lf.DefaultLogLevel = logging.LogLevelDisabled
	rapid.Check(t, func(rt *rapid.T) {
		n := rapid.IntRange(2, 5).Draw(rt, "handles")
		order := rapid.Permutation([]int{0, 1, 2, 3, 4}[:n]).Draw(rt, "closeOrder")
		ln := newC15Listener()
		mux := NewTCPMuxDefault(TCPMuxParams{Listener: ln, Logger: lf.NewLogger("verif"), ReadBufferSize: 8})
		defer mux.Close() //nolint:errcheck
		localIP := net.IPv4(10, 0, 0, 1)
		var hs []net.PacketConn
		for i := 0; i < n; i++ {
			h, err := mux.GetConnByUfrag("ufragT", false, localIP)
			if err != nil {
				rt.Fatalf("harness: %v", err)
			}
			hs = append(hs, h)
		}
		mux.mu.Lock()
		under, _ := mux.getConn("ufragT", false, localIP)
		mux.mu.Unlock()
		// one peer is connected, so that the handles have somebody to write to
		ca, cb := net.Pipe()
		remote := &net.TCPAddr{IP: net.IPv4(198, 51, 100, 9), Port: 41000}
		peer := &c15Client{id: 0, conn: ca, remote: remote, kind: "valid", ufrag: "ufragT", done: make(chan struct{})}
		go peer.reader()
		defer ca.Close() //nolint:errcheck
		ln.ch <- &c15Conn{Conn: cb, local: &net.TCPAddr{IP: localIP, Port: 8443}, remote: remote}
		_ = ca.SetWriteDeadline(time.Now().Add(20 * time.Second))
		_, _ = ca.Write(c15Frame(c15StunBinding("ufragT:peer", true, stun.MethodBinding)))
		for d := time.Now().Add(20 * time.Second); time.Now().Before(d); {
			under.mu.Lock()
			_, has := under.conns[remote.String()]
			under.mu.Unlock()
			if has {
				break
			}
			time.Sleep(50 * time.Microsecond)
		}
		// optionally a second peer whose connection cannot arm a write deadline (arming fails, clearing works):
		// the healthy connection next to it must not keep an expired deadline after somebody's abort
		brokenPeer := rapid.IntRange(0, 2).Draw(rt, "secondPeerCannotArmDeadlines") == 0
		if brokenPeer {
			ca2, cb2 := net.Pipe()
			remote2 := &net.TCPAddr{IP: net.IPv4(198, 51, 100, 10), Port: 41001}
			peer2 := &c15Client{id: 1, conn: ca2, remote: remote2, kind: "valid", ufrag: "ufragT", done: make(chan struct{})}
			go peer2.reader()
			defer ca2.Close() //nolint:errcheck
			ln.ch <- &c15Conn{Conn: cb2, local: &net.TCPAddr{IP: localIP, Port: 8443}, remote: remote2, failArmWriteDeadline: true}
			_ = ca2.SetWriteDeadline(time.Now().Add(20 * time.Second))
			_, _ = ca2.Write(c15Frame(c15StunBinding("ufragT:peer", true, stun.MethodBinding)))
			for d := time.Now().Add(20 * time.Second); time.Now().Before(d); {
				under.mu.Lock()
				_, has := under.conns[remote2.String()]
				under.mu.Unlock()
				if has {
					break
				}
				time.Sleep(50 * time.Microsecond)
			}
		}
		for k, idx := range order {
			abortStyle := rapid.Bool().Draw(rt, "closeLikeACandidate")
			if abortStyle {
				// what a candidate does when it goes away: expire its deadlines, then close
				_ = hs[idx].SetDeadline(time.Now())
			}
			_ = hs[idx].Close()
			if rapid.Bool().Draw(rt, "twice") {
				_ = hs[idx].Close()
			}
			closed := under.isClosed()
			if k < n-1 {
				if closed {
					st.Fail(rt, "C13/refcount/underlying-closed-early", "tcp mux: underlying connection closed after %d of %d handles were closed", k+1, n)
				}
				for _, j := range order[k+1:] {
					if err := hs[j].SetReadDeadline(time.Now().Add(time.Second)); err != nil {
						st.Fail(rt, "C13/refcount/sibling-disturbed", "tcp mux: sibling handle unusable after another handle closed: %v", err)
					}
					if _, err := hs[j].WriteTo([]byte("still here"), remote); err != nil {
						st.Fail(rt, "C13/refcount/sibling-write-failed", "tcp mux: write on a sibling handle failed after another handle was closed (candidate-style=%v): %v", abortStyle, err)
					}
				}
				if err := hs[idx].SetReadDeadline(time.Now()); !errors.Is(err, io.ErrClosedPipe) {
					st.Fail(rt, "C13/refcount/closed-handle-usable", "tcp mux: closed handle still usable: %v", err)
				}
			} else if !closed {
				st.Fail(rt, "C13/refcount/underlying-not-closed", "tcp mux: underlying connection still open after the last handle was closed")
			}
		}
		fresh, err := mux.GetConnByUfrag("ufragT", false, localIP)
		if err != nil {
			st.Fail(rt, "C13/refcount/reuse-after-last-close", "tcp mux: GetConnByUfrag right after the last handle was closed: %v", err)
		} else {
			c11Jitter(rapid.IntRange(0, 40).Draw(rt, "jitterAfterReuse"))
			if err := fresh.SetReadDeadline(time.Now().Add(time.Second)); err != nil {
				st.Fail(rt, "C13/refcount/reuse-after-last-close", "tcp mux: the connection handed out right after the previous one of the same ufrag was closed is unusable: %v", err)
			}
			mux.mu.Lock()
			cur, ok := mux.getConn("ufragT", false, localIP)
			mux.mu.Unlock()
			if !ok || cur.isClosed() {
				st.Fail(rt, "C13/refcount/reuse-after-last-close", "tcp mux: the fresh connection of the reused ufrag is not registered (registered=%v)", ok)
			}
			_ = fresh.Close()
		}
		st.Record(vfHash("tcp", n, order, brokenPeer), true, "tcp-mux", fmt.Sprintf("peer-that-cannot-arm-deadlines:%v", brokenPeer))
		if st.WantSample() {
			st.Sample(func() string { return fmt.Sprintf("tcp mux: %d handles, close order %v", n, order) })
		}
	})
}

// (b) abort protocol on the shared socket.
func TestVerif_C13_WriteAbort(t *testing.T) {
	st := vfNewStats(t)
	lf := logging.NewDefaultLoggerFactory()
	lf.DefaultLogLevel = logging.LogLevelDisabled
	rapid.Check(t, func(rt *rapid.T) {
		nW := rapid.IntRange(1, 5).Draw(rt, "writers")
		type wspec struct {
			Ctx   bool
			Delay int
		}
		ws := make([]wspec, nW)
		for i := range ws {
			ws[i] = wspec{Ctx: rapid.Bool().Draw(rt, "ctxWriter"), Delay: rapid.IntRange(0, 20).Draw(rt, "startDelay")}
		}
		type ev struct {
			Kind  string
			Arg   int
			Delay int
		}
		nEv := rapid.IntRange(0, 8).Draw(rt, "nEvents")
		evs := make([]ev, nEv)
		for i := range evs {
			evs[i] = ev{
				Kind:  rapid.SampledFrom([]string{"release", "release", "cancel", "abort", "abort", "lateWriter"}).Draw(rt, "event"),
				Arg:   rapid.IntRange(0, 4).Draw(rt, "arg"),
				Delay: rapid.IntRange(0, 25).Draw(rt, "evDelay"),
			}
		}
		failArm := rapid.IntRange(0, 5).Draw(rt, "failArmingCall") // 0 = never; n = the n-th arming (non-zero) SetWriteDeadline fails
		desc := fmt.Sprintf("writers=%+v events=%+v failArm=%d", ws, evs, failArm)

		base := newC12Base("10.0.0.1:7000")
		base.blockWrites = true
		armCalls := 0
		var fb net.PacketConn = &c13FaultyDeadline{c12Base: base, failOn: failArm, arm: &armCalls}
		mux := NewUDPMuxDefault(UDPMuxParams{Logger: lf.NewLogger("verif"), UDPConn: fb})
		defer mux.Close() //nolint:errcheck
		h1, _ := mux.GetConn("u1", base.local)
		h2, _ := mux.GetConn("u2", base.local)
		dst := &net.UDPAddr{IP: net.IPv4(198, 51, 100, 1), Port: 4000}
		type wres struct{ err error }
		results := make([]chan wres, 0, nW+4)
		cancels := make([]context.CancelFunc, 0, nW+4)
		var running atomic.Int32
		startWriter := func(w wspec) {
			ch := make(chan wres, 1)
			ctx, cancel := context.WithCancel(context.Background())
			results = append(results, ch)
			cancels = append(cancels, cancel)
			running.Add(1)
			go func() {
				c11Jitter(w.Delay)
				var err error
				if w.Ctx {
					_, err = mux.writeToContext(ctx, []byte("w"), dst)
				} else {
					_, err = h1.WriteTo([]byte("w"), dst)
				}
				running.Add(-1)
				ch <- wres{err}
			}()
		}
		for _, w := range ws {
			startWriter(w)
		}
		aborts, multi := 0, false
		for _, e := range evs {
			c11Jitter(e.Delay)
			switch e.Kind {
			case "release":
				base.release <- struct{}{}
			case "cancel":
				if e.Arg < len(cancels) {
					cancels[e.Arg]()
				}
			case "abort":
				base.mu.Lock()
				if base.inWrite >= 2 {
					multi = true
				}
				base.mu.Unlock()
				if ab, ok := h2.(writeAborter); ok {
					_ = ab.abortWrite()
					aborts++
				}
			case "lateWriter":
				startWriter(wspec{Ctx: e.Arg%2 == 0, Delay: e.Arg})
			}
		}
		// let everything finish: cancel contexts, stop blocking, release tokens
		for _, c := range cancels {
			c()
		}
		base.mu.Lock()
		base.blockWrites = false
		base.mu.Unlock()
		for i := 0; i < 64; i++ {
			base.release <- struct{}{}
		}
		for i, ch := range results {
			select {
			case <-ch:
			case <-time.After(20 * time.Second):
				state := mux.writeState.Load()
				dead, dump := vfStuck("UDPMuxDefault")
				if dead || (state&udpMuxWriteBlockedBit != 0 && state&udpMuxWriteCountMask == 0) {
					st.Fail(rt, "C13/abort/writer-stuck", "writer %d never returned; writeState=%#x\n%s\n%s", i, state, desc, dump)
				}
				st.Inconclusive()
				rt.Fatalf("VERIF-INCONCLUSIVE: writer %d still running after 20 s (writeState=%#x)", i, state)
			}
		}
		// all started writes have returned
		if s := mux.writeState.Load(); s != 0 {
			st.Fail(rt, "C13/abort/write-state-not-cleared", "writeState=%#x after all writers returned\n%s", s, desc)
		}
		base.mu.Lock()
		log := append([]time.Time{}, base.deadlineLog...)
		cur := base.deadline
		base.mu.Unlock()
		armed := false
		for _, d := range log {
			if !d.IsZero() {
				armed = true
			}
		}
		if armed && !cur.IsZero() {
			st.Fail(rt, "C13/abort/deadline-left-armed", "the shared socket's write deadline is still set (%v) after all writers returned; SetWriteDeadline calls: %d\n%s", cur, len(log), desc)
		}
		// a different user can write
		if _, err := h2.WriteTo([]byte("probe"), dst); err != nil {
			st.Fail(rt, "C13/abort/socket-unusable-for-others", "probe write by another connection failed: %v\n%s", err, desc)
		}
		labels := []string{fmt.Sprintf("aborts:%d", min(aborts, 3))}
		if armed {
			labels = append(labels, "deadline-armed")
		}
		if multi {
			labels = append(labels, "abort-with-2+-writers-in-flight")
		}
		st.Record(vfHashStr(desc), armed && (multi || aborts >= 2), labels...)
		if armed && st.WantSample() {
			st.Sample(func() string { return desc })
		}
	})
}

// c13FaultyDeadline makes the n-th *arming* SetWriteDeadline call (non-zero time) fail.
type c13FaultyDeadline struct {
	*c12Base
	failOn int
	arm    *int
	mu     sync.Mutex
}

func (f *c13FaultyDeadline) SetWriteDeadline(t time.Time) error {
	if !t.IsZero() {
		f.mu.Lock()
		*f.arm++
		n := *f.arm
		f.mu.Unlock()
		if f.failOn != 0 && n == f.failOn {
			return errors.New("injected: SetWriteDeadline failed") //nolint:err113
		}
	}

	return f.c12Base.SetWriteDeadline(t)
}

// TestVerif_C13_SiblingReadersThroughMux: several handles of one ufrag on a real UDPMuxDefault, a reader parked
// on each; one datagram arrives while one handle is being closed (order and gap drawn).  Closing a handle must
// not cost the siblings their wake-up: the datagram is handed to some reader, it does not stay queued behind
// parked readers of open handles.
func TestVerif_C13_SiblingReadersThroughMux(t *testing.T) {
	st := vfNewStats(t)
	lf := logging.NewDefaultLoggerFactory()
	lf.DefaultLogLevel = logging.LogLevelDisabled
	rapid.Check(t, func(rt *rapid.T) {
		n := rapid.IntRange(2, 4).Draw(rt, "handles")
		base := newC12Base("10.0.0.1:7000")
		mux := NewUDPMuxDefault(UDPMuxParams{Logger: lf.NewLogger("verif"), UDPConn: base})
		defer mux.Close() //nolint:errcheck
		hs := make([]net.PacketConn, n)
		for i := range hs {
			h, err := mux.GetConn("ufragX", base.local)
			if err != nil {
				rt.Fatalf("harness: %v", err)
			}
			hs[i] = h
		}
		mux.mu.Lock()
		under, _ := mux.getConn("ufragX", false)
		mux.mu.Unlock()
		type res struct {
			n   int
			err error
		}
		open := make([]bool, n)
		pending := make([]chan res, n)
		for i := range open {
			open[i] = true
		}
		startReaders := func() int {
			cnt := 0
			for i := range hs {
				if open[i] && pending[i] == nil {
					ch := make(chan res, 1)
					pending[i] = ch
					go func(h net.PacketConn) {
						nn, _, err := h.ReadFrom(make([]byte, 1500))
						ch <- res{nn, err}
					}(hs[i])
				}
				if pending[i] != nil {
					cnt++
				}
			}

			return cnt
		}
		queued := func() bool {
			under.mu.Lock()
			defer under.mu.Unlock()

			return under.bufTail != nil
		}
		src := netip.MustParseAddrPort("198.51.100.9:4000")
		var hist []string
		raced := 0
		for round := 0; round < n-1; round++ {
			// every open handle gets a parked reader (readers that have returned meanwhile are replaced)
			for d := time.Now().Add(20 * time.Second); ; {
				for i := range pending {
					if pending[i] != nil && open[i] {
						select {
						case r := <-pending[i]:
							pending[i] = nil
							if r.err != nil {
								st.Fail(rt, "C13/refcount/sibling-read-failed", "reader of open handle h%d returned %v\n%s", i, r.err, strings.Join(hist, "\n"))
							}
						default:
						}
					}
				}
				if want := startReaders(); int(under.readWaiting.Load()) == want && !queued() {
					break
				}
				if time.Now().After(d) {
					st.Inconclusive()
					rt.Fatalf("VERIF-INCONCLUSIVE: readers not parked after 20 s")
				}
				runtime.Gosched()
			}
			var openIdx []int
			for i := range open {
				if open[i] {
					openIdx = append(openIdx, i)
				}
			}
			victim := openIdx[rapid.IntRange(0, len(openIdx)-1).Draw(rt, "victim")]
			pushFirst := rapid.Bool().Draw(rt, "pushFirst")
			gap := rapid.IntRange(0, 40).Draw(rt, "gapMicros")
			spin := func() {
				for t0 := time.Now(); time.Since(t0) < time.Duration(gap)*time.Microsecond; {
				}
			}
			var wg sync.WaitGroup
			wg.Add(2)
			go func() {
				defer wg.Done()
				if !pushFirst {
					spin()
				}
				base.push(c12In{data: c12Stun("ufragX:peer", true), src: src})
			}()
			go func() {
				defer wg.Done()
				if pushFirst {
					spin()
				}
				_ = hs[victim].Close()
			}()
			wg.Wait()
			open[victim] = false
			hist = append(hist, fmt.Sprintf("round %d: close h%d, pushFirst=%v gap=%dµs", round, victim, pushFirst, gap))
			// the victim's pending read returns (with the datagram or with an error)
			delivered := false
			select {
			case r := <-pending[victim]:
				pending[victim] = nil
				if r.err == nil && r.n > 0 {
					delivered = true
				}
			case <-time.After(20 * time.Second):
				dead, dump := vfStuck("udpMuxedConn")
				if dead {
					st.Fail(rt, "C13/refcount/pending-read-on-closed-handle", "pending read of the closed handle never returned\n%s\n%s", strings.Join(hist, "\n"), dump)
				}
				st.Inconclusive()
				rt.Fatalf("VERIF-INCONCLUSIVE: pending read of the closed handle still running after 20 s")
			}
			// the datagram goes to some reader; it must not stay queued behind parked readers of open handles
			for d := time.Now().Add(3 * time.Second); !delivered; {
				for i := range pending {
					if pending[i] == nil {
						continue
					}
					select {
					case r := <-pending[i]:
						pending[i] = nil
						if r.err != nil {
							st.Fail(rt, "C13/refcount/sibling-read-failed", "reader of open handle h%d returned %v\n%s", i, r.err, strings.Join(hist, "\n"))
						}
						delivered = true
					default:
					}
				}
				if delivered || !queued() {
					break
				}
				if time.Now().After(d) {
					parked := under.readWaiting.Load()
					st.Fail(rt, "C13/refcount/sibling-reader-not-woken", "a datagram is still queued 3 s after it arrived while %d reader(s) of open handles stay parked\n%s", parked, strings.Join(hist, "\n"))

					break
				}
				time.Sleep(50 * time.Microsecond)
			}
			if gap <= 5 {
				raced++
			}
		}
		for i := range hs {
			_ = hs[i].Close()
		}
		st.Record(vfHashStr(strings.Join(hist, ";")), raced > 0, fmt.Sprintf("handles:%d", n), fmt.Sprintf("close-within-5µs-of-arrival:%v", raced > 0))
		if raced > 0 && st.WantSample() {
			st.Sample(func() string { return strings.Join(hist, "; ") })
		}
	})
}

// TestVerif_C13_WriteDuringAbort: user A's write is blocked in the shared socket; user C aborts (the socket
// gets a write deadline) and the blocked write takes a while to notice; meanwhile user B — who was never
// blocked and is aborted by nobody — writes (WriteTo, or the netip.AddrPort path when the socket supports it).
// B's write must not be hit by the deadline armed for A: it succeeds once the abort is over.
func TestVerif_C13_WriteDuringAbort(t *testing.T) {
	st := vfNewStats(t)
	lf := logging.NewDefaultLoggerFactory()
	lf.DefaultLogLevel = logging.LogLevelDisabled
	rapid.Check(t, func(rt *rapid.T) {
		flavourAP := rapid.Bool().Draw(rt, "socketSupportsAddrPortIO")
		lag := time.Duration(rapid.IntRange(15, 40).Draw(rt, "deadlineLagMs")) * time.Millisecond
		nB := rapid.IntRange(1, 3).Draw(rt, "bystanderWrites")
		bDelay := rapid.IntRange(0, 8).Draw(rt, "bystanderDelayMs")
		base := newC12Base("10.0.0.1:7000")
		base.blockWrites = true
		base.deadlineLag = lag
		var pc net.PacketConn = base
		if flavourAP {
			pc = c12BaseAP{base}
		}
		mux := NewUDPMuxDefault(UDPMuxParams{Logger: lf.NewLogger("verif"), UDPConn: pc})
		defer mux.Close() //nolint:errcheck
		hA, _ := mux.GetConn("uA", base.local)
		hB, _ := mux.GetConn("uB", base.local)
		hC, _ := mux.GetConn("uC", base.local)
		dst := &net.UDPAddr{IP: net.IPv4(198, 51, 100, 1), Port: 4000}
		aDone := make(chan error, 1)
		go func() { _, err := hA.WriteTo([]byte("a"), dst); aDone <- err }()
		for d := time.Now().Add(20 * time.Second); ; {
			base.mu.Lock()
			n := base.inWrite
			base.mu.Unlock()
			if n >= 1 {
				break
			}
			if time.Now().After(d) {
				st.Inconclusive()
				rt.Fatalf("VERIF-INCONCLUSIVE: writer A did not reach the socket")
			}
			runtime.Gosched()
		}
		ab, ok := hC.(writeAborter)
		if !ok {
			rt.Fatalf("harness: handle does not implement abortWrite")
		}
		if err := ab.abortWrite(); err != nil {
			rt.Fatalf("harness: abortWrite: %v", err)
		}
		// the deadline is armed now and A has not noticed yet
		time.Sleep(time.Duration(bDelay) * time.Millisecond)
		bDone := make(chan error, nB)
		apWriter, hasAP := hB.(interface {
			WriteToAddrPort(b []byte, addr netip.AddrPort) (int, error)
		})
		viaAP := flavourAP && hasAP && rapid.Bool().Draw(rt, "bystanderUsesAddrPortWrite")
		for i := 0; i < nB; i++ {
			go func() {
				var err error
				if viaAP {
					_, err = apWriter.WriteToAddrPort([]byte("b"), dst.AddrPort()) // what candidates do on such sockets
				} else {
					_, err = hB.WriteTo([]byte("b"), dst)
				}
				bDone <- err
			}()
		}
		aErr := <-aDone
		// the abort is over when A has returned; B's writes are let through by the (still blocking) socket
		for i := 0; i < nB; i++ {
			base.release <- struct{}{}
		}
		desc := fmt.Sprintf("addrPortIO=%v bystanderViaAddrPort=%v lag=%s bystanders=%d after %d ms; A returned %v", flavourAP, viaAP, lag, nB, bDelay, aErr)
		st.Record(vfHashStr(desc), time.Duration(bDelay)*time.Millisecond < lag, fmt.Sprintf("addrport-write:%v", viaAP))
		if st.WantSample() {
			st.Sample(func() string { return desc })
		}
		for i := 0; i < nB; i++ {
			select {
			case err := <-bDone:
				if err != nil {
					st.Fail(rt, "C13/abort/bystander-write-failed", "user B's write, issued while A's blocked write was being aborted, returned %v (it was never blocked and nobody aborted it)\n%s", err, desc)
				}
			case <-time.After(20 * time.Second):
				state := mux.writeState.Load()
				dead, dump := vfStuck("UDPMuxDefault")
				if dead {
					st.Fail(rt, "C13/abort/writer-stuck", "user B's write never returned; writeState=%#x\n%s\n%s", state, desc, dump)
				}
				st.Inconclusive()
				rt.Fatalf("VERIF-INCONCLUSIVE: bystander write still running after 20 s")
			}
		}
		base.mu.Lock()
		base.blockWrites = false
		cur := base.deadline
		base.mu.Unlock()
		if !cur.IsZero() {
			st.Fail(rt, "C13/abort/deadline-left-armed", "the shared socket's write deadline is still set after all writes returned\n%s", desc)
		}
	})
}
