//go:build verif

package ice

import (
	"fmt"
	"strings"
	"testing"
	"time"

	"github.com/pion/stun/v3"
	"pgregory.net/rapid"
)

// TestVerif_C20_RenominateBeforeSelection: renominations issued while the regular (plain) nomination of the
// controlling agent is still under way. Drawn: ticks of both agents, delivery order, duplication, and loss of
// nomination requests / their answers only (the losses the property quantifies over), RenominateCandidate on any
// pair that is valid for the controlling agent at that moment. After a loss-free suffix both agents must sit on
// the mirror image of the pair that carries the highest issued value.
func TestVerif_C20_RenominateBeforeSelection(t *testing.T) {
	st := vfNewStats(t)
	rapid.Check(t, func(rt *rapid.T) {
		c := duoCase{NoSignal: map[string]bool{}, MaxBinding: 9, ReusePorts: true, Renom: true}
		c.Controlling = rapid.IntRange(0, 1).Draw(rt, "controlling")
		for side := 0; side < 2; side++ {
			n := rapid.IntRange(1, 3).Draw(rt, "nSocks")
			for i := 0; i < n; i++ {
				c.Socks[side] = append(c.Socks[side], duoSockSpec{Kind: rapid.SampledFrom([]int{simKindHost, simKindSrflx, simKindRelayish}).Draw(rt, "kind")})
			}
		}
		d, err := newDuoSim(c, nil)
		if err != nil {
			rt.Fatalf("harness: %v", err)
		}
		defer d.close()
		if err := d.addLocals(); err != nil {
			rt.Fatalf("harness: %v", err)
		}
		if err := d.startBoth(); err != nil {
			rt.Fatalf("harness: %v", err)
		}
		d.signalAll()
		A, B := d.ag[c.Controlling], d.ag[1-c.Controlling]

		type issued struct {
			pair  *CandidatePair
			reqID int
			value uint32
		}
		var hist []issued
		lbl := map[string]bool{}
		var script []string
		nomTx := map[[stun.TransactionIDSize]byte]bool{}
		scanNom := func() {
			d.w.mu.Lock()
			for _, dg := range d.w.inflight {
				if dg.msg != nil && dg.msg.class == stun.ClassRequest && dg.msg.useCand {
					nomTx[dg.msg.txid] = true
				}
			}
			d.w.mu.Unlock()
		}
		isNom := func(dg *simDgram) bool { return dg != nil && dg.msg != nil && nomTx[dg.msg.txid] }
		nSteps := rapid.IntRange(4, 40).Draw(rt, "nSteps")
		for i := 0; i < nSteps; i++ {
			op := rapid.SampledFrom([]string{"tickA", "tickA", "tickB", "deliver", "deliver", "deliver", "deliverLast", "dropNomination", "dup", "renominate"}).Draw(rt, "op")
			arg := rapid.IntRange(0, 7).Draw(rt, "arg")
			switch op {
			case "tickA":
				A.tick()
				script = append(script, "tickA")
			case "tickB":
				B.tick()
				script = append(script, "tickB")
			case "renominate":
				if len(hist) >= 4 {
					continue
				}
				var valid []*CandidatePair
				_ = A.a.loop.Run(A.a.loop, nil2(func() {
					for _, p := range A.a.checklist {
						if p.state == CandidatePairStateSucceeded {
							valid = append(valid, p)
						}
					}
				}))
				if len(valid) == 0 {
					continue
				}
				p := valid[arg%len(valid)]
				if A.selectedPair() == nil {
					lbl["renomination-before-selection"] = true
				}
				from := d.w.logLen()
				if err := A.a.RenominateCandidate(p.Local, p.Remote); err != nil {
					st.Fail(rt, "C20/controlling/renominate-error", "RenominateCandidate on a valid pair: %v", err)
				}
				for _, e := range d.w.emittedSince(from, A.side) {
					if e.msg != nil && e.msg.nomination != nil {
						hist = append(hist, issued{pair: p, reqID: e.id, value: *e.msg.nomination})
						script = append(script, fmt.Sprintf("renominate(%s v=%d)", pairKey(p), *e.msg.nomination))
					}
				}
			case "deliver", "deliverLast":
				n := d.w.inflightLen()
				if n == 0 {
					continue
				}
				idx := arg % n
				if op == "deliverLast" {
					idx = n - 1
				}
				if idx != 0 {
					lbl["reordered"] = true
				}
				dg := d.w.take(idx)
				d.w.deliver(dg)
				script = append(script, fmt.Sprintf("deliver(%s)", dg))
			case "dropNomination":
				scanNom()
				n := d.w.inflightLen()
				for k := 0; k < n; k++ {
					if dg := d.w.peek((arg + k) % n); isNom(dg) {
						dg = d.w.take((arg + k) % n)
						d.w.logEvent(simEvent{kind: "drop", side: dg.src.side, d: dg})
						lbl["loss"] = true
						script = append(script, fmt.Sprintf("drop(%s)", dg))

						break
					}
				}
			case "dup":
				dg := d.w.peek(arg)
				if dg == nil {
					continue
				}
				cp := *dg
				cp.dup = true
				d.w.mu.Lock()
				d.w.nextID++
				d.w.inflight = append(d.w.inflight, &cp)
				d.w.mu.Unlock()
				lbl["duplicate"] = true
				script = append(script, fmt.Sprintf("dup(%s)", dg))
			}
			scanNom()
		}
		d.deliverAll()
		d.fairSuffix(14, nil)
		desc := fmt.Sprintf("%s | %s", c, strings.Join(script, "; "))
		if len(hist) == 0 {
			st.Record(vfHashStr(desc), false, "no-renomination")

			return
		}
		last := &hist[len(hist)-1]
		for _, h := range hist {
			if h.value > last.value {
				rt.Fatalf("harness: nomination values not increasing")
			}
		}
		reqOK, respOK := false, false
		d.w.mu.Lock()
		var lastTxid [stun.TransactionIDSize]byte
		for _, e := range d.w.log {
			if e.kind == "emit" && e.d.id == last.reqID {
				lastTxid = e.d.msg.txid
			}
		}
		for _, e := range d.w.log {
			if e.kind != "deliver" || e.d.msg == nil || e.d.msg.txid != lastTxid {
				continue
			}
			if e.d.msg.class == stun.ClassRequest {
				reqOK = true
			}
			if e.d.msg.class == stun.ClassSuccessResponse {
				respOK = true
			}
		}
		d.w.mu.Unlock()
		reissued := 0
		if !(reqOK && respOK) {
			// the application's retry: the same pair again (a fresh, higher value), loss-free
			lbl["latest-renomination-lost"] = true
			for ; reissued < 4; reissued++ {
				if err := A.a.RenominateCandidate(last.pair.Local, last.pair.Remote); err != nil {
					st.Fail(rt, "C20/controlling/renominate-error", "re-issue: %v", err)
				}
				d.deliverAll()
				if pairKey(A.selectedPair()) == pairKey(last.pair) {
					break
				}
			}
			d.fairSuffix(6, nil)
		}
		if d.w.elapsed() > 3*time.Second {
			st.Inconclusive()

			return
		}
		var labels []string
		for l := range lbl {
			labels = append(labels, l)
		}
		st.Record(vfHashStr(desc), lbl["renomination-before-selection"], labels...)
		if lbl["renomination-before-selection"] && st.WantSample() {
			st.Sample(func() string { return desc })
		}
		if got := pairKey(A.selectedPair()); got != pairKey(last.pair) {
			st.Fail(rt, "C20/presel/controlling-not-on-latest-nomination", "controlling agent selected %q, latest renomination (v=%d) targets %s (request delivered=%v response delivered=%v reissued=%d)\n%s",
				got, last.value, pairKey(last.pair), reqOK, respOK, reissued, desc)
		}
		if sig, msg := d.mirrorCheck(); sig != "" {
			st.Fail(rt, "C20/presel/not-mirror-images", "%s (%s)\nlatest renomination v=%d on %s (request delivered=%v response delivered=%v reissued=%d)\n%s\n%s", msg, sig, last.value, pairKey(last.pair), reqOK, respOK, reissued, desc, d.w.history())
		}
	})
}
