//go:build verif

package ice

import (
	"fmt"
	"sync"
	"testing"
	"time"

	"pgregory.net/rapid"
)

// TestVerif_C08_CloseFromHandlerDuringGracefulClose: GracefulClose runs on an API goroutine and waits for the
// handlers that are still running; one of those handlers (connection state or candidate stream, drawn) calls Close
// or Conn.Close itself — before GracefulClose has begun, or once the agent already reports the closed error. Both
// calls return in bounded time and the last notified state is Closed.
func TestVerif_C08_CloseFromHandlerDuringGracefulClose(t *testing.T) {
	st := vfNewStats(t)
	rapid.Check(t, func(rt *rapid.T) {
		stream := rapid.SampledFrom([]string{"state", "candidate"}).Draw(rt, "handlerStream")
		viaConn := rapid.Bool().Draw(rt, "viaConnClose")
		waitForClosed := rapid.IntRange(0, 3).Draw(rt, "handlerClosesOnceAgentReportsClosed") != 0
		jitter := rapid.IntRange(0, 400).Draw(rt, "jitterMicros")
		secondGraceful := rapid.IntRange(0, 3).Draw(rt, "secondGracefulCloseAtOnce") == 0
		s, err := newSoloSim(simAgentConfig{controlling: rapid.Bool().Draw(rt, "controlling"), maxBinding: 7, disconnected: time.Hour, keepalive: 2 * time.Second, explicitTimeout: true},
			nil, []soloEpSpec{{Typ: CandidateTypeHost}})
		if err != nil {
			rt.Fatalf("harness: %v", err)
		}
		a := s.ag.a
		var (
			inHandler    = make(chan struct{})
			release      = make(chan struct{})
			handlerDone  = make(chan struct{})
			once         sync.Once
			statesMu     sync.Mutex
			states       []ConnectionState
			closeFromHdl = func() {
				once.Do(func() {
					close(inHandler)
					<-release
					if viaConn {
						_ = (&Conn{agent: a}).Close()
					} else {
						_ = a.Close()
					}
					close(handlerDone)
				})
			}
		)
		_ = a.OnConnectionStateChange(func(cs ConnectionState) {
			statesMu.Lock()
			states = append(states, cs)
			statesMu.Unlock()
			if stream == "state" {
				closeFromHdl()
			}
		})
		_ = a.OnCandidate(func(Candidate) {
			if stream == "candidate" {
				closeFromHdl()
			}
		})
		// (the simulator's helpers wait for idle notifiers, which the parked handler prevents: they run beside the case)
		setupDone := make(chan error, 1)
		go func() {
			if _, err := s.ag.addLocal(0, false, simKindHost, true); err != nil {
				setupDone <- err

				return
			}
			setupDone <- s.ag.start(s.peer.ufrag, s.peer.pwd)
		}()
		defer func() {
			select {
			case <-setupDone:
			case <-time.After(30 * time.Second):
			}
		}()
		desc := fmt.Sprintf("handler stream %s, Close via Conn %v, handler closes once the agent reports closed %v, jitter %d µs, second GracefulClose %v", stream, viaConn, waitForClosed, jitter, secondGraceful)
		select {
		case <-inHandler:
		case <-time.After(10 * time.Second):
			st.Inconclusive()
			s.close()
			rt.Fatalf("VERIF-INCONCLUSIVE: the %s handler was not invoked within 10 s", stream)
		}
		nGraceful := 1
		if secondGraceful {
			nGraceful = 2
		}
		gracefulDone := make(chan struct{}, nGraceful)
		for i := 0; i < nGraceful; i++ {
			go func() { _ = a.GracefulClose(); gracefulDone <- struct{}{} }()
		}
		if waitForClosed {
			deadline := time.Now().Add(10 * time.Second)
			for {
				if _, err := a.GetGatheringState(); err != nil {
					break
				}
				if time.Now().After(deadline) {
					break
				}
				time.Sleep(50 * time.Microsecond)
			}
		}
		c11Jitter(jitter)
		close(release)
		stuck := func(what string) {
			// (the setup goroutine polls for idle notifiers beside the case: only goroutines inside Agent methods count)
			dead, dump := vfStuck("pion/ice/v4.(*Agent)")
			if dead {
				st.Fail(rt, "C08/graceful/close-from-handler-deadlock", "%s did not return: %s\n%s", what, desc, dump)
			}
			st.Inconclusive()
			rt.Fatalf("VERIF-INCONCLUSIVE: %s still running after 8 s (%s)", what, desc)
		}
		select {
		case <-handlerDone:
		case <-time.After(8 * time.Second):
			stuck("Close called from inside the " + stream + " handler while GracefulClose is in progress")
		}
		for i := 0; i < nGraceful; i++ {
			select {
			case <-gracefulDone:
			case <-time.After(8 * time.Second):
				stuck("GracefulClose")
			}
		}
		s.w.settle()
		statesMu.Lock()
		got := append([]ConnectionState{}, states...)
		statesMu.Unlock()
		if len(got) == 0 || got[len(got)-1] != ConnectionStateClosed {
			st.Fail(rt, "C08/graceful/closed-not-notified", "GracefulClose and the handler's Close have returned but the notified states are %v (%s)", got, desc)
		}
		st.Record(vfHashStr(desc), waitForClosed, "stream:"+stream, fmt.Sprintf("handler-closes-after-closed:%v", waitForClosed))
		if st.WantSample() {
			st.Sample(func() string { return desc })
		}
	})
}
