//go:build verif

package ice

import (
	"context"
	"fmt"
	"net/netip"
	"sort"
	"strings"
	"testing"

	"pgregory.net/rapid"
)

// TestVerif_C17_MirroredPairsInAgents: "the pair priority … is the same number on both agents for mirrored pairs, so
// both sides order pairs identically" — asked of two real agents instead of hand-built pairs. What is drawn is the
// order of the events {local candidate appears, candidate is signalled to the peer, agent is started} on both sides,
// so pairs are formed before and after the agent learnt its role; optionally one role conflict at the end.
func TestVerif_C17_MirroredPairsInAgents(t *testing.T) {
	st := vfNewStats(t)
	rapid.Check(t, func(rt *rapid.T) {
		c := duoCase{NoSignal: map[string]bool{}, MaxBinding: 7}
		v6 := rapid.IntRange(0, 2).Draw(rt, "family")
		for side := 0; side < 2; side++ {
			n := rapid.IntRange(1, 3).Draw(rt, "nSocks")
			for i := 0; i < n; i++ {
				spec := duoSockSpec{V6: v6 == 2 || v6 == 1 && rapid.Bool().Draw(rt, "v6")}
				spec.Kind = rapid.SampledFrom([]int{simKindHost, simKindHost, simKindSrflx, simKindRelayish}).Draw(rt, "kind")
				c.Socks[side] = append(c.Socks[side], spec)
			}
		}
		c.Controlling = rapid.IntRange(0, 1).Draw(rt, "controlling")
		c.ReusePorts = true
		d, err := newDuoSim(c, nil)
		if err != nil {
			rt.Fatalf("harness: %v", err)
		}
		defer d.close()

		// events: 0 = start(side); 1+2i = add local i; 2+2i = signal local i (skipped until the local exists: retried at the end)
		type ev struct{ side, kind, idx int }
		var evs []ev
		for side := 0; side < 2; side++ {
			evs = append(evs, ev{side, 0, 0})
			for i := range c.Socks[side] {
				evs = append(evs, ev{side, 1, i}, ev{side, 2, i})
			}
		}
		// 0..2 rounds of checks (tick both, deliver everything) somewhere in between: a check that arrives before
		// its sender's candidate was signalled makes a peer-reflexive remote, which the signalled one supersedes
		for k := rapid.IntRange(0, 2).Draw(rt, "checkRounds"); k > 0; k-- {
			evs = append(evs, ev{0, 3, 0})
		}
		evs = rapid.Permutation(evs).Draw(rt, "order")
		added := [2]map[int]*simSock{{}, {}}
		started := [2]bool{}
		var late []ev
		var trace []string
		pairsBeforeStart := false
		prflxSeen := false
		run := func(e ev) bool {
			ag := d.ag[e.side]
			switch e.kind {
			case 0:
				peer := d.ag[1-e.side]
				var n int
				_ = ag.a.loop.Run(ag.a.loop, func(context.Context) { n = len(ag.a.checklist) })
				if n > 0 {
					pairsBeforeStart = true
				}
				if err := ag.start(peer.ufrag, peer.pwd); err != nil {
					rt.Fatalf("harness: start: %v", err)
				}
				started[e.side] = true
				trace = append(trace, fmt.Sprintf("start(%c,%d pairs)", 'A'+e.side, n))
			case 1:
				s, err := ag.addLocal(e.idx, c.Socks[e.side][e.idx].V6, c.Socks[e.side][e.idx].Kind, true)
				if err != nil {
					rt.Fatalf("harness: addLocal: %v", err)
				}
				added[e.side][e.idx] = s
				trace = append(trace, fmt.Sprintf("local(%c%d)", 'A'+e.side, e.idx))
			case 3:
				for side := 0; side < 2; side++ {
					if started[side] {
						d.ag[side].tick()
					}
				}
				d.deliverAll()
				for side := 0; side < 2; side++ {
					rc, _ := d.ag[side].a.GetRemoteCandidates()
					for _, r := range rc {
						if r.Type() == CandidateTypePeerReflexive {
							prflxSeen = true
						}
					}
				}
				trace = append(trace, "round")
			case 2:
				s := added[e.side][e.idx]
				if s == nil {
					return false
				}
				if err := ag.signalTo(d.ag[1-e.side], s); err != nil {
					rt.Fatalf("harness: signal: %v", err)
				}
				trace = append(trace, fmt.Sprintf("signal(%c%d)", 'A'+e.side, e.idx))
			}

			return true
		}
		for _, e := range evs {
			if !run(e) {
				late = append(late, e)
			}
		}
		for _, e := range late {
			run(e)
		}
		st.Record(vfHash(c.String(), strings.Join(trace, ",")), pairsBeforeStart || prflxSeen, fmt.Sprintf("peer-reflexive-then-signalled:%v", prflxSeen))
		if st.WantSample() && pairsBeforeStart {
			st.Sample(func() string { return c.String() + " :: " + strings.Join(trace, " ") })
		}

		type pp struct {
			l, r   netip.AddrPort
			lp, rp uint32
			prio   uint64
		}
		var pairs [2][]pp
		for side := 0; side < 2; side++ {
			ag := d.ag[side]
			_ = ag.a.loop.Run(ag.a.loop, func(context.Context) {
				for _, p := range ag.a.checklist {
					pairs[side] = append(pairs[side], pp{p.Local.addrPort(), p.Remote.addrPort(), p.Local.Priority(), p.Remote.Priority(), p.priority()})
				}
			})
		}
		desc := func() string { return c.String() + "\nevents: " + strings.Join(trace, " ") }
		for side := 0; side < 2; side++ {
			ctl := side == c.Controlling
			for _, p := range pairs[side] {
				g, dd := p.lp, p.rp
				if !ctl {
					g, dd = p.rp, p.lp
				}
				if want := c17RefPair(g, dd); want.Uint64() != p.prio {
					st.Fail(rt, "C17/agents/pair-priority-not-the-formula", "agent %c (controlling=%v) pair %s->%s local prio %d remote prio %d: pair priority %d, formula gives %s\n%s",
						'A'+side, ctl, p.l, p.r, p.lp, p.rp, p.prio, want, desc())
				}
			}
		}
		// mirrored pairs carry the same number, so the two agents order them identically
		mirror := map[[2]netip.AddrPort]uint64{}
		for _, p := range pairs[0] {
			mirror[[2]netip.AddrPort{p.l, p.r}] = p.prio
		}
		var common [2][]pp
		for _, p := range pairs[1] {
			pa, ok := mirror[[2]netip.AddrPort{p.r, p.l}]
			if !ok {
				continue
			}
			if pa != p.prio {
				st.Fail(rt, "C17/agents/mirrored-pair-priorities-differ", "A sees %d and B %d for the mirrored pair %s<->%s\n%s", pa, p.prio, p.r, p.l, desc())
			}
			common[1] = append(common[1], p)
			common[0] = append(common[0], pp{l: p.r, r: p.l, prio: pa})
		}
		for side := 0; side < 2; side++ {
			s := common[side]
			sort.SliceStable(s, func(i, j int) bool { return s[i].prio > s[j].prio })
		}
		for i := range common[0] {
			a, b := common[0][i], common[1][i]
			if a.prio != common[1][i].prio && (a.l != b.r || a.r != b.l) {
				st.Fail(rt, "C17/agents/pair-order-differs", "position %d: A has %s<->%s, B has %s<->%s\n%s", i, a.l, a.r, b.r, b.l, desc())
			}
		}
	})
}
