//go:build verif

package ice

import (
	"fmt"
	"strings"
	"sync"
	"testing"
	"time"

	"pgregory.net/rapid"
)

// TestVerif_C11_SelectedPairStream: the selected-pair handler is invoked once per selection event, in order —
// also for the selection of a generation begun by Restart whose candidates sit on the very transport addresses of
// the previous one (a mux, or a one-port range: SimNet's reusePorts), and for renominations back and forth.
// Reference: the selection is sampled after every harness step; every change to a non-nil pair is one event.
func TestVerif_C11_SelectedPairStream(t *testing.T) {
	st := vfNewStats(t)
	rapid.Check(t, func(rt *rapid.T) {
		c := duoCase{NoSignal: map[string]bool{}, MaxBinding: 7, ReusePorts: rapid.IntRange(0, 3).Draw(rt, "freshPorts") != 0, Renom: true}
		c.Controlling = rapid.IntRange(0, 1).Draw(rt, "controlling")
		for side := 0; side < 2; side++ {
			n := rapid.IntRange(1, 2).Draw(rt, "nSocks")
			for i := 0; i < n; i++ {
				c.Socks[side] = append(c.Socks[side], duoSockSpec{Kind: rapid.SampledFrom([]int{simKindHost, simKindSrflx}).Draw(rt, "kind")})
			}
		}
		d, err := newDuoSim(c, nil)
		if err != nil {
			rt.Fatalf("harness: %v", err)
		}
		defer d.close()
		if err := d.addLocals(); err != nil {
			rt.Fatalf("harness: %v", err)
		}
		if err := d.startBoth(); err != nil {
			rt.Fatalf("harness: %v", err)
		}
		d.signalAll()
		// expected events per side, from sampling
		var expect [2][]string
		var last [2]*CandidatePair
		sample := func() {
			for side := 0; side < 2; side++ {
				p := d.ag[side].selectedPair()
				if p != last[side] {
					if p != nil {
						expect[side] = append(expect[side], p.Local.Address()+"|"+p.Remote.Address())
					}
					last[side] = p
				}
			}
		}
		step := func() {
			for side := 0; side < 2; side++ {
				d.ag[side].tick()
				sample()
				for i := 0; i < 200; i++ {
					dg := d.w.take(0)
					if dg == nil {
						break
					}
					d.w.deliver(dg)
					sample()
				}
			}
		}
		var script []string
		nSteps := rapid.IntRange(2, 10).Draw(rt, "nSteps")
		restarts, renoms := 0, 0
		lblReselect := false
		for i := 0; i < nSteps; i++ {
			op := rapid.SampledFrom([]string{"rounds", "rounds", "restart", "renominate"}).Draw(rt, "op")
			switch op {
			case "rounds":
				for k := rapid.IntRange(1, 4).Draw(rt, "n"); k > 0; k-- {
					step()
				}
				script = append(script, "rounds")
			case "restart":
				if err := d.sessionRestart(rapid.IntRange(0, 1).Draw(rt, "first"), nil); err != nil {
					rt.Fatalf("harness: restart: %v", err)
				}
				sample()
				d.signalAll()
				sample()
				restarts++
				script = append(script, "restart")
			case "renominate":
				A := d.ag[c.Controlling]
				var valid []*CandidatePair
				_ = A.a.loop.Run(A.a.loop, nil2(func() {
					for _, p := range A.a.checklist {
						if p.state == CandidatePairStateSucceeded {
							valid = append(valid, p)
						}
					}
				}))
				if len(valid) == 0 || A.selectedPair() == nil {
					continue
				}
				p := valid[rapid.IntRange(0, len(valid)-1).Draw(rt, "pair")]
				if p == A.selectedPair() {
					lblReselect = true // renominating the selected pair changes nothing: no event
				}
				_ = A.a.RenominateCandidate(p.Local, p.Remote)
				sample()
				step()
				renoms++
				script = append(script, "renominate")
			}
		}
		for k := 0; k < 6; k++ {
			step()
		}
		d.w.settle()
		desc := fmt.Sprintf("%s | %s", c, strings.Join(script, "; "))
		st.Record(vfHashStr(desc), restarts > 0 && c.ReusePorts, fmt.Sprintf("restarts:%d", min(restarts, 3)), fmt.Sprintf("renominations:%d", min(renoms, 3)), fmt.Sprintf("same-addresses-after-restart:%v", c.ReusePorts), fmt.Sprintf("selected-pair-renominated:%v", lblReselect))
		if restarts > 0 && st.WantSample() {
			st.Sample(func() string { return desc })
		}
		for side := 0; side < 2; side++ {
			ag := d.ag[side]
			ag.mu.Lock()
			got := append([]string{}, ag.selected...)
			ag.mu.Unlock()
			if strings.Join(got, ",") != strings.Join(expect[side], ",") {
				sig := "C11/selected-pair/events-differ-from-selections"
				if len(got) < len(expect[side]) {
					sig = "C11/selected-pair/selection-not-notified"
				}
				st.Fail(rt, sig, "agent %c: the handler saw %v, the selection went through %v\n%s", 'A'+side, got, expect[side], desc)
			}
		}
	})
}

// TestVerif_C11_SelectedPairSlowHandlerAcrossRestart: the selected-pair handler is still busy with an earlier event
// while 1..3 further selections are queued behind it; then Restart is called — from outside, or by the handler
// itself when it resumes. Every selection that happened is still reported, once, in order: a slow handler (or one
// that calls back into the agent) never makes an event disappear. Selections are made through the agent's own
// setSelectedPair on its task loop, alternating between two pairs so that each one is a change.
func TestVerif_C11_SelectedPairSlowHandlerAcrossRestart(t *testing.T) {
	st := vfNewStats(t)
	rapid.Check(t, func(rt *rapid.T) {
		queued := rapid.IntRange(1, 3).Draw(rt, "queuedBehindTheBusyHandler")
		restartFrom := rapid.SampledFrom([]string{"outside", "handler", "none"}).Draw(rt, "restartFrom")
		s, err := newSoloSim(simAgentConfig{controlling: rapid.Bool().Draw(rt, "controlling"), maxBinding: 7, disconnected: time.Hour, keepalive: 0, explicitTimeout: true},
			[]duoSockSpec{{Kind: simKindHost}, {Kind: simKindHost}}, []soloEpSpec{{Typ: CandidateTypeHost}})
		if err != nil {
			rt.Fatalf("harness: %v", err)
		}
		a := s.ag.a
		if err := s.ag.start(s.peer.ufrag, s.peer.pwd); err != nil {
			rt.Fatalf("harness: %v", err)
		}
		_ = s.ag.addRemoteSync(s.epCandidate(0, soloEpSpec{Typ: CandidateTypeHost}))
		var pairs []*CandidatePair
		_ = a.loop.Run(a.loop, nil2(func() { pairs = append(pairs, a.checklist...) }))
		if len(pairs) < 2 {
			rt.Fatalf("harness: %d pairs", len(pairs))
		}
		var (
			mu      sync.Mutex
			log     []string
			parked  = make(chan struct{})
			release = make(chan struct{})
			first   sync.Once
		)
		_ = a.OnSelectedCandidatePairChange(func(l, r Candidate) {
			mu.Lock()
			log = append(log, l.Address()+"|"+r.Address())
			mu.Unlock()
			first.Do(func() {
				close(parked)
				<-release
				if restartFrom == "handler" {
					_ = a.Restart("", "")
				}
			})
		})
		var want []string
		sel := func(k int) {
			p := pairs[k%2]
			want = append(want, p.Local.Address()+"|"+p.Remote.Address())
			_ = a.loop.Run(a.loop, nil2(func() { a.setSelectedPair(p) }))
		}
		sel(0)
		select {
		case <-parked:
		case <-time.After(10 * time.Second):
			st.Inconclusive()
			close(release)
			rt.Fatalf("VERIF-INCONCLUSIVE: the selected-pair handler was not invoked within 10 s")
		}
		for k := 1; k <= queued; k++ {
			sel(k)
		}
		if restartFrom == "outside" {
			_ = a.Restart("", "")
		}
		close(release)
		deadline := time.Now().Add(20 * time.Second)
		for {
			mu.Lock()
			n := len(log)
			mu.Unlock()
			if n >= len(want) || time.Now().After(deadline) {
				break
			}
			time.Sleep(200 * time.Microsecond)
		}
		time.Sleep(300 * time.Microsecond) // (a surplus event would follow at once)
		mu.Lock()
		got := append([]string{}, log...)
		mu.Unlock()
		desc := fmt.Sprintf("%d selections queued behind a busy handler, Restart from %s", queued, restartFrom)
		if strings.Join(got, " ") != strings.Join(want, " ") {
			st.Fail(rt, "C11/selected/event-lost-or-reordered-behind-busy-handler", "%s: the handler saw %v, the selections were %v", desc, got, want)
		}
		st.Record(vfHashStr(desc), restartFrom != "none", "restart-from:"+restartFrom)
		if st.WantSample() {
			st.Sample(func() string { return desc })
		}
		_ = a.Close()
	})
}
