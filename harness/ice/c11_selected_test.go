//go:build verif

package ice

import (
	"fmt"
	"strings"
	"testing"

	"pgregory.net/rapid"
)

// TestVerif_C11_SelectedPairStream: the selected-pair handler is invoked once per selection event, in order —
// also for the selection of a generation begun by Restart whose candidates sit on the very transport addresses of
// the previous one (a mux, or a one-port range: SimNet's reusePorts), and for renominations back and forth.
// Reference: the selection is sampled after every harness step; every change to a non-nil pair is one event.
func TestVerif_C11_SelectedPairStream(t *testing.T) {
	st := vfNewStats(t)
	rapid.Check(t, func(rt *rapid.T) {
		c := duoCase{NoSignal: map[string]bool{}, MaxBinding: 7, ReusePorts: rapid.IntRange(0, 3).Draw(rt, "freshPorts") != 0, Renom: true}
		c.Controlling = rapid.IntRange(0, 1).Draw(rt, "controlling")
		for side := 0; side < 2; side++ {
			n := rapid.IntRange(1, 2).Draw(rt, "nSocks")
			for i := 0; i < n; i++ {
				c.Socks[side] = append(c.Socks[side], duoSockSpec{Kind: rapid.SampledFrom([]int{simKindHost, simKindSrflx}).Draw(rt, "kind")})
			}
		}
		d, err := newDuoSim(c, nil)
		if err != nil {
			rt.Fatalf("harness: %v", err)
		}
		defer d.close()
		if err := d.addLocals(); err != nil {
			rt.Fatalf("harness: %v", err)
		}
		if err := d.startBoth(); err != nil {
			rt.Fatalf("harness: %v", err)
		}
		d.signalAll()
		// expected events per side, from sampling
		var expect [2][]string
		var last [2]*CandidatePair
		sample := func() {
			for side := 0; side < 2; side++ {
				p := d.ag[side].selectedPair()
				if p != last[side] {
					if p != nil {
						expect[side] = append(expect[side], p.Local.Address()+"|"+p.Remote.Address())
					}
					last[side] = p
				}
			}
		}
		step := func() {
			for side := 0; side < 2; side++ {
				d.ag[side].tick()
				sample()
				for i := 0; i < 200; i++ {
					dg := d.w.take(0)
					if dg == nil {
						break
					}
					d.w.deliver(dg)
					sample()
				}
			}
		}
		var script []string
		nSteps := rapid.IntRange(2, 10).Draw(rt, "nSteps")
		restarts, renoms := 0, 0
		lblReselect := false
		for i := 0; i < nSteps; i++ {
			op := rapid.SampledFrom([]string{"rounds", "rounds", "restart", "renominate"}).Draw(rt, "op")
			switch op {
			case "rounds":
				for k := rapid.IntRange(1, 4).Draw(rt, "n"); k > 0; k-- {
					step()
				}
				script = append(script, "rounds")
			case "restart":
				if err := d.sessionRestart(rapid.IntRange(0, 1).Draw(rt, "first"), nil); err != nil {
					rt.Fatalf("harness: restart: %v", err)
				}
				sample()
				d.signalAll()
				sample()
				restarts++
				script = append(script, "restart")
			case "renominate":
				A := d.ag[c.Controlling]
				var valid []*CandidatePair
				_ = A.a.loop.Run(A.a.loop, nil2(func() {
					for _, p := range A.a.checklist {
						if p.state == CandidatePairStateSucceeded {
							valid = append(valid, p)
						}
					}
				}))
				if len(valid) == 0 || A.selectedPair() == nil {
					continue
				}
				p := valid[rapid.IntRange(0, len(valid)-1).Draw(rt, "pair")]
				if p == A.selectedPair() {
					lblReselect = true // renominating the selected pair changes nothing: no event
				}
				_ = A.a.RenominateCandidate(p.Local, p.Remote)
				sample()
				step()
				renoms++
				script = append(script, "renominate")
			}
		}
		for k := 0; k < 6; k++ {
			step()
		}
		d.w.settle()
		desc := fmt.Sprintf("%s | %s", c, strings.Join(script, "; "))
		st.Record(vfHashStr(desc), restarts > 0 && c.ReusePorts, fmt.Sprintf("restarts:%d", min(restarts, 3)), fmt.Sprintf("renominations:%d", min(renoms, 3)), fmt.Sprintf("same-addresses-after-restart:%v", c.ReusePorts), fmt.Sprintf("selected-pair-renominated:%v", lblReselect))
		if restarts > 0 && st.WantSample() {
			st.Sample(func() string { return desc })
		}
		for side := 0; side < 2; side++ {
			ag := d.ag[side]
			ag.mu.Lock()
			got := append([]string{}, ag.selected...)
			ag.mu.Unlock()
			if strings.Join(got, ",") != strings.Join(expect[side], ",") {
				sig := "C11/selected-pair/events-differ-from-selections"
				if len(got) < len(expect[side]) {
					sig = "C11/selected-pair/selection-not-notified"
				}
				st.Fail(rt, sig, "agent %c: the handler saw %v, the selection went through %v\n%s", 'A'+side, got, expect[side], desc)
			}
		}
	})
}
