//go:build verif

package ice

// Shared bookkeeping for all verification checks: per-test case statistics
// (evaluations, distinct non-trivial cases, labels, samples), known-finding
// handling, and the VERIF-VIOLATION line format the driver parses.

import (
	"encoding/json"
	"fmt"
	"hash/fnv"
	"os"
	"path/filepath"
	"sort"
	"strconv"
	"sync"
	"testing"
)

type vfStats struct {
	mu         sync.Mutex
	test       string
	evals      int
	nt         map[uint64]struct{}
	ntEnum     int // non-trivial cases counted by enumeration (distinct by construction)
	labels     map[string]int
	excluded   map[string]int
	knownHits  map[string]int
	samples    []string
	inconcl    int
	exhaustive *bool
}

var (
	vfStatsMu  sync.Mutex
	vfStatsAll = map[string]*vfStats{}
	vfKnown    map[string]bool
	vfKnownOne sync.Once
)

func vfNewStats(t testing.TB) *vfStats {
	vfStatsMu.Lock()
	defer vfStatsMu.Unlock()
	s := &vfStats{
		test: t.Name(), nt: map[uint64]struct{}{}, labels: map[string]int{},
		excluded: map[string]int{}, knownHits: map[string]int{},
	}
	vfStatsAll[t.Name()] = s
	t.Cleanup(s.flush)

	return s
}

func vfHash(parts ...any) uint64 {
	h := fnv.New64a()
	for _, p := range parts {
		fmt.Fprintf(h, "%v|", p)
	}

	return h.Sum64()
}

func vfHashStr(s string) uint64 {
	h := fnv.New64a()
	_, _ = h.Write([]byte(s))

	return h.Sum64()
}

// Record one executed case.
func (s *vfStats) Record(hash uint64, nontrivial bool, labels ...string) {
	s.mu.Lock()
	defer s.mu.Unlock()
	s.evals++
	if nontrivial {
		if len(s.nt) < 400000 {
			s.nt[hash] = struct{}{}
		}
	}
	for _, l := range labels {
		s.labels[l]++
	}
}

// RecordEnum counts cases of an enumeration (each distinct by construction).
func (s *vfStats) RecordEnum(evals, nontrivial int) {
	s.mu.Lock()
	defer s.mu.Unlock()
	s.evals += evals
	s.ntEnum += nontrivial
}

func (s *vfStats) Label(l string) {
	s.mu.Lock()
	s.labels[l]++
	s.mu.Unlock()
}

func (s *vfStats) LabelN(l string, n int) {
	s.mu.Lock()
	s.labels[l] += n
	s.mu.Unlock()
}

func (s *vfStats) Exclude(class string) {
	s.mu.Lock()
	s.excluded[class]++
	s.mu.Unlock()
}

func (s *vfStats) Inconclusive() {
	s.mu.Lock()
	s.inconcl++
	s.mu.Unlock()
}

func (s *vfStats) SetExhaustive(v bool) {
	s.mu.Lock()
	s.exhaustive = &v
	s.mu.Unlock()
}

// Sample keeps up to 4 rendered cases (the first ones offered).
func (s *vfStats) Sample(render func() string) {
	s.mu.Lock()
	defer s.mu.Unlock()
	if len(s.samples) < 4 {
		str := render()
		if len(str) > 1500 {
			str = str[:1500] + "…"
		}
		s.samples = append(s.samples, str)
	}
}

func (s *vfStats) WantSample() bool {
	s.mu.Lock()
	defer s.mu.Unlock()

	return len(s.samples) < 4
}

func vfLoadKnown() {
	vfKnown = map[string]bool{}
	p := os.Getenv("VERIF_KNOWN")
	if p == "" {
		return
	}
	raw, err := os.ReadFile(p) //nolint:gosec
	if err != nil {
		return
	}
	var doc struct {
		Findings []struct {
			Signature string `json:"signature"`
			Status    string `json:"status"`
		} `json:"findings"`
	}
	if json.Unmarshal(raw, &doc) != nil {
		return
	}
	for _, f := range doc.Findings {
		if f.Status == "known" {
			vfKnown[f.Signature] = true
		}
	}
}

// IsKnown reports whether sig is listed with status "known" in known_findings.json.
func vfIsKnown(sig string) bool {
	vfKnownOne.Do(vfLoadKnown)

	return vfKnown[sig]
}

type vfFataler interface {
	Fatalf(format string, args ...any)
}

// Fail reports a violation with signature sig — unless sig is a listed known
// finding, in which case the hit is counted and false is returned so the
// caller can carry on with the rest of the case.
func (s *vfStats) Fail(t vfFataler, sig string, format string, args ...any) bool {
	if vfIsKnown(sig) {
		s.mu.Lock()
		s.knownHits[sig]++
		s.mu.Unlock()

		return false
	}
	t.Fatalf("VERIF-VIOLATION sig=%s %s", sig, fmt.Sprintf(format, args...))

	return true
}

func (s *vfStats) flush() {
	dir := os.Getenv("VERIF_STATS_DIR")
	if dir == "" {
		return
	}
	s.mu.Lock()
	defer s.mu.Unlock()
	hs := make([]string, 0, len(s.nt))
	for h := range s.nt {
		hs = append(hs, strconv.FormatUint(h, 36))
	}
	sort.Strings(hs)
	doc := map[string]any{
		"test": s.test, "evaluations": s.evals, "nontrivial_hashes": hs, "nontrivial_enumerated": s.ntEnum,
		"labels": s.labels, "excluded": s.excluded, "known_hits": s.knownHits,
		"samples": s.samples, "inconclusive": s.inconcl,
	}
	if s.exhaustive != nil {
		doc["exhaustive"] = *s.exhaustive
	}
	raw, _ := json.Marshal(doc)
	_ = os.WriteFile(filepath.Join(dir, s.test+".json"), raw, 0o600)
}

func vfTier() string {
	if os.Getenv("VERIF_TIER") == "thorough" {
		return "thorough"
	}

	return "quick"
}

func vfShard() (int, int) {
	i, _ := strconv.Atoi(os.Getenv("VERIF_SHARD"))
	n, _ := strconv.Atoi(os.Getenv("VERIF_SHARDS"))
	if n <= 0 {
		n = 1
	}

	return i, n
}

func vfCount(def int) int {
	if n, err := strconv.Atoi(os.Getenv("VERIF_COUNT")); err == nil && n > 0 {
		return n
	}

	return def
}
