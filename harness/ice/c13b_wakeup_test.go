//go:build verif

package ice

import (
	"fmt"
	"net"
	"net/netip"
	"testing"
	"time"

	"github.com/pion/logging"
	"pgregory.net/rapid"
)

// TestVerif_C13_BackToBackDatagrams: k handles of one muxed connection each start a read, and k datagrams for
// that connection arrive back to back while the readers are on their way to sleep (not yet parked — nobody waits
// for that here, unlike SiblingReadersThroughMux). Every datagram must reach a reader: a reader left asleep next to
// a queued datagram is a sibling disturbed by the others' reads. Many rounds per case; the schedule is the OS's.
func TestVerif_C13_BackToBackDatagrams(t *testing.T) {
	st := vfNewStats(t)
	lf := logging.NewDefaultLoggerFactory()
	lf.DefaultLogLevel = logging.LogLevelDisabled
	rapid.Check(t, func(rt *rapid.T) {
		k := rapid.IntRange(2, 3).Draw(rt, "readers")
		rounds := rapid.IntRange(200, 1500).Draw(rt, "rounds")
		yield := rapid.IntRange(0, 3).Draw(rt, "yieldsBeforePush")
		base := newC12Base("10.0.0.1:7000")
		mux := NewUDPMuxDefault(UDPMuxParams{Logger: lf.NewLogger("verif"), UDPConn: base})
		defer mux.Close() //nolint:errcheck
		base.waitReading()
		src := netip.MustParseAddrPort("198.51.100.9:4000")
		_ = yield
		for r := 0; r < rounds; r++ {
			ufrag := fmt.Sprintf("ufragW%d", r)
			hs := make([]net.PacketConn, k)
			for i := range hs {
				h, err := mux.GetConn(ufrag, base.local)
				if err != nil {
					rt.Fatalf("harness: %v", err)
				}
				hs[i] = h
			}
			mux.mu.Lock()
			under, _ := mux.getConn(ufrag, false)
			mux.mu.Unlock()
			type res struct {
				who int
				err error
			}
			done := make(chan res, k)
			for i := range hs {
				go func(i int, h net.PacketConn) {
					_, _, err := h.ReadFrom(make([]byte, 1500))
					done <- res{i, err}
				}(i, hs[i])
			}
			// the narrow window: every reader has announced itself, none needs to be asleep yet
			for t0 := time.Now(); int(under.readWaiting.Load()) != k; {
				if time.Since(t0) > 20*time.Second {
					st.Inconclusive()
					rt.Fatalf("VERIF-INCONCLUSIVE: readers did not start")
				}
			}
			// what the mux worker does for k datagrams received back to back
			for i := 0; i < k; i++ {
				if err := under.writePacket([]byte{0x80, byte(i)}, src, nil); err != nil {
					rt.Fatalf("harness: writePacket: %v", err)
				}
			}
			// a user that got its datagram is done with its handle (closes it): the siblings must still get theirs
			for i := 0; i < k; i++ {
				select {
				case x := <-done:
					if x.err != nil {
						st.Fail(rt, "C13/readers/read-failed", "round %d: reader %d returned %v", r, x.who, x.err)
					}
					_ = hs[x.who].Close()
				case <-time.After(2 * time.Second):
					under.mu.Lock()
					queued := under.bufTail != nil
					under.mu.Unlock()
					if stuck, dump := vfStuck("pion/ice/v4"); stuck && queued {
						for _, h := range hs {
							_ = h.Close()
						}
						st.Fail(rt, "C13/readers/reader-asleep-next-to-queued-datagram", "round %d: %d datagrams were queued for the connection, %d of %d readers returned (and closed their handle), a datagram is still queued and the remaining reader sleeps\n%s", r, k, i, k, dump)
					}
					st.Inconclusive()
					rt.Fatalf("VERIF-INCONCLUSIVE: reader slow but not stably blocked")
				}
			}
		}
		st.Record(vfHash(k, rounds, yield), true, fmt.Sprintf("readers:%d", k))
		if st.WantSample() {
			st.Sample(func() string { return fmt.Sprintf("%d readers, %d rounds, %d yields before the burst", k, rounds, yield) })
		}
	})
}
