//go:build verif

package ice

// C10 (b) — the public API is thread-safe: concurrent programs over every public Agent/Conn method plus
// inbound traffic, under the race detector; snapshot atomicity of the getters.

import (
	"context"
	"errors"
	"fmt"
	"net"
	"runtime"
	"strings"
	"sync"
	"sync/atomic"
	"testing"
	"time"

	"github.com/pion/stun/v3"
	"pgregory.net/rapid"
)

var c10Methods = []string{
	"GetLocalUserCredentials", "GetRemoteUserCredentials", "GetLocalCandidates", "GetRemoteCandidates", "GetGatheringState",
	"GetSelectedCandidatePair", "GetCandidatePairsStats", "GetSelectedCandidatePairStats", "GetLocalCandidatesStats", "GetRemoteCandidatesStats",
	"AddRemoteCandidate", "SetRemoteCredentials", "Restart", "GatherCandidates", "UpdateOptions", "RenominateCandidate",
	"OnCandidate", "OnConnectionStateChange", "OnSelectedCandidatePairChange",
	"Conn.Write", "Conn.WriteToPair", "Conn.GetCandidatePairsInfo", "Conn.LocalAddr", "Conn.BytesSent", "Conn.SetReadDeadlineRead",
	"tick", "inboundRequest", "inboundData", "inboundAnswer", "inboundIndication", "inboundIndication",
}

var c10Mutating = map[string]bool{
	"AddRemoteCandidate": true, "SetRemoteCredentials": true, "Restart": true, "GatherCandidates": true, "UpdateOptions": true,
	"RenominateCandidate": true, "tick": true, "inboundRequest": true, "inboundAnswer": true,
}

func TestVerif_C10_APIHammer(t *testing.T) {
	st := vfNewStats(t)
	rapid.Check(t, func(rt *rapid.T) {
		phase := rapid.SampledFrom([]string{"new", "gathering", "checking", "connected", "connected"}).Draw(rt, "phase")
		nG := rapid.IntRange(2, 6).Draw(rt, "goroutines")
		progs := make([][]string, nG)
		mutators := 0
		for g := range progs {
			n := rapid.IntRange(1, 12).Draw(rt, "len")
			isMut := false
			for i := 0; i < n; i++ {
				m := rapid.SampledFrom(c10Methods).Draw(rt, "method")
				progs[g] = append(progs[g], m)
				if c10Mutating[m] {
					isMut = true
				}
			}
			if isMut {
				mutators++
			}
		}
		continual := rapid.IntRange(0, 3).Draw(rt, "continualGathering") == 0
		desc := fmt.Sprintf("phase=%s continual=%v programs=%v", phase, continual, progs)
		// world: FakeNet for gathering + a SimNet socket for inbound traffic and a scripted peer
		fn := newFakeNet([]fnIface{{Name: "eth0", Up: true, Addrs: []string{"10.0.0.1"}}})
		fn.stunServers["198.51.100.1:3478"] = "now"
		cfg := simAgentConfig{
			controlling: true, maxBinding: 7, disconnected: time.Hour, keepalive: 2 * time.Second, explicitTimeout: true, renomination: true,
			extra: []AgentOption{
				WithNet(fn), WithCandidateTypes([]CandidateType{CandidateTypeHost, CandidateTypeServerReflexive}),
				WithUrls([]*stun.URI{{Scheme: stun.SchemeTypeSTUN, Host: "198.51.100.1", Port: 3478, Proto: stun.ProtoTypeUDP}}),
				WithSTUNGatherTimeout(50 * time.Millisecond),
			},
		}
		if continual {
			// continual gathering: a monitor goroutine watches the interface list and re-gathers
			cfg.extra = append(cfg.extra, WithContinualGatheringPolicy(GatherContinually), WithNetworkMonitorInterval(300*time.Microsecond))
		}
		s, err := newSoloSim(cfg, []duoSockSpec{{Kind: simKindHost}, {Kind: simKindRelayish}}, []soloEpSpec{{Typ: CandidateTypeHost}, {Typ: CandidateTypeRelay}, {Typ: CandidateTypeHost}})
		if err != nil {
			rt.Fatalf("harness: %v", err)
		}
		defer s.close()
		a := s.ag.a
		conn := &Conn{agent: a}
		_ = a.OnCandidate(func(Candidate) {})
		creds := [][2]string{{"ufragAAAAAAAAAAAAAA", "pwdAAAAAAAAAAAAAAAAAAAAAAAAAAAAAA"}, {"ufragBBBBBBBBBBBBBB", "pwdBBBBBBBBBBBBBBBBBBBBBBBBBBBBBB"}, {"ufragCCCCCCCCCCCCCC", "pwdCCCCCCCCCCCCCCCCCCCCCCCCCCCCCC"}}
		validPair := map[string]bool{}
		u0, p0, _ := a.GetLocalUserCredentials()
		validPair[u0+"/"+p0] = true
		for _, c := range creds {
			validPair[c[0]+"/"+c[1]] = true
		}
		switch phase {
		case "gathering":
			_ = a.GatherCandidates()
		case "checking", "connected":
			if err := s.ag.start(s.peer.ufrag, s.peer.pwd); err != nil {
				rt.Fatalf("harness: %v", err)
			}
			_ = s.ag.addRemoteSync(s.epCandidate(0, soloEpSpec{Typ: CandidateTypeHost}))
			_ = s.ag.addRemoteSync(s.epCandidate(1, soloEpSpec{Typ: CandidateTypeRelay}))
			s.ag.tick()
			if phase == "connected" {
				for _, d := range s.agentRequests() {
					if ep := s.epByAddr(d.dst); ep != nil {
						s.removeInflight(d)
						s.answer(d, ep)
					}
				}
				s.ag.tick()
				for _, d := range s.agentRequests() {
					if ep := s.epByAddr(d.dst); ep != nil && d.msg.useCand {
						s.removeInflight(d)
						s.answer(d, ep)
					}
				}
			}
		}
		var (
			violMu sync.Mutex
			viol   []string
			calls  atomic.Int32
			inMu   [4]sync.Mutex // one receive loop per socket in reality: inbound is serialised per socket
		)
		addViol := func(sig, format string, args ...any) {
			violMu.Lock()
			viol = append(viol, sig+" "+fmt.Sprintf(format, args...))
			violMu.Unlock()
		}
		run := func(g int, m string, k int) {
			calls.Add(1)
			switch m {
			case "GetLocalUserCredentials":
				u, p, err := a.GetLocalUserCredentials()
				if err == nil && !validPair[u+"/"+p] {
					addViol("C10/atomicity/local-credentials-torn", "GetLocalUserCredentials returned (%s,%s), a mix of two Restart calls", u, p)
				}
			case "GetRemoteUserCredentials":
				_, _, _ = a.GetRemoteUserCredentials()
			case "GetLocalCandidates":
				cs, _ := a.GetLocalCandidates()
				seen := map[string]bool{}
				for _, c := range cs {
					if e, ok := c.GetExtension("ufrag"); ok {
						seen[e.Value] = true
					}
				}
				if len(seen) > 1 {
					addViol("C10/atomicity/local-candidates-mixed-generations", "GetLocalCandidates returned candidates of generations %v", seen)
				}
			case "GetRemoteCandidates":
				_, _ = a.GetRemoteCandidates()
			case "GetGatheringState":
				_, _ = a.GetGatheringState()
			case "GetSelectedCandidatePair":
				if p, _ := a.GetSelectedCandidatePair(); p != nil {
					_ = p.String()
				}
			case "GetCandidatePairsStats":
				_ = a.GetCandidatePairsStats()
			case "GetSelectedCandidatePairStats":
				_, _ = a.GetSelectedCandidatePairStats()
			case "GetLocalCandidatesStats":
				_ = a.GetLocalCandidatesStats()
			case "GetRemoteCandidatesStats":
				_ = a.GetRemoteCandidatesStats()
			case "AddRemoteCandidate":
				_ = a.AddRemoteCandidate(s.epCandidate((g+k)%3, soloEpSpec{Typ: CandidateTypeHost}))
			case "SetRemoteCredentials":
				_ = a.SetRemoteCredentials(s.peer.ufrag, s.peer.pwd)
			case "Restart":
				c := creds[(g+k)%len(creds)]
				_ = a.Restart(c[0], c[1])
			case "GatherCandidates":
				_ = a.GatherCandidates()
			case "UpdateOptions":
				_ = a.UpdateOptions(WithUrls([]*stun.URI{{Scheme: stun.SchemeTypeSTUN, Host: "198.51.100.1", Port: 3478 + k%2, Proto: stun.ProtoTypeUDP}}))
			case "RenominateCandidate":
				lc, _ := a.GetLocalCandidates()
				rc, _ := a.GetRemoteCandidates()
				if len(lc) > 0 && len(rc) > 0 {
					_ = a.RenominateCandidate(lc[k%len(lc)], rc[k%len(rc)])
				}
			case "OnCandidate":
				_ = a.OnCandidate(func(Candidate) {})
			case "OnConnectionStateChange":
				_ = a.OnConnectionStateChange(func(ConnectionState) {})
			case "OnSelectedCandidatePairChange":
				_ = a.OnSelectedCandidatePairChange(func(Candidate, Candidate) {})
			case "Conn.Write":
				_, _ = conn.Write([]byte("application data"))
			case "Conn.WriteToPair":
				infos := conn.GetCandidatePairsInfo()
				if len(infos) > 0 {
					_, _ = conn.WriteToPair(infos[k%len(infos)].ID, []byte("application data"))
				}
			case "Conn.GetCandidatePairsInfo":
				_ = conn.GetCandidatePairsInfo()
			case "Conn.LocalAddr":
				_ = conn.LocalAddr()
				_ = conn.RemoteAddr()
			case "Conn.BytesSent":
				_ = conn.BytesSent() + conn.BytesReceived()
			case "Conn.SetReadDeadlineRead":
				_ = conn.SetReadDeadline(time.Now().Add(200 * time.Microsecond))
				_, _ = conn.Read(make([]byte, 2000))
			case "tick":
				s.ag.tick()
			case "inboundRequest":
				if len(s.ag.socks) > 0 {
					sk := s.ag.socks[k%len(s.ag.socks)]
					req := simBuildRequest(simReqOpts{username: s.ag.ufrag + ":" + s.peer.ufrag, key: s.ag.pwd, role: "controlled", tiebreaker: 5, priority: 77, fingerprint: true})
					if !sk.isClosed() && sk.cand != nil {
						inMu[sk.idx%4].Lock()
						simBase(sk.cand).handleInboundPacket(req.Raw, s.eps[k%len(s.eps)].pub)
						inMu[sk.idx%4].Unlock()
					}
				}
			case "inboundIndication":
				// a Binding indication (keepalive of other ICE stacks) from a signalled address
				if len(s.ag.socks) > 0 {
					sk := s.ag.socks[k%len(s.ag.socks)]
					ind, err := stun.Build(stun.TransactionID, stun.NewType(stun.MethodBinding, stun.ClassIndication), stun.Fingerprint)
					if err == nil && !sk.isClosed() && sk.cand != nil {
						inMu[sk.idx%4].Lock()
						simBase(sk.cand).handleInboundPacket(ind.Raw, s.eps[k%len(s.eps)].pub)
						inMu[sk.idx%4].Unlock()
					}
				}
			case "inboundData":
				if len(s.ag.socks) > 0 {
					sk := s.ag.socks[k%len(s.ag.socks)]
					if !sk.isClosed() && sk.cand != nil {
						inMu[sk.idx%4].Lock()
						simBase(sk.cand).handleInboundPacket([]byte{0x80, 1, 2, 3, 4, 5, 6, 7}, s.eps[0].pub)
						inMu[sk.idx%4].Unlock()
					}
				}
			case "inboundAnswer":
				for _, d := range s.agentRequests() {
					if ep := s.epByAddr(d.dst); ep != nil && !d.src.isClosed() && d.src.cand != nil {
						s.removeInflight(d)
						resp := simBuildSuccess(d.msg.txid, d.src.pub, s.peer.pwd, true)
						inMu[d.src.idx%4].Lock()
						simBase(d.src.cand).handleInboundPacket(resp.Raw, ep.pub)
						inMu[d.src.idx%4].Unlock()

						break
					}
				}
			}
		}
		var wg sync.WaitGroup
		for g := range progs {
			wg.Add(1)
			go func(g int) {
				defer wg.Done()
				for k, m := range progs[g] {
					run(g, m, k)
				}
			}(g)
		}
		done := make(chan struct{})
		go func() { wg.Wait(); close(done) }()
		select {
		case <-done:
		case <-time.After(30 * time.Second):
			dead, dump := vfStuck("pion/ice/v4.(*Agent)")
			if dead {
				st.Fail(rt, "C10/api/deadlock", "concurrent API program never finished\n%s\n%s", desc, dump)
			}
			st.Inconclusive()
			rt.Fatalf("VERIF-INCONCLUSIVE: program still running after 30 s\n%s", desc)
		}
		// quiescence: every listed pair is formed from current candidates
		waitNoAddRemoteGoroutine()
		v := c06Take(a)
		for _, p := range v.pairs {
			fl, fr := false, false
			for _, l := range v.locals {
				if l == p.localPtr {
					fl = true
				}
			}
			for _, r := range v.remotes {
				if r == p.remotePtr {
					fr = true
				}
			}
			if !fl || !fr {
				addViol("C10/atomicity/pair-with-stale-candidate", "after the program pair %d references a candidate that is not current (local %v remote %v)", p.id, fl, fr)
			}
		}
		st.Record(vfHashStr(desc), mutators >= 2, "phase:"+phase, fmt.Sprintf("mutators:%d", min(mutators, 4)), fmt.Sprintf("continual-gathering:%v", continual))
		if mutators >= 2 && st.WantSample() {
			st.Sample(func() string { return desc })
		}
		violMu.Lock()
		defer violMu.Unlock()
		if len(viol) > 0 {
			st.Fail(rt, strings.SplitN(viol[0], " ", 2)[0], "%s\n%s", strings.Join(viol, "\n"), desc)
		}
		_ = net.IPv4zero
		_ = context.Background
	})
}

// c10InStart counts goroutines inside startConnectivityChecks that are parked (task-loop hand-off or the start mutex).
func c10InStart() int {
	buf := make([]byte, 1<<20)
	n := runtime.Stack(buf, true)
	c := 0
	for _, g := range strings.Split(string(buf[:n]), "\n\n") {
		if strings.Contains(g, "startConnectivityChecks") && (strings.Contains(g, "[select") || strings.Contains(g, "[sync.Mutex.Lock") || strings.Contains(g, "[semacquire")) {
			c++
		}
	}

	return c
}

// TestVerif_C10_StartRace: several StartDial/StartAccept calls at once (optionally queued on a held task loop
// so that they overlap for certain).  Starting is one whole operation: exactly one call succeeds, the others
// get ErrMultipleStart, and role and remote credentials are the winner's.
func TestVerif_C10_StartRace(t *testing.T) {
	st := vfNewStats(t)
	rapid.Check(t, func(rt *rapid.T) {
		n := rapid.IntRange(2, 4).Draw(rt, "startCalls")
		dial := make([]bool, n)
		for i := range dial {
			dial[i] = rapid.Bool().Draw(rt, "dial")
		}
		hold := rapid.IntRange(0, 2).Draw(rt, "holdLoop") != 0
		cfg := simAgentConfig{controlling: true, maxBinding: 7, disconnected: time.Hour, keepalive: 2 * time.Second, explicitTimeout: true}
		s, err := newSoloSim(cfg, []duoSockSpec{{Kind: simKindHost}}, []soloEpSpec{{Typ: CandidateTypeHost}})
		if err != nil {
			rt.Fatalf("harness: %v", err)
		}
		defer s.close()
		a := s.ag.a
		release := make(chan struct{})
		if hold {
			entered := make(chan struct{})
			go func() { _ = a.loop.Run(a.loop, func(context.Context) { close(entered); <-release }) }()
			<-entered
		}
		errs := make([]error, n)
		var wg sync.WaitGroup
		for i := 0; i < n; i++ {
			wg.Add(1)
			go func(i int) {
				defer wg.Done()
				u, p := fmt.Sprintf("remoteUfrag%dxxxxxx", i), fmt.Sprintf("remotePassword%dxxxxxxxxxxxxxxxx", i)
				if dial[i] {
					_, errs[i] = a.StartDial(u, p)
				} else {
					_, errs[i] = a.StartAccept(u, p)
				}
			}(i)
			if hold {
				for d := time.Now().Add(20 * time.Second); c10InStart() < i+1; {
					if time.Now().After(d) {
						close(release)
						st.Inconclusive()
						rt.Fatalf("VERIF-INCONCLUSIVE: start call %d did not reach the agent", i)
					}
					runtime.Gosched()
				}
			}
		}
		if hold {
			close(release)
		}
		done := make(chan struct{})
		go func() { wg.Wait(); close(done) }()
		select {
		case <-done:
		case <-time.After(20 * time.Second):
			dead, dump := vfStuck("pion/ice/v4.(*Agent)")
			if dead {
				st.Fail(rt, "C10/start/deadlock", "concurrent start calls never returned\n%s", dump)
			}
			st.Inconclusive()
			rt.Fatalf("VERIF-INCONCLUSIVE: start calls still running after 20 s")
		}
		desc := fmt.Sprintf("dial=%v heldLoop=%v results=%v", dial, hold, errs)
		winners := []int{}
		for i, e := range errs {
			switch {
			case e == nil:
				winners = append(winners, i)
			case errors.Is(e, ErrMultipleStart):
			default:
				st.Fail(rt, "C10/start/unexpected-error", "call %d: %v (%s)", i, e, desc)
			}
		}
		st.Record(vfHashStr(desc), hold, fmt.Sprintf("held-loop:%v", hold))
		if hold && st.WantSample() {
			st.Sample(func() string { return desc })
		}
		if len(winners) != 1 {
			st.Fail(rt, "C10/start/not-exactly-one-winner", "%d of %d concurrent start calls succeeded (%s)", len(winners), n, desc)

			return
		}
		w := winners[0]
		ru, rp, _ := a.GetRemoteUserCredentials()
		if ru != fmt.Sprintf("remoteUfrag%dxxxxxx", w) || rp != fmt.Sprintf("remotePassword%dxxxxxxxxxxxxxxxx", w) || a.isControlling.Load() != dial[w] {
			st.Fail(rt, "C10/start/state-not-the-winners", "winner is call %d (dial=%v) but remote credentials are (%s,%s) and controlling=%v (%s)", w, dial[w], ru, rp, a.isControlling.Load(), desc)
		}
	})
}
