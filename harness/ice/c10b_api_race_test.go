//go:build verif

package ice

// C10 (b) — the public API is thread-safe: concurrent programs over every public Agent/Conn method plus
// inbound traffic, under the race detector; snapshot atomicity of the getters.

import (
	"context"
	"errors"
	"fmt"
	"net"
	"runtime"
	"strings"
	"sync"
	"sync/atomic"
	"testing"
	"time"

	"github.com/pion/stun/v3"
	"pgregory.net/rapid"
)

var c10Methods = []string{
	"GetLocalUserCredentials", "GetRemoteUserCredentials", "GetLocalCandidates", "GetRemoteCandidates", "GetGatheringState",
	"GetSelectedCandidatePair", "GetCandidatePairsStats", "GetSelectedCandidatePairStats", "GetLocalCandidatesStats", "GetRemoteCandidatesStats",
	"AddRemoteCandidate", "SetRemoteCredentials", "Restart", "GatherCandidates", "UpdateOptions", "RenominateCandidate",
	"OnCandidate", "OnConnectionStateChange", "OnSelectedCandidatePairChange",
	"Conn.Write", "Conn.WriteToPair", "Conn.GetCandidatePairsInfo", "Conn.LocalAddr", "Conn.BytesSent", "Conn.SetReadDeadlineRead",
	"tick", "inboundRequest", "inboundData", "inboundAnswer", "inboundIndication", "inboundIndication",
}

var c10Mutating = map[string]bool{
	"AddRemoteCandidate": true, "SetRemoteCredentials": true, "Restart": true, "GatherCandidates": true, "UpdateOptions": true,
	"RenominateCandidate": true, "tick": true, "inboundRequest": true, "inboundAnswer": true,
}

func TestVerif_C10_APIHammer(t *testing.T) {
	st := vfNewStats(t)
	rapid.Check(t, func(rt *rapid.T) {
		phase := rapid.SampledFrom([]string{"new", "gathering", "checking", "connected", "connected"}).Draw(rt, "phase")
		nG := rapid.IntRange(2, 6).Draw(rt, "goroutines")
		progs := make([][]string, nG)
		mutators := 0
		for g := range progs {
			n := rapid.IntRange(1, 12).Draw(rt, "len")
			isMut := false
			for i := 0; i < n; i++ {
				m := rapid.SampledFrom(c10Methods).Draw(rt, "method")
				progs[g] = append(progs[g], m)
				if c10Mutating[m] {
					isMut = true
				}
			}
			if isMut {
				mutators++
			}
		}
		continual := rapid.IntRange(0, 3).Draw(rt, "continualGathering") == 0
		lite := rapid.IntRange(0, 3).Draw(rt, "liteControlled") == 0
		desc := fmt.Sprintf("phase=%s continual=%v lite=%v programs=%v", phase, continual, lite, progs)
		// world: FakeNet for gathering + a SimNet socket for inbound traffic and a scripted peer
		fn := newFakeNet([]fnIface{{Name: "eth0", Up: true, Addrs: []string{"10.0.0.1"}}})
		fn.stunServers["198.51.100.1:3478"] = "now"
		cfg := simAgentConfig{
			controlling: true, maxBinding: 7, disconnected: time.Hour, keepalive: 2 * time.Second, explicitTimeout: true, renomination: true,
			extra: []AgentOption{
				WithNet(fn), WithCandidateTypes([]CandidateType{CandidateTypeHost, CandidateTypeServerReflexive}),
				WithUrls([]*stun.URI{{Scheme: stun.SchemeTypeSTUN, Host: "198.51.100.1", Port: 3478, Proto: stun.ProtoTypeUDP}}),
				WithSTUNGatherTimeout(50 * time.Millisecond),
			},
		}
		if lite {
			// a lite agent in the controlled role (host candidates only)
			cfg.controlling, cfg.lite, cfg.renomination = false, true, false
			cfg.extra = []AgentOption{WithNet(fn), WithCandidateTypes([]CandidateType{CandidateTypeHost})} // (no URLs: host only)
		}
		withMux := !lite && rapid.IntRange(0, 3).Draw(rt, "udpMux") == 0
		if withMux {
			// host candidates through a UDP mux: the gatherers ask the mux for a connection by ufrag
			muxBase := newC12Base("10.0.0.1:7000")
			mux := NewUDPMuxDefault(UDPMuxParams{Logger: simLoggerFactory.NewLogger("mux"), UDPConn: muxBase})
			defer func() { _ = mux.Close() }()
			cfg.extra = append(cfg.extra, WithUDPMux(mux))
		}
		if continual {
			// continual gathering: a monitor goroutine watches the interface list and re-gathers
			cfg.extra = append(cfg.extra, WithContinualGatheringPolicy(GatherContinually), WithNetworkMonitorInterval(300*time.Microsecond))
		}
		hammerLocals := []duoSockSpec{{Kind: simKindHost}, {Kind: simKindRelayish}}
		if lite {
			hammerLocals[1].Kind = simKindHost
		}
		s, err := newSoloSim(cfg, hammerLocals, []soloEpSpec{{Typ: CandidateTypeHost}, {Typ: CandidateTypeRelay}, {Typ: CandidateTypeHost}})
		if err != nil {
			rt.Fatalf("harness: %v", err)
		}
		defer s.close()
		a := s.ag.a
		conn := &Conn{agent: a}
		_ = a.OnCandidate(func(Candidate) {})
		creds := [][2]string{{"ufragAAAAAAAAAAAAAA", "pwdAAAAAAAAAAAAAAAAAAAAAAAAAAAAAA"}, {"ufragBBBBBBBBBBBBBB", "pwdBBBBBBBBBBBBBBBBBBBBBBBBBBBBBB"}, {"ufragCCCCCCCCCCCCCC", "pwdCCCCCCCCCCCCCCCCCCCCCCCCCCCCCC"}}
		validPair := map[string]bool{}
		u0, p0, _ := a.GetLocalUserCredentials()
		validPair[u0+"/"+p0] = true
		for _, c := range creds {
			validPair[c[0]+"/"+c[1]] = true
		}
		switch phase {
		case "gathering":
			_ = a.GatherCandidates()
		case "checking", "connected":
			if err := s.ag.start(s.peer.ufrag, s.peer.pwd); err != nil {
				rt.Fatalf("harness: %v", err)
			}
			_ = s.ag.addRemoteSync(s.epCandidate(0, soloEpSpec{Typ: CandidateTypeHost}))
			_ = s.ag.addRemoteSync(s.epCandidate(1, soloEpSpec{Typ: CandidateTypeRelay}))
			s.ag.tick()
			if phase == "connected" {
				for _, d := range s.agentRequests() {
					if ep := s.epByAddr(d.dst); ep != nil {
						s.removeInflight(d)
						s.answer(d, ep)
					}
				}
				s.ag.tick()
				for _, d := range s.agentRequests() {
					if ep := s.epByAddr(d.dst); ep != nil && d.msg.useCand {
						s.removeInflight(d)
						s.answer(d, ep)
					}
				}
			}
		}
		var (
			violMu sync.Mutex
			viol   []string
			calls  atomic.Int32
			inMu   [4]sync.Mutex // one receive loop per socket in reality: inbound is serialised per socket
		)
		addViol := func(sig, format string, args ...any) {
			violMu.Lock()
			viol = append(viol, sig+" "+fmt.Sprintf(format, args...))
			violMu.Unlock()
		}
		run := func(g int, m string, k int) {
			calls.Add(1)
			switch m {
			case "GetLocalUserCredentials":
				u, p, err := a.GetLocalUserCredentials()
				if err == nil && !validPair[u+"/"+p] {
					addViol("C10/atomicity/local-credentials-torn", "GetLocalUserCredentials returned (%s,%s), a mix of two Restart calls", u, p)
				}
			case "GetRemoteUserCredentials":
				_, _, _ = a.GetRemoteUserCredentials()
			case "GetLocalCandidates":
				cs, _ := a.GetLocalCandidates()
				seen := map[string]bool{}
				for _, c := range cs {
					if e, ok := c.GetExtension("ufrag"); ok {
						seen[e.Value] = true
					}
				}
				if len(seen) > 1 {
					addViol("C10/atomicity/local-candidates-mixed-generations", "GetLocalCandidates returned candidates of generations %v", seen)
				}
			case "GetRemoteCandidates":
				_, _ = a.GetRemoteCandidates()
			case "GetGatheringState":
				_, _ = a.GetGatheringState()
			case "GetSelectedCandidatePair":
				if p, _ := a.GetSelectedCandidatePair(); p != nil {
					_ = p.String()
				}
			case "GetCandidatePairsStats":
				_ = a.GetCandidatePairsStats()
			case "GetSelectedCandidatePairStats":
				_, _ = a.GetSelectedCandidatePairStats()
			case "GetLocalCandidatesStats":
				_ = a.GetLocalCandidatesStats()
			case "GetRemoteCandidatesStats":
				_ = a.GetRemoteCandidatesStats()
			case "AddRemoteCandidate":
				_ = a.AddRemoteCandidate(s.epCandidate((g+k)%3, soloEpSpec{Typ: CandidateTypeHost}))
			case "SetRemoteCredentials":
				_ = a.SetRemoteCredentials(s.peer.ufrag, s.peer.pwd)
			case "Restart":
				c := creds[(g+k)%len(creds)]
				_ = a.Restart(c[0], c[1])
			case "GatherCandidates":
				_ = a.GatherCandidates()
			case "UpdateOptions":
				_ = a.UpdateOptions(WithUrls([]*stun.URI{{Scheme: stun.SchemeTypeSTUN, Host: "198.51.100.1", Port: 3478 + k%2, Proto: stun.ProtoTypeUDP}}))
			case "RenominateCandidate":
				lc, _ := a.GetLocalCandidates()
				rc, _ := a.GetRemoteCandidates()
				if len(lc) > 0 && len(rc) > 0 {
					_ = a.RenominateCandidate(lc[k%len(lc)], rc[k%len(rc)])
				}
			case "OnCandidate":
				_ = a.OnCandidate(func(Candidate) {})
			case "OnConnectionStateChange":
				_ = a.OnConnectionStateChange(func(ConnectionState) {})
			case "OnSelectedCandidatePairChange":
				_ = a.OnSelectedCandidatePairChange(func(Candidate, Candidate) {})
			case "Conn.Write":
				_, _ = conn.Write([]byte("application data"))
			case "Conn.WriteToPair":
				infos := conn.GetCandidatePairsInfo()
				if len(infos) > 0 {
					_, _ = conn.WriteToPair(infos[k%len(infos)].ID, []byte("application data"))
				}
			case "Conn.GetCandidatePairsInfo":
				_ = conn.GetCandidatePairsInfo()
			case "Conn.LocalAddr":
				_ = conn.LocalAddr()
				_ = conn.RemoteAddr()
			case "Conn.BytesSent":
				_ = conn.BytesSent() + conn.BytesReceived()
			case "Conn.SetReadDeadlineRead":
				_ = conn.SetReadDeadline(time.Now().Add(200 * time.Microsecond))
				_, _ = conn.Read(make([]byte, 2000))
			case "tick":
				s.ag.tick()
			case "inboundRequest":
				if len(s.ag.socks) > 0 {
					sk := s.ag.socks[k%len(s.ag.socks)]
					req := simBuildRequest(simReqOpts{username: s.ag.ufrag + ":" + s.peer.ufrag, key: s.ag.pwd, role: "controlled", tiebreaker: 5, priority: 77, fingerprint: true})
					if !sk.isClosed() && sk.cand != nil {
						inMu[sk.idx%4].Lock()
						simBase(sk.cand).handleInboundPacket(req.Raw, s.eps[k%len(s.eps)].pub)
						inMu[sk.idx%4].Unlock()
					}
				}
			case "inboundIndication":
				// a Binding indication (keepalive of other ICE stacks) from a signalled address
				if len(s.ag.socks) > 0 {
					sk := s.ag.socks[k%len(s.ag.socks)]
					ind, err := stun.Build(stun.TransactionID, stun.NewType(stun.MethodBinding, stun.ClassIndication), stun.Fingerprint)
					if err == nil && !sk.isClosed() && sk.cand != nil {
						inMu[sk.idx%4].Lock()
						simBase(sk.cand).handleInboundPacket(ind.Raw, s.eps[k%len(s.eps)].pub)
						inMu[sk.idx%4].Unlock()
					}
				}
			case "inboundData":
				if len(s.ag.socks) > 0 {
					sk := s.ag.socks[k%len(s.ag.socks)]
					if !sk.isClosed() && sk.cand != nil {
						inMu[sk.idx%4].Lock()
						simBase(sk.cand).handleInboundPacket([]byte{0x80, 1, 2, 3, 4, 5, 6, 7}, s.eps[0].pub)
						inMu[sk.idx%4].Unlock()
					}
				}
			case "inboundAnswer":
				for _, d := range s.agentRequests() {
					if ep := s.epByAddr(d.dst); ep != nil && !d.src.isClosed() && d.src.cand != nil {
						s.removeInflight(d)
						resp := simBuildSuccess(d.msg.txid, d.src.pub, s.peer.pwd, true)
						inMu[d.src.idx%4].Lock()
						simBase(d.src.cand).handleInboundPacket(resp.Raw, ep.pub)
						inMu[d.src.idx%4].Unlock()

						break
					}
				}
			}
		}
		var wg sync.WaitGroup
		for g := range progs {
			wg.Add(1)
			go func(g int) {
				defer wg.Done()
				for k, m := range progs[g] {
					run(g, m, k)
				}
			}(g)
		}
		done := make(chan struct{})
		go func() { wg.Wait(); close(done) }()
		select {
		case <-done:
		case <-time.After(30 * time.Second):
			dead, dump := vfStuck("pion/ice/v4.(*Agent)")
			if dead {
				st.Fail(rt, "C10/api/deadlock", "concurrent API program never finished\n%s\n%s", desc, dump)
			}
			st.Inconclusive()
			rt.Fatalf("VERIF-INCONCLUSIVE: program still running after 30 s\n%s", desc)
		}
		// quiescence: every listed pair is formed from current candidates
		waitNoAddRemoteGoroutine()
		v := c06Take(a)
		for _, p := range v.pairs {
			fl, fr := false, false
			for _, l := range v.locals {
				if l == p.localPtr {
					fl = true
				}
			}
			for _, r := range v.remotes {
				if r == p.remotePtr {
					fr = true
				}
			}
			if !fl || !fr {
				addViol("C10/atomicity/pair-with-stale-candidate", "after the program pair %d references a candidate that is not current (local %v remote %v)", p.id, fl, fr)
			}
		}
		st.Record(vfHashStr(desc), mutators >= 2, "phase:"+phase, fmt.Sprintf("mutators:%d", min(mutators, 4)), fmt.Sprintf("continual-gathering:%v", continual), fmt.Sprintf("lite:%v", lite), fmt.Sprintf("udp-mux:%v", withMux))
		if mutators >= 2 && st.WantSample() {
			st.Sample(func() string { return desc })
		}
		violMu.Lock()
		defer violMu.Unlock()
		if len(viol) > 0 {
			st.Fail(rt, strings.SplitN(viol[0], " ", 2)[0], "%s\n%s", strings.Join(viol, "\n"), desc)
		}
		_ = net.IPv4zero
		_ = context.Background
	})
}

// c10InStart counts goroutines inside startConnectivityChecks that are parked (task-loop hand-off or the start mutex).
func c10InStart() int {
	buf := make([]byte, 1<<20)
	n := runtime.Stack(buf, true)
	c := 0
	for _, g := range strings.Split(string(buf[:n]), "\n\n") {
		if strings.Contains(g, "startConnectivityChecks") && (strings.Contains(g, "[select") || strings.Contains(g, "[sync.Mutex.Lock") || strings.Contains(g, "[semacquire")) {
			c++
		}
	}

	return c
}

// TestVerif_C10_StartRace: several StartDial/StartAccept calls at once (optionally queued on a held task loop
// so that they overlap for certain).  Starting is one whole operation: exactly one call succeeds, the others
// get ErrMultipleStart, and role and remote credentials are the winner's.
func TestVerif_C10_StartRace(t *testing.T) {
	st := vfNewStats(t)
	rapid.Check(t, func(rt *rapid.T) {
		n := rapid.IntRange(2, 4).Draw(rt, "startCalls")
		dial := make([]bool, n)
		for i := range dial {
			dial[i] = rapid.Bool().Draw(rt, "dial")
		}
		hold := rapid.IntRange(0, 2).Draw(rt, "holdLoop") != 0
		cfg := simAgentConfig{controlling: true, maxBinding: 7, disconnected: time.Hour, keepalive: 2 * time.Second, explicitTimeout: true}
		s, err := newSoloSim(cfg, []duoSockSpec{{Kind: simKindHost}}, []soloEpSpec{{Typ: CandidateTypeHost}})
		if err != nil {
			rt.Fatalf("harness: %v", err)
		}
		defer s.close()
		a := s.ag.a
		release := make(chan struct{})
		if hold {
			entered := make(chan struct{})
			go func() { _ = a.loop.Run(a.loop, func(context.Context) { close(entered); <-release }) }()
			<-entered
		}
		errs := make([]error, n)
		var wg sync.WaitGroup
		for i := 0; i < n; i++ {
			wg.Add(1)
			go func(i int) {
				defer wg.Done()
				u, p := fmt.Sprintf("remoteUfrag%dxxxxxx", i), fmt.Sprintf("remotePassword%dxxxxxxxxxxxxxxxx", i)
				if dial[i] {
					_, errs[i] = a.StartDial(u, p)
				} else {
					_, errs[i] = a.StartAccept(u, p)
				}
			}(i)
			if hold {
				for d := time.Now().Add(20 * time.Second); c10InStart() < i+1; {
					if time.Now().After(d) {
						close(release)
						st.Inconclusive()
						rt.Fatalf("VERIF-INCONCLUSIVE: start call %d did not reach the agent", i)
					}
					runtime.Gosched()
				}
			}
		}
		if hold {
			close(release)
		}
		done := make(chan struct{})
		go func() { wg.Wait(); close(done) }()
		select {
		case <-done:
		case <-time.After(20 * time.Second):
			dead, dump := vfStuck("pion/ice/v4.(*Agent)")
			if dead {
				st.Fail(rt, "C10/start/deadlock", "concurrent start calls never returned\n%s", dump)
			}
			st.Inconclusive()
			rt.Fatalf("VERIF-INCONCLUSIVE: start calls still running after 20 s")
		}
		desc := fmt.Sprintf("dial=%v heldLoop=%v results=%v", dial, hold, errs)
		winners := []int{}
		for i, e := range errs {
			switch {
			case e == nil:
				winners = append(winners, i)
			case errors.Is(e, ErrMultipleStart):
			default:
				st.Fail(rt, "C10/start/unexpected-error", "call %d: %v (%s)", i, e, desc)
			}
		}
		st.Record(vfHashStr(desc), hold, fmt.Sprintf("held-loop:%v", hold))
		if hold && st.WantSample() {
			st.Sample(func() string { return desc })
		}
		if len(winners) != 1 {
			st.Fail(rt, "C10/start/not-exactly-one-winner", "%d of %d concurrent start calls succeeded (%s)", len(winners), n, desc)

			return
		}
		w := winners[0]
		ru, rp, _ := a.GetRemoteUserCredentials()
		if ru != fmt.Sprintf("remoteUfrag%dxxxxxx", w) || rp != fmt.Sprintf("remotePassword%dxxxxxxxxxxxxxxxx", w) || a.isControlling.Load() != dial[w] {
			st.Fail(rt, "C10/start/state-not-the-winners", "winner is call %d (dial=%v) but remote credentials are (%s,%s) and controlling=%v (%s)", w, dial[w], ru, rp, a.isControlling.Load(), desc)
		}
	})
}

// TestVerif_C10_GetterSnapshots: what a getter returned belongs to the caller — later operations of the agent
// never rewrite it ("each call observes a state produced by whole preceding operations", and keeps observing
// exactly that state).
func TestVerif_C10_GetterSnapshots(t *testing.T) {
	st := vfNewStats(t)
	rapid.Check(t, func(rt *rapid.T) {
		cfg := simAgentConfig{controlling: rapid.Bool().Draw(rt, "controlling"), maxBinding: 7, disconnected: time.Hour, keepalive: 2 * time.Second, explicitTimeout: true}
		v6 := rapid.Bool().Draw(rt, "alsoV6")
		locals := []duoSockSpec{{Kind: simKindHost}, {Kind: simKindSrflx}}
		eps := []soloEpSpec{{Typ: CandidateTypeHost}, {Typ: CandidateTypeHost}, {Typ: CandidateTypeRelay}}
		if v6 {
			locals = append(locals, duoSockSpec{V6: true, Kind: simKindHost})
			eps = append(eps, soloEpSpec{V6: true, Typ: CandidateTypeHost})
		}
		s, err := newSoloSim(cfg, locals, eps)
		if err != nil {
			rt.Fatalf("harness: %v", err)
		}
		defer s.close()
		if err := s.ag.start(s.peer.ufrag, s.peer.pwd); err != nil {
			rt.Fatalf("harness: %v", err)
		}
		a := s.ag.a
		conn := &Conn{agent: a}
		peerRole := "controlled"
		if !cfg.controlling {
			peerRole = "controlling"
		}
		type snap struct {
			what   string
			at     int
			cands  []Candidate // the slice as returned
			copyC  []Candidate
			stats  []CandidatePairStats
			copyS  []CandidatePairStats
			infos  []CandidatePairInfo
			copyI  []CandidatePairInfo
		}
		var snaps []snap
		take := func(step int) {
			switch rapid.IntRange(0, 4).Draw(rt, "getter") {
			case 0:
				c, _ := a.GetRemoteCandidates()
				snaps = append(snaps, snap{what: "GetRemoteCandidates", at: step, cands: c, copyC: append([]Candidate{}, c...)})
			case 1:
				c, _ := a.GetLocalCandidates()
				snaps = append(snaps, snap{what: "GetLocalCandidates", at: step, cands: c, copyC: append([]Candidate{}, c...)})
			case 2:
				x := a.GetCandidatePairsStats()
				snaps = append(snaps, snap{what: "GetCandidatePairsStats", at: step, stats: x, copyS: append([]CandidatePairStats{}, x...)})
			case 3:
				x := conn.GetCandidatePairsInfo()
				snaps = append(snaps, snap{what: "Conn.GetCandidatePairsInfo", at: step, infos: x, copyI: append([]CandidatePairInfo{}, x...)})
			case 4:
				c, _ := a.GetRemoteCandidates()
				// the caller may also reorder what it got: that must not reach the agent
				if len(c) >= 2 {
					c[0], c[len(c)-1] = c[len(c)-1], c[0]
				}
			}
		}
		superseded := false
		nOps := rapid.IntRange(2, 25).Draw(rt, "nOps")
		for i := 0; i < nOps; i++ {
			op := rapid.SampledFrom([]string{"snapshot", "snapshot", "inboundRequest", "inboundRequest", "signal", "signal", "tick", "answer", "restart"}).Draw(rt, "op")
			s.purgeNonRequests()
			switch op {
			case "snapshot":
				take(i)
			case "inboundRequest":
				ep := s.eps[rapid.IntRange(0, len(s.eps)-1).Draw(rt, "ep")]
				to := s.ag.socks[rapid.IntRange(0, len(s.ag.socks)-1).Draw(rt, "to")]
				if ep.priv.Addr().Is4() == to.priv.Addr().Is4() {
					s.peerRequest(ep, to, false, nil, 1, peerRole, 77)
				}
			case "signal":
				ei := rapid.IntRange(0, len(s.eps)-1).Draw(rt, "ep")
				rc, _ := a.GetRemoteCandidates()
				for _, r := range rc {
					if r.Type() == CandidateTypePeerReflexive && r.addrPort() == s.eps[ei].pub {
						superseded = true
					}
				}
				_ = s.ag.addRemoteSync(s.epCandidate(ei, eps[ei]))
			case "tick":
				s.ag.tick()
			case "answer":
				for _, d := range s.agentRequests() {
					s.removeInflight(d)
					if ep := s.epByAddr(d.dst); ep != nil && !d.src.isClosed() {
						s.answer(d, ep)
					}
				}
			case "restart":
				if rapid.IntRange(0, 3).Draw(rt, "really") != 0 {
					continue
				}
				if err := s.ag.restart(); err != nil {
					rt.Fatalf("harness: %v", err)
				}
				for k, l := range locals {
					if _, err := s.ag.addLocal(k, l.V6, l.Kind, true); err != nil {
						rt.Fatalf("harness: %v", err)
					}
				}
				_ = a.SetRemoteCredentials(s.peer.ufrag, s.peer.pwd)
			}
			// every snapshot taken so far still shows what it showed when it was taken
			for _, sn := range snaps {
				for k := range sn.copyC {
					if sn.cands[k] != sn.copyC[k] {
						st.Fail(rt, "C10/atomicity/returned-slice-rewritten", "the slice returned by %s at step %d was rewritten by step %d (%s): element %d was %s, is now %s",
							sn.what, sn.at, i, op, k, sn.copyC[k], sn.cands[k])
					}
				}
				for k := range sn.copyS {
					if sn.stats[k].LocalCandidateID != sn.copyS[k].LocalCandidateID || sn.stats[k].RemoteCandidateID != sn.copyS[k].RemoteCandidateID || sn.stats[k].State != sn.copyS[k].State {
						st.Fail(rt, "C10/atomicity/returned-slice-rewritten", "the stats returned by %s at step %d were rewritten by step %d (%s)", sn.what, sn.at, i, op)
					}
				}
				for k := range sn.copyI {
					if sn.infos[k] != sn.copyI[k] {
						st.Fail(rt, "C10/atomicity/returned-slice-rewritten", "the infos returned by %s at step %d were rewritten by step %d (%s)", sn.what, sn.at, i, op)
					}
				}
			}
		}
		// the agent's own view is still well formed after callers reordered what they got (C06 invariant subset)
		v := c06Take(a)
		for i, r := range v.remotes {
			for j := 0; j < i; j++ {
				if v.remotes[j] == r {
					st.Fail(rt, "C10/atomicity/caller-reordering-reached-the-agent", "remote candidate %s is listed twice inside the agent after a caller permuted the slice it was given", r)
				}
			}
		}
		st.Record(vfHash(len(snaps), nOps, superseded), superseded && len(snaps) > 0, fmt.Sprintf("prflx-superseded:%v", superseded))
		if superseded && len(snaps) > 0 && st.WantSample() {
			st.Sample(func() string { return fmt.Sprintf("%d snapshots over %d steps, a peer-reflexive candidate was superseded in between", len(snaps), nOps) })
		}
	})
}
