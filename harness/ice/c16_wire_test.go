//go:build verif

package ice

// C16 — candidate and attribute wire formats round-trip; equality is lawful.

import (
	"net/netip"
	"bytes"
	"fmt"
	"reflect"
	"strings"
	"testing"

	"github.com/pion/stun/v3"
	"pgregory.net/rapid"
)

type c16Spec struct {
	Typ        CandidateType
	Network    string
	Addr       string
	Port       int
	Comp       uint16
	Prio       uint32
	Foundation string
	TCP        TCPType
	RelAddr    string
	ReadBetween int // bit i: Marshal/Priority/Extensions are read before extension i is added
	RelPort    int
	RelayProto string
	Exts       []CandidateExtension
}

func (s c16Spec) String() string {
	return fmt.Sprintf("{typ=%s net=%s addr=%s port=%d comp=%d prio=%d found=%q tcp=%q rel=%q:%d rproto=%q exts=%q}",
		s.Typ, s.Network, s.Addr, s.Port, s.Comp, s.Prio, s.Foundation, s.TCP.String(), s.RelAddr, s.RelPort, s.RelayProto, s.Exts) + fmt.Sprintf(" readBetween=%b", s.ReadBetween)
}

func c16Build(s c16Spec) (Candidate, error) {
	var (
		c   Candidate
		err error
	)
	switch s.Typ {
	case CandidateTypeHost:
		c, err = NewCandidateHost(&CandidateHostConfig{
			Network: s.Network, Address: s.Addr, Port: s.Port, Component: s.Comp, Priority: s.Prio,
			Foundation: s.Foundation, TCPType: s.TCP,
		})
	case CandidateTypeServerReflexive:
		c, err = NewCandidateServerReflexive(&CandidateServerReflexiveConfig{
			Network: s.Network, Address: s.Addr, Port: s.Port, Component: s.Comp, Priority: s.Prio,
			Foundation: s.Foundation, RelAddr: s.RelAddr, RelPort: s.RelPort,
		})
	case CandidateTypePeerReflexive:
		c, err = NewCandidatePeerReflexive(&CandidatePeerReflexiveConfig{
			Network: s.Network, Address: s.Addr, Port: s.Port, Component: s.Comp, Priority: s.Prio,
			Foundation: s.Foundation, RelAddr: s.RelAddr, RelPort: s.RelPort,
		})
	case CandidateTypeRelay:
		c, err = NewCandidateRelay(&CandidateRelayConfig{
			Network: s.Network, Address: s.Addr, Port: s.Port, Component: s.Comp, Priority: s.Prio,
			Foundation: s.Foundation, RelAddr: s.RelAddr, RelPort: s.RelPort, RelayProtocol: s.RelayProto,
		})
	default:
		return nil, fmt.Errorf("bad type") //nolint:err113
	}
	if err != nil {
		return nil, err
	}
	for i, e := range s.Exts {
		// the application may look at a candidate at any time: getters between the mutations must not
		// influence what the candidate says afterwards
		if s.ReadBetween&(1<<i) != 0 {
			_, _, _ = c.Marshal(), c.Priority(), c.Extensions()
		}
		if err := c.AddExtension(e); err != nil {
			return nil, err
		}
	}

	return c, nil
}

const (
	c16TokASCII   = "ascii"
	c16TokLatin1  = "latin1"
	c16TokControl = "control"
	c16TokHigh    = "rune>U+00FF"
	c16TokRaw     = "non-utf8-bytes"
)

// c16Token draws a grammar-valid byte-string (RFC 4566: any byte except NUL, CR, LF) without spaces.
func c16Token(allowEmpty bool) *rapid.Generator[string] {
	return rapid.Custom(func(t *rapid.T) string {
		class := rapid.SampledFrom([]string{
			c16TokASCII, c16TokASCII, c16TokASCII, c16TokASCII, c16TokLatin1, c16TokControl, c16TokHigh, c16TokRaw,
		}).Draw(t, "class")
		minLen := 1
		if allowEmpty && rapid.IntRange(0, 7).Draw(t, "empty") == 0 {
			return ""
		}
		n := rapid.IntRange(minLen, 8).Draw(t, "n")
		var sb strings.Builder
		for i := 0; i < n; i++ {
			switch class {
			case c16TokASCII:
				sb.WriteByte(byte(rapid.IntRange(0x21, 0x7e).Draw(t, "b")))
			case c16TokLatin1:
				if rapid.Bool().Draw(t, "mix") {
					sb.WriteByte(byte(rapid.IntRange(0x21, 0x7e).Draw(t, "b")))
				} else {
					sb.WriteRune(rune(rapid.IntRange(0xa1, 0xff).Draw(t, "r")))
				}
			case c16TokControl:
				b := rapid.SampledFrom([]byte{1, 2, 8, 9, 0x0b, 0x0c, 0x0e, 0x1f, 0x7f, 'a'}).Draw(t, "b")
				sb.WriteByte(b)
			case c16TokHigh:
				sb.WriteRune(rapid.SampledFrom([]rune{0x100, 0x20ac, 0x4e2d, 0x1f600, 'x', 0xfffd}).Draw(t, "r"))
			case c16TokRaw:
				sb.WriteByte(byte(rapid.IntRange(0x80, 0xff).Draw(t, "b")))
			}
		}

		return sb.String()
	})
}

func c16TokClass(s string) string {
	cls := c16TokASCII
	for i := 0; i < len(s); {
		b := s[i]
		if b < 0x80 {
			if b < 0x20 || b == 0x7f {
				if cls == c16TokASCII {
					cls = c16TokControl
				}
			}
			i++

			continue
		}
		r, size := rune(0xfffd), 1
		for _, rr := range s[i:] {
			r = rr
			size = len(string(rr))

			break
		}
		if r == 0xfffd && !strings.HasPrefix(s[i:], "\xef\xbf\xbd") {
			return c16TokRaw
		}
		if r > 0xff {
			return c16TokHigh
		}
		cls = c16TokLatin1
		i += size
	}

	return cls
}

var (
	c16Addr4      = []string{"10.0.0.1", "192.168.0.196", "0.0.0.0", "255.255.255.255", "203.0.113.77", "127.0.0.1"}
	c16Addr6      = []string{"2001:db8::1", "fcd9:e3b8:12ce:9fc5:74a5:c6bb:d8b:e08a", "::1", "::", "fe80::1", "2001:DB8:0:0::1"}
	c16AddrMapped = []string{"::ffff:10.0.0.1", "::ffff:192.168.1.1"}
	c16AddrMDNS   = []string{"e2494022-4d9a-4c1e-a750-cc48d4f8d6ee.local", "x.local", "redacted-ip.invalid"}
	c16Networks   = []string{"udp", "tcp", "udp4", "udp6", "tcp4", "tcp6", "UDP", "TCP"}
	c16ExtKeys    = []string{"generation", "ufrag", "network-id", "network-cost", "x"}
)

func c16SpecGen() *rapid.Generator[c16Spec] {
	iceChars := []rune("ABCXYZabcxyz0123456789+/")

	return rapid.Custom(func(t *rapid.T) c16Spec {
		s := c16Spec{}
		s.Typ = rapid.SampledFrom(c17Types).Draw(t, "type")
		s.Network = rapid.SampledFrom(c16Networks).Draw(t, "network")
		pools := [][]string{c16Addr4, c16Addr6, c16AddrMapped}
		if s.Typ == CandidateTypeHost {
			pools = append(pools, c16AddrMDNS)
		}
		s.Addr = rapid.SampledFrom(pools[rapid.IntRange(0, len(pools)-1).Draw(t, "addrClass")]).Draw(t, "addr")
		s.Port = rapid.OneOf(rapid.SampledFrom([]int{0, 1, 9, 80, 65535}), rapid.IntRange(0, 65535)).Draw(t, "port")
		s.Comp = rapid.OneOf(rapid.SampledFrom([]uint16{1, 2, 256, 0, 65535}), rapid.Uint16()).Draw(t, "comp")
		s.Prio = rapid.OneOf(rapid.Just(uint32(0)), rapid.SampledFrom([]uint32{1, 1<<31 - 1, 1 << 31, 1<<32 - 1}), rapid.Uint32()).Draw(t, "prio")
		if rapid.Bool().Draw(t, "explicitFoundation") {
			s.Foundation = rapid.StringOfN(rapid.SampledFrom(iceChars), 1, 32, -1).Draw(t, "foundation")
		}
		if s.Typ == CandidateTypeHost {
			s.TCP = rapid.SampledFrom(c17TCP).Draw(t, "tcp")
		} else {
			switch rapid.IntRange(0, 5).Draw(t, "relForm") {
			case 0: // none / empty
			case 5: // a related port without a related address
				s.RelAddr, s.RelPort = "", rapid.IntRange(1, 65535).Draw(t, "rp")
			case 1:
				s.RelAddr, s.RelPort = "0.0.0.0", 0
			case 2:
				s.RelAddr, s.RelPort = rapid.SampledFrom(c16Addr4).Draw(t, "ra"), 0
			case 3:
				s.RelAddr, s.RelPort = rapid.SampledFrom(c16Addr4).Draw(t, "ra"), rapid.IntRange(1, 65535).Draw(t, "rp")
			case 4:
				// (IPv6 related addresses also with a zone: the related address is carried verbatim)
				s.RelAddr, s.RelPort = rapid.SampledFrom(append(append([]string{}, c16Addr6...), "fe80::1%eth0", "fe80::a:b%wlan0")).Draw(t, "ra"), rapid.IntRange(1, 65535).Draw(t, "rp")
			}
			if s.Typ == CandidateTypeRelay {
				s.RelayProto = rapid.SampledFrom([]string{"", "udp", "tcp", "dtls", "tls"}).Draw(t, "rproto")
			}
		}
		nExt := rapid.IntRange(0, 4).Draw(t, "nExt")
		if rapid.IntRange(0, 2).Draw(t, "gettersBetweenMutations") == 0 {
			s.ReadBetween = rapid.IntRange(1, 15).Draw(t, "readBefore")
		}
		for i := 0; i < nExt; i++ {
			var key string
			switch rapid.IntRange(0, 5).Draw(t, "keyForm") {
			case 0, 1, 2:
				key = rapid.SampledFrom(c16ExtKeys).Draw(t, "key")
			case 3:
				key = "tcptype" // (the only public way to give a reflexive or relay candidate a TCP type)
			default:
				key = c16Token(false).Draw(t, "keyTok")
			}
			val := c16Token(true).Draw(t, "val")
			if key == "tcptype" {
				val = rapid.SampledFrom([]string{"active", "passive", "so", "ACTIVE"}).Draw(t, "tcpval")
			}
			s.Exts = append(s.Exts, CandidateExtension{Key: key, Value: val})
		}

		return s
	})
}

type c16Getters struct {
	Foundation string
	Component  uint16
	Net        NetworkType
	Priority   uint32
	Address    string
	Port       int
	Type       CandidateType
	Rel        string
	TCP        TCPType
	Exts       []CandidateExtension
	Marshal    string
}

func c16Get(c Candidate) c16Getters {
	rel := "<nil>"
	if r := c.RelatedAddress(); r != nil {
		rel = fmt.Sprintf("%s|%d", r.Address, r.Port)
	}

	return c16Getters{
		c.Foundation(), c.Component(), c.NetworkType(), c.Priority(), c.Address(), c.Port(), c.Type(), rel,
		c.TCPType(), append([]CandidateExtension{}, c.Extensions()...), c.Marshal(),
	}
}

func c16Diff(a, b c16Getters) string {
	va, vb := reflect.ValueOf(a), reflect.ValueOf(b)
	var out []string
	for i := 0; i < va.NumField(); i++ {
		if !reflect.DeepEqual(va.Field(i).Interface(), vb.Field(i).Interface()) {
			out = append(out, fmt.Sprintf("%s: %q vs %q", va.Type().Field(i).Name, fmt.Sprint(va.Field(i).Interface()), fmt.Sprint(vb.Field(i).Interface())))
		}
	}

	return strings.Join(out, "; ")
}

// c16CheckPair asserts the round-trip relations between a candidate c and the parse p of c.Marshal().
// classify gives the root-cause class for signature purposes.
func c16CheckPair(st *vfStats, t vfFataler, what string, c, p Candidate, desc string) {
	rel := c.RelatedAddress()
	relPortZero := rel != nil && rel.Address != "" && rel.Port == 0
	relEmptyAddr := rel != nil && rel.Address == "" && rel.Port != 0
	hasTCP := c.TCPType() != TCPTypeUnspecified
	suffix := ""
	switch {
	case relPortZero:
		suffix = "/related-port-0"
	case relEmptyAddr:
		suffix = "/related-empty-address"
	}
	if !c.Equal(p) {
		st.Fail(t, "C16/"+what+"/equal"+suffix, "c.Equal(parse(c.Marshal())) is false: %s marshal=%q reparsed=%q", desc, c.Marshal(), p.Marshal())
	}
	if !p.Equal(c) {
		st.Fail(t, "C16/"+what+"/equal-reverse"+suffix, "parse(c.Marshal()).Equal(c) is false: %s marshal=%q", desc, c.Marshal())
	}
	dsuffix := suffix
	if suffix == "" && hasTCP {
		dsuffix = "/tcptype"
	}
	if !c.DeepEqual(p) {
		st.Fail(t, "C16/"+what+"/deepequal"+dsuffix, "c.DeepEqual(parse(c.Marshal())) is false: %s marshal=%q", desc, c.Marshal())
	}
	if !p.DeepEqual(c) {
		st.Fail(t, "C16/"+what+"/deepequal-reverse"+dsuffix, "parse(c.Marshal()).DeepEqual(c) is false: %s marshal=%q", desc, c.Marshal())
	}
	gc, gp := c16Get(c), c16Get(p)
	if d := c16Diff(gc, gp); d != "" {
		st.Fail(t, "C16/"+what+"/getters"+suffix, "getters differ after round trip: %s — %s", d, desc)
	}
	for _, e := range c.Extensions() {
		ec, okc := c.GetExtension(e.Key)
		ep, okp := p.GetExtension(e.Key)
		if okc != okp || ec != ep {
			st.Fail(t, "C16/"+what+"/getextension", "GetExtension(%q): %v,%v vs %v,%v — %s", e.Key, ec, okc, ep, okp, desc)
		}
	}
}

func c16Reflexive(st *vfStats, t vfFataler, c Candidate, desc string) {
	if !c.Equal(c) {
		st.Fail(t, "C16/equality/equal-not-reflexive", "c.Equal(c) false: %s", desc)
	}
	if !c.DeepEqual(c) {
		sig := "C16/equality/deepequal-not-reflexive"
		if c.TCPType() != TCPTypeUnspecified {
			sig += "/tcptype"
		}
		st.Fail(t, sig, "c.DeepEqual(c) false: %s", desc)
	}
}

func TestVerif_C16_RoundTripConstructed(t *testing.T) {
	st := vfNewStats(t)
	gen := c16SpecGen()
	rapid.Check(t, func(rt *rapid.T) {
		s := gen.Draw(rt, "spec")
		// grammar ambiguity, not a defect: an extension named "raddr" directly after the type is read as rel-addr.
		for _, e := range s.Exts {
			if e.Key == "raddr" {
				st.Exclude("ext-key-raddr-ambiguous-grammar")

				return
			}
		}
		c, err := c16Build(s)
		if err != nil {
			rt.Fatalf("harness: constructor rejected a spec from the stated domain: %v %v", err, s)
		}
		labels := []string{"type:" + s.Typ.String()}
		tokClass := c16TokASCII
		for _, e := range s.Exts {
			for _, tok := range []string{e.Key, e.Value} {
				if k := c16TokClass(tok); k != c16TokASCII {
					tokClass = k
				}
			}
		}
		labels = append(labels, "tok:"+tokClass)
		nontrivial := c.TCPType() != TCPTypeUnspecified || len(s.Exts) > 0 || s.RelAddr != "" || !strings.Contains(s.Addr, ".") || strings.Contains(s.Addr, ":")
		if s.RelAddr != "" && s.RelPort == 0 {
			labels = append(labels, "rel:port0")
		}
		st.Record(vfHashStr(s.String()), nontrivial, labels...)
		if nontrivial && st.WantSample() {
			st.Sample(func() string { return s.String() + " => " + c.Marshal() })
		}
		if c.Priority() == 0 {
			// priority 0 is not a valid ICE priority and 0 means "compute" to the constructors
			st.Exclude("computed-priority-0")

			return
		}
		c16Reflexive(st, rt, c, s.String())
		text := c.Marshal()
		p, err := UnmarshalCandidate(text)
		if err != nil {
			sig := "C16/roundtrip/parse-rejects-own-marshal"
			if tokClass == c16TokHigh || tokClass == c16TokRaw {
				sig += "/byte-string-above-U+00FF"
			}
			st.Fail(rt, sig, "UnmarshalCandidate(%q): %v — %s", text, err, s)

			return
		}
		c16CheckPair(st, rt, "roundtrip", c, p, s.String())
		c16Reflexive(st, rt, p, s.String())
		// "candidate:" prefixed form parses to the same thing
		p2, err := UnmarshalCandidate("candidate:" + text)
		if err != nil || !p2.Equal(p) {
			st.Fail(rt, "C16/roundtrip/candidate-prefix", "prefixed form differs: %v — %s", err, s)
		}
	})
}

// Equality laws on random (near-identical) pairs.
func TestVerif_C16_EqualityLaws(t *testing.T) {
	st := vfNewStats(t)
	gen := c16SpecGen()
	rapid.Check(t, func(rt *rapid.T) {
		x := gen.Draw(rt, "x")
		var y c16Spec
		mut := rapid.IntRange(0, 12).Draw(rt, "mut")
		if mut == 0 {
			y = gen.Draw(rt, "y")
		} else {
			y = x
			y.Exts = append([]CandidateExtension{}, x.Exts...)
			switch mut {
			case 1:
				y.Port = rapid.IntRange(0, 65535).Draw(rt, "port")
			case 2:
				y.Addr = rapid.SampledFrom(c16Addr4).Draw(rt, "addr")
			case 3:
				y.TCP = rapid.SampledFrom(c17TCP).Draw(rt, "tcp")
				y.Typ, x.Typ = CandidateTypeHost, CandidateTypeHost
				x.RelAddr, x.RelPort, y.RelAddr, y.RelPort = "", 0, "", 0
			case 4:
				y.RelPort = rapid.IntRange(0, 65535).Draw(rt, "rp")
			case 5:
				y.RelAddr = rapid.SampledFrom(c16Addr4).Draw(rt, "ra")
			case 6:
				if len(y.Exts) > 0 {
					y.Exts = y.Exts[:len(y.Exts)-1]
				}
			case 7:
				y.Exts = append(y.Exts, CandidateExtension{Key: "extra", Value: "1"})
			case 8:
				if len(y.Exts) > 1 {
					y.Exts[0], y.Exts[len(y.Exts)-1] = y.Exts[len(y.Exts)-1], y.Exts[0]
				}
			case 9:
				if len(y.Exts) > 0 {
					i := rapid.IntRange(0, len(y.Exts)-1).Draw(rt, "i")
					if y.Exts[i].Key != "tcptype" {
						y.Exts[i].Value += "x"
					}
				}
			case 10:
				y.Network = rapid.SampledFrom(c16Networks).Draw(rt, "network")
			case 11:
				y.Comp, y.Prio, y.Foundation = y.Comp+1, y.Prio+1, "F"
			case 12: // identical
			}
		}
		for _, s := range []c16Spec{x, y} {
			for _, e := range s.Exts {
				if e.Key == "raddr" {
					return
				}
			}
		}
		if x.Typ != CandidateTypeHost {
			x.TCP = TCPTypeUnspecified
		}
		if y.Typ != CandidateTypeHost {
			y.TCP = TCPTypeUnspecified
		}
		cx, err := c16Build(x)
		if err != nil {
			rt.Fatalf("harness: %v %v", err, x)
		}
		cy, err := c16Build(y)
		if err != nil {
			rt.Fatalf("harness: %v %v", err, y)
		}
		exy, eyx := cx.Equal(cy), cy.Equal(cx)
		dxy, dyx := cx.DeepEqual(cy), cy.DeepEqual(cx)
		st.Record(vfHashStr(x.String()+"|"+y.String()), mut != 0, fmt.Sprintf("equal:%v", exy), fmt.Sprintf("deepequal:%v", dxy), fmt.Sprintf("mut:%d", mut))
		if mut != 0 && st.WantSample() {
			st.Sample(func() string { return fmt.Sprintf("mut=%d x=%s y=%s Equal=%v DeepEqual=%v", mut, x, y, exy, dxy) })
		}
		desc := fmt.Sprintf("x=%s y=%s", x, y)
		c16Reflexive(st, rt, cx, desc)
		c16Reflexive(st, rt, cy, desc)
		if exy != eyx {
			st.Fail(rt, "C16/equality/equal-not-symmetric", "x.Equal(y)=%v y.Equal(x)=%v %s", exy, eyx, desc)
		}
		if dxy != dyx {
			sig := "C16/equality/deepequal-not-symmetric"
			if cx.TCPType() != TCPTypeUnspecified || cy.TCPType() != TCPTypeUnspecified {
				sig += "/tcptype"
			}
			st.Fail(rt, sig, "x.DeepEqual(y)=%v y.DeepEqual(x)=%v %s", dxy, dyx, desc)
		}
		if dxy && !exy {
			st.Fail(rt, "C16/equality/deepequal-without-equal", "%s", desc)
		}
		// equality must follow the observable identity: reference computed from the getters
		// (one IP address written in two ways — IPv6 text forms, IPv4-mapped — is one address: D23)
		sameAddr := cx.Address() == cy.Address()
		if ax, errx := netip.ParseAddr(cx.Address()); errx == nil {
			if ay, erry := netip.ParseAddr(cy.Address()); erry == nil {
				sameAddr = ax.Unmap() == ay.Unmap()
			}
		}
		refEqual := cx.NetworkType() == cy.NetworkType() && sameAddr && cx.Port() == cy.Port() &&
			cx.TCPType() == cy.TCPType() && cx.Type() == cy.Type() && c16Get(cx).Rel == c16Get(cy).Rel
		if exy != refEqual {
			st.Fail(rt, "C16/equality/equal-disagrees-with-identity", "Equal=%v but transport address/type/related equal=%v: %s", exy, refEqual, desc)
		}
		if exy {
			refDeep := c16ExtMultisetEqual(cx.Extensions(), cy.Extensions())
			if dxy != refDeep {
				sig := "C16/equality/deepequal-disagrees-with-extensions"
				if cx.TCPType() != TCPTypeUnspecified {
					sig += "/tcptype"
				}
				st.Fail(rt, sig, "DeepEqual=%v but extension multisets equal=%v: %s", dxy, refDeep, desc)
			}
		}
	})
}

func c16ExtMultisetEqual(a, b []CandidateExtension) bool {
	if len(a) != len(b) {
		return false
	}
	m := map[CandidateExtension]int{}
	for _, e := range a {
		m[e]++
	}
	for _, e := range b {
		m[e]--
	}
	for _, v := range m {
		if v != 0 {
			return false
		}
	}

	return true
}

// c16ParseOracle: never panics; whatever is accepted re-marshals to text that parses to an equal candidate.
// Returns whether raw was accepted.
func c16ParseOracle(st *vfStats, t vfFataler, raw string) bool {
	p, err := UnmarshalCandidate(raw)
	if err != nil {
		if p != nil {
			st.Fail(t, "C16/parse/error-with-candidate", "error %v but non-nil candidate for %q", err, raw)
		}

		return false
	}
	if p.Priority() == 0 {
		st.Exclude("computed-priority-0")

		return true
	}
	for _, e := range p.Extensions() {
		if e.Key == "raddr" {
			// RFC 5245 grammar ambiguity, not a defect: an extension named "raddr" that ends up directly
			// after the candidate type reads as rel-addr (same exclusion as in the constructed domain).
			st.Exclude("ext-key-raddr-ambiguous-grammar")

			return true
		}
	}
	text := p.Marshal()
	q, err := UnmarshalCandidate(text)
	if err != nil {
		st.Fail(t, "C16/parse/remarshal-rejected", "accepted %q, but its Marshal() %q is rejected: %v", raw, text, err)

		return true
	}
	c16CheckPair(st, t, "parse", p, q, fmt.Sprintf("raw=%q", raw))
	c16Reflexive(st, t, p, fmt.Sprintf("raw=%q", raw))
	if t2 := q.Marshal(); t2 != text {
		st.Fail(t, "C16/parse/marshal-not-stable", "Marshal not stable after one normalising pass: %q then %q (raw %q)", text, t2, raw)
	}

	return true
}

var c16SeedLines = []string{
	"750 1 udp 500 fcd9:e3b8:12ce:9fc5:74a5:c6bb:d8b:e08a 53987 typ host",
	"4273957277 1 udp 2130706431 10.0.75.1 53634 typ host",
	"1052353102 1 tcp 2128609279 192.168.0.196 0 typ host tcptype active",
	"1380287402 1 udp 2130706431 e2494022-4d9a-4c1e-a750-cc48d4f8d6ee.local 60542 typ host",
	"647372371 1 udp 1694498815 191.228.238.68 53991 typ srflx raddr 192.168.0.274 rport 53991",
	"4207374052 1 tcp 1685790463 192.0.2.15 50000 typ prflx raddr 10.0.0.1 rport 12345 generation 0 network-id 2 network-cost 10",
	"848194626 1 udp 16777215 50.0.0.1 5000 typ relay raddr 192.168.0.1 rport 5001",
	"candidate:750 1 udp 500 127.0.0.1 80 typ host",
	" 1 udp 500 127.0.0.1 80 typ host",
	"1052353102 1 tcp 2128609279 192.168.0.196 0 typ host tcptype so",
	"750 1 udp 500 10.0.0.1 65535 typ host",
	"1380287402 1 udp 2130706431 redacted-ip.invalid 60542 typ host",
	"1 1 udp 1 1.2.3.4 5 typ srflx raddr 0.0.0.0 rport 0",
	"1 1 udp 1 fe80::1%eth0 5 typ host ufrag abc",
	"1 2 TCP 99 ::ffff:1.2.3.4 9 typ host tcptype passive generation 0",
}

func c16TextGen() *rapid.Generator[string] {
	return rapid.Custom(func(t *rapid.T) string {
		switch rapid.IntRange(0, 9).Draw(t, "form") {
		case 0:
			return rapid.String().Draw(t, "s")
		case 1:
			return string(rapid.SliceOfN(rapid.Byte(), 0, 80).Draw(t, "b"))
		case 2, 3:
			// marshalled constructed candidate with one token mutated
			s := c16SpecGen().Draw(t, "spec")
			c, err := c16Build(s)
			if err != nil {
				return ""
			}
			toks := strings.Split(c.Marshal(), " ")
			i := rapid.IntRange(0, len(toks)-1).Draw(t, "i")
			switch rapid.IntRange(0, 6).Draw(t, "m") {
			case 0:
				toks[i] = rapid.StringN(0, 6, 12).Draw(t, "tok")
			case 1:
				toks[i] = ""
			case 2:
				toks = append(toks[:i], toks[i+1:]...)
			case 3:
				toks[i] = toks[i] + toks[i]
			case 4:
				toks[i] = rapid.SampledFrom([]string{"0", "65535", "65536", "4294967295", "4294967296", "99999999999", "-1", "raddr", "rport", "typ", "tcptype", "host", "so"}).Draw(t, "const")
			case 5:
				toks = append(toks, c16Token(false).Draw(t, "k"), c16Token(true).Draw(t, "v"))
			case 6:
				toks = append(toks[:i], append([]string{c16Token(true).Draw(t, "ins")}, toks[i:]...)...)
			}

			return strings.Join(toks, " ")
		default:
			// seed lines with small mutations
			line := rapid.SampledFrom(c16SeedLines).Draw(t, "seed")
			toks := strings.Split(line, " ")
			n := rapid.IntRange(0, 2).Draw(t, "nmut")
			for k := 0; k < n && len(toks) > 0; k++ {
				i := rapid.IntRange(0, len(toks)-1).Draw(t, "i")
				switch rapid.IntRange(0, 4).Draw(t, "m") {
				case 0:
					toks[i] = ""
				case 1:
					toks = append(toks[:i], toks[i+1:]...)
				case 2:
					toks[i] = rapid.SampledFrom([]string{"0", "65536", "raddr", "rport", "0.0.0.0", "tcptype", "active", "x", "€", "\xff"}).Draw(t, "const")
				case 3:
					toks = append(toks, rapid.SampledFrom([]string{"tcptype", "passive", "generation", "", "k"}).Draw(t, "app"))
				case 4:
					toks[i] = toks[i] + rapid.StringN(1, 2, 4).Draw(t, "suffix")
				}
			}

			return strings.Join(toks, " ")
		}
	})
}

func TestVerif_C16_ParseArbitrary(t *testing.T) {
	st := vfNewStats(t)
	gen := c16TextGen()
	rapid.Check(t, func(rt *rapid.T) {
		raw := gen.Draw(rt, "raw")
		accepted := c16ParseOracle(st, rt, raw)
		st.Record(vfHashStr(raw), accepted, fmt.Sprintf("accepted:%v", accepted))
		if accepted && st.WantSample() {
			st.Sample(func() string { return fmt.Sprintf("%q", raw) })
		}
	})
}

// Native fuzz target on the same oracle (thorough tier).
func FuzzVerifC16Parse(f *testing.F) {
	for _, s := range c16SeedLines {
		f.Add(s)
	}
	f.Add("1 1 udp 1 1.2.3.4 5 typ srflx raddr  rport 5")
	f.Add("1 1 udp 1 1.2.3.4 5 typ host k  v")
	st := &vfStats{nt: map[uint64]struct{}{}, labels: map[string]int{}, excluded: map[string]int{}, knownHits: map[string]int{}}
	f.Fuzz(func(t *testing.T, raw string) {
		c16ParseOracle(st, t, raw)
	})
}

// ---- STUN attributes

func c16Msg(t vfFataler, setters ...stun.Setter) *stun.Message {
	m, err := stun.Build(append([]stun.Setter{stun.BindingRequest, stun.TransactionID}, setters...)...)
	if err != nil {
		t.Fatalf("harness: build: %v", err)
	}
	d := &stun.Message{Raw: append([]byte{}, m.Raw...)}
	if err := d.Decode(); err != nil {
		t.Fatalf("harness: decode: %v", err)
	}

	return d
}

type c16RawAttr struct {
	typ stun.AttrType
	val []byte
}

func (r c16RawAttr) AddTo(m *stun.Message) error {
	m.Add(r.typ, r.val)

	return nil
}

func TestVerif_C16_Attributes(t *testing.T) {
	st := vfNewStats(t)
	u32 := rapid.OneOf(rapid.SampledFrom([]uint32{0, 1, 1<<24 - 1, 1 << 24, 1<<24 + 1, 1<<31 - 1, 1 << 31, 1<<32 - 1}), rapid.Uint32())
	u64 := rapid.OneOf(rapid.SampledFrom([]uint64{0, 1, 1<<63 - 1, 1 << 63, 1<<64 - 2, 1<<64 - 1}), rapid.Uint64())
	rapid.Check(t, func(rt *rapid.T) {
		kind := rapid.SampledFrom([]string{"priority", "controlling", "controlled", "control", "usecandidate", "nomination", "dtls", "ack", "rawsize"}).Draw(rt, "kind")
		nontrivial := true
		var sample string
		switch kind {
		case "priority":
			v := u32.Draw(rt, "v")
			sample = fmt.Sprintf("PRIORITY %d", v)
			m := c16Msg(rt, PriorityAttr(v))
			got := PriorityAttr(u32.Draw(rt, "previous"))
			if err := got.GetFrom(m); err != nil || uint32(got) != v {
				st.Fail(rt, "C16/attr/priority", "encoded %d decoded %d err %v", v, got, err)
			}
		case "controlling", "controlled":
			v := u64.Draw(rt, "v")
			sample = fmt.Sprintf("%s %d", kind, v)
			if kind == "controlling" {
				m := c16Msg(rt, AttrControlling(v))
				var got AttrControlling
				if err := got.GetFrom(m); err != nil || uint64(got) != v {
					st.Fail(rt, "C16/attr/controlling", "encoded %d decoded %d err %v", v, got, err)
				}
				var other AttrControlled
				if err := other.GetFrom(m); err == nil {
					st.Fail(rt, "C16/attr/controlled-from-controlling", "ICE-CONTROLLED decoded from a message that has only ICE-CONTROLLING")
				}
			} else {
				m := c16Msg(rt, AttrControlled(v))
				var got AttrControlled
				if err := got.GetFrom(m); err != nil || uint64(got) != v {
					st.Fail(rt, "C16/attr/controlled", "encoded %d decoded %d err %v", v, got, err)
				}
				var other AttrControlling
				if err := other.GetFrom(m); err == nil {
					st.Fail(rt, "C16/attr/controlling-from-controlled", "ICE-CONTROLLING decoded from a message that has only ICE-CONTROLLED")
				}
			}
		case "control":
			v := u64.Draw(rt, "v")
			role := rapid.SampledFrom([]Role{Controlling, Controlled}).Draw(rt, "role")
			sample = fmt.Sprintf("AttrControl %v %d", role, v)
			m := c16Msg(rt, AttrControl{Role: role, Tiebreaker: v})
			got := AttrControl{Role: rapid.SampledFrom([]Role{Controlling, Controlled}).Draw(rt, "prevRole"), Tiebreaker: u64.Draw(rt, "prevTB")}
			if err := got.GetFrom(m); err != nil || got.Role != role || got.Tiebreaker != v {
				st.Fail(rt, "C16/attr/control", "encoded %v/%d decoded %v/%d err %v", role, v, got.Role, got.Tiebreaker, err)
			}
			empty := c16Msg(rt)
			if err := got.GetFrom(empty); err == nil {
				st.Fail(rt, "C16/attr/control-missing", "missing role attribute decoded without error")
			}
		case "usecandidate":
			with := rapid.Bool().Draw(rt, "with")
			sample = fmt.Sprintf("USE-CANDIDATE present=%v", with)
			var m *stun.Message
			if with {
				m = c16Msg(rt, UseCandidate())
			} else {
				m = c16Msg(rt, PriorityAttr(1))
			}
			if UseCandidate().IsSet(m) != with {
				st.Fail(rt, "C16/attr/usecandidate", "IsSet=%v, want %v", !with, with)
			}
		case "nomination":
			v := u32.Draw(rt, "v")
			custom := rapid.Bool().Draw(rt, "custom")
			at := DefaultNominationAttribute
			if custom {
				at = stun.AttrType(rapid.Uint16Range(0xC002, 0xFFFE).Draw(rt, "attrType"))
			}
			sample = fmt.Sprintf("nomination %d attr=%#x", v, uint16(at))
			var m *stun.Message
			if custom {
				m = c16Msg(rt, NominationSetter{Value: v, AttrType: at})
			} else {
				m = c16Msg(rt, Nomination(v))
			}
			got := NominationAttribute{Value: u32.Draw(rt, "previous")}
			err := got.GetFromWithType(m, at)
			want := v & 0xFFFFFF
			if err != nil || got.Value != want {
				st.Fail(rt, "C16/attr/nomination", "encoded %d decoded %d (want %d) err %v", v, got.Value, want, err)
			}
			if !custom {
				var g2 NominationAttribute
				if err := g2.GetFrom(m); err != nil || g2.Value != want {
					st.Fail(rt, "C16/attr/nomination-default", "GetFrom: %d err %v", g2.Value, err)
				}
			}
			nontrivial = v >= 1<<24 || custom
		case "dtls":
			b := rapid.SliceOfN(rapid.Byte(), 0, 1500).Draw(rt, "b")
			sample = fmt.Sprintf("DTLS-in-STUN len=%d", len(b))
			m := c16Msg(rt, DtlsInStunAttribute(b))
			got := DtlsInStunAttribute(rapid.SliceOfN(rapid.Byte(), 0, 40).Draw(rt, "previousContent"))
			if err := got.GetFrom(m); err != nil || !bytes.Equal(got, b) {
				st.Fail(rt, "C16/attr/dtls", "len %d decoded len %d err %v", len(b), len(got), err)
			}
			nontrivial = len(b) == 0 || len(b)%4 != 0
		case "ack":
			vals := rapid.SliceOfN(u32, 0, 6).Draw(rt, "vals")
			sample = fmt.Sprintf("ACK %v", vals)
			m := stun.New()
			err := DtlsInStunAckAttribute(vals).AddTo(m)
			if len(vals) > 4 {
				if err == nil {
					st.Fail(rt, "C16/attr/ack-too-many", "AddTo of %d ACK values accepted", len(vals))
				}

				break
			}
			if err != nil {
				st.Fail(rt, "C16/attr/ack-addto", "AddTo(%v): %v", vals, err)
			}
			d := c16Msg(rt, DtlsInStunAckAttribute(vals))
			// the receiver may have been used before (longer, shorter or empty previous content)
			got := DtlsInStunAckAttribute(rapid.SliceOfN(u32, 0, 4).Draw(rt, "previousContent"))
			if len(got) == 0 && rapid.Bool().Draw(rt, "nilReceiver") {
				got = nil
			}
			if err := got.GetFrom(d); err != nil || len(got) != len(vals) {
				st.Fail(rt, "C16/attr/ack", "%v decoded %v err %v", vals, got, err)
			}
			for i := range vals {
				if i < len(got) && got[i] != vals[i] {
					st.Fail(rt, "C16/attr/ack", "%v decoded %v", vals, got)
				}
			}
		case "rawsize":
			n := rapid.IntRange(0, 24).Draw(rt, "n")
			val := rapid.SliceOfN(rapid.Byte(), n, n).Draw(rt, "val")
			which := rapid.SampledFrom([]string{"priority", "controlling", "controlled", "nomination", "ack"}).Draw(rt, "which")
			sample = fmt.Sprintf("raw %s len=%d", which, n)
			var err error
			var wantErr bool
			switch which {
			case "priority":
				var a PriorityAttr
				err = a.GetFrom(c16Msg(rt, c16RawAttr{stun.AttrPriority, val}))
				wantErr = n != 4
			case "controlling":
				var a AttrControlling
				err = a.GetFrom(c16Msg(rt, c16RawAttr{stun.AttrICEControlling, val}))
				wantErr = n != 8
			case "controlled":
				var a AttrControlled
				err = a.GetFrom(c16Msg(rt, c16RawAttr{stun.AttrICEControlled, val}))
				wantErr = n != 8
			case "nomination":
				var a NominationAttribute
				err = a.GetFrom(c16Msg(rt, c16RawAttr{DefaultNominationAttribute, val}))
				wantErr = n != 4 // the attribute is always encoded in 4 bytes; any other size is a wrong size
				if err == nil && n >= 4 {
					want := uint32(val[1])<<16 | uint32(val[2])<<8 | uint32(val[3])
					if a.Value != want {
						st.Fail(rt, "C16/attr/nomination-raw", "raw % x decoded %d want %d", val, a.Value, want)
					}
				}
			case "ack":
				var a DtlsInStunAckAttribute
				err = a.GetFrom(c16Msg(rt, c16RawAttr{stun.AttrDtlsInStunAck, val}))
				wantErr = n > 16 || n%4 != 0
			}
			if (err != nil) != wantErr {
				st.Fail(rt, "C16/attr/size-check/"+which, "%s with %d bytes: err=%v, want error=%v", which, n, err, wantErr)
			}
		}
		st.Record(vfHashStr(sample), nontrivial, "kind:"+kind)
		if st.WantSample() {
			st.Sample(func() string { return sample })
		}
	})
}

// TestVerif_C16_EqualityParsed: equality laws over candidates that come from text, where (unlike through the
// constructors) the same extension entry may occur several times.  Reference: two candidates with the same
// base line are DeepEqual iff their extension lists are equal as multisets of (key, value).
func TestVerif_C16_EqualityParsed(t *testing.T) {
	st := vfNewStats(t)
	entry := rapid.Custom(func(t *rapid.T) CandidateExtension {
		return CandidateExtension{
			Key:   rapid.SampledFrom([]string{"x", "y", "z", "generation", "network-cost"}).Draw(t, "key"),
			Value: rapid.SampledFrom([]string{"1", "2", "0"}).Draw(t, "value"),
		}
	})
	rapid.Check(t, func(rt *rapid.T) {
		xs := rapid.SliceOfN(entry, 0, 5).Draw(rt, "xExts")
		var ys []CandidateExtension
		switch rapid.IntRange(0, 5).Draw(rt, "relation") {
		case 0:
			ys = rapid.SliceOfN(entry, 0, 5).Draw(rt, "yExts")
		case 1: // permutation
			ys = rapid.Permutation(xs).Draw(rt, "perm")
		case 2: // same length, one entry replaced by a copy of another entry of x
			ys = append([]CandidateExtension{}, xs...)
			if len(ys) >= 2 {
				i, j := rapid.IntRange(0, len(ys)-1).Draw(rt, "i"), rapid.IntRange(0, len(ys)-1).Draw(rt, "j")
				ys[i] = ys[j]
			}
		case 3: // x gets a duplicate, y a fresh entry: equal lengths, x ⊂ y as sets
			if len(xs) >= 1 {
				ys = append(append([]CandidateExtension{}, xs...), entry.Draw(rt, "fresh"))
				xs = append(append([]CandidateExtension{}, xs...), xs[rapid.IntRange(0, len(xs)-1).Draw(rt, "dup")])
			}
		case 4: // y is x with one entry duplicated and another dropped
			ys = append([]CandidateExtension{}, xs...)
			if len(ys) >= 2 {
				ys[len(ys)-1] = ys[0]
			}
		case 5:
			ys = append([]CandidateExtension{}, xs...)
		}
		line := func(es []CandidateExtension) string {
			s := "1938809241 1 udp 2122262783 10.0.0.7 5000 typ host"
			for _, e := range es {
				s += " " + e.Key + " " + e.Value
			}

			return s
		}
		cx, err := UnmarshalCandidate(line(xs))
		if err != nil {
			rt.Fatalf("harness: %v (%q)", err, line(xs))
		}
		cy, err := UnmarshalCandidate(line(ys))
		if err != nil {
			rt.Fatalf("harness: %v (%q)", err, line(ys))
		}
		count := func(es []CandidateExtension) map[CandidateExtension]int {
			m := map[CandidateExtension]int{}
			for _, e := range es {
				m[e]++
			}

			return m
		}
		mx, my := count(xs), count(ys)
		same := len(xs) == len(ys) && len(mx) == len(my)
		for k, v := range mx {
			if my[k] != v {
				same = false
			}
		}
		dup := false
		for _, v := range mx {
			if v > 1 {
				dup = true
			}
		}
		for _, v := range my {
			if v > 1 {
				dup = true
			}
		}
		desc := fmt.Sprintf("x=%q y=%q", line(xs), line(ys))
		dxy, dyx := cx.DeepEqual(cy), cy.DeepEqual(cx)
		st.Record(vfHashStr(desc), dup && len(xs) == len(ys), fmt.Sprintf("repeated-entry:%v", dup), fmt.Sprintf("same-multiset:%v", same))
		if dup && len(xs) == len(ys) && st.WantSample() {
			st.Sample(func() string { return fmt.Sprintf("%s DeepEqual=%v/%v reference=%v", desc, dxy, dyx, same) })
		}
		c16Reflexive(st, rt, cx, desc)
		c16Reflexive(st, rt, cy, desc)
		if !cx.Equal(cy) || !cy.Equal(cx) {
			st.Fail(rt, "C16/equality/equal-depends-on-extensions", "same base line but Equal is false: %s", desc)
		}
		if dxy != dyx {
			st.Fail(rt, "C16/equality/deepequal-not-symmetric", "x.DeepEqual(y)=%v y.DeepEqual(x)=%v %s", dxy, dyx, desc)
		}
		if dxy != same {
			st.Fail(rt, "C16/equality/deepequal-vs-multiset", "DeepEqual=%v but the extension lists are equal as multisets: %v; %s", dxy, same, desc)
		}
	})
}
