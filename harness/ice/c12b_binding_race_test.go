//go:build verif

package ice

import (
	"fmt"
	"net"
	"net/netip"
	"sync"
	"testing"

	"github.com/pion/logging"
	"pgregory.net/rapid"
)

// TestVerif_C12_BindingRaces: the address-binding table under racing writers. Per round a drawn scenario:
//   - "first-writes": 2..4 goroutines issue the first write of one connection to a new address at the same
//     instant (barrier); afterwards the address is bound to that connection in both directions (table and
//     the connection's own list), so that RemoveConnByUfrag leaves nothing behind;
//   - "remove-vs-write": connection A's first write to an address that B owns races with RemoveConnByUfrag(A):
//     afterwards the address is bound to B or to nobody — never left unbound while B still lists it, never bound to A.
// Oracle (in-package): addressMap[x] == c  ⇔  x ∈ c.getAddresses(), and nothing points to a removed connection.
func TestVerif_C12_BindingRaces(t *testing.T) {
	st := vfNewStats(t)
	lf := logging.NewDefaultLoggerFactory()
	lf.DefaultLogLevel = logging.LogLevelDisabled
	rapid.Check(t, func(rt *rapid.T) {
		scenario := rapid.SampledFrom([]string{"first-writes", "remove-vs-write"}).Draw(rt, "scenario")
		writers := rapid.IntRange(2, 4).Draw(rt, "writers")
		rounds := rapid.IntRange(20, 120).Draw(rt, "rounds")
		base := newC12Base("0.0.0.0:7000")
		mux := NewUDPMuxDefault(UDPMuxParams{Logger: lf.NewLogger("verif"), UDPConn: c12BaseAP{base}})
		defer mux.Close() //nolint:errcheck
		base.waitReading()
		local := &net.UDPAddr{IP: net.IPv4(10, 0, 0, 1), Port: 7000}
		under := func(ufrag string) *udpMuxedConn {
			mux.mu.Lock()
			defer mux.mu.Unlock()
			c, _ := mux.getConn(ufrag, false)

			return c
		}
		consistent := func(where string, live []*udpMuxedConn, removed []*udpMuxedConn) {
			mux.addressMapMu.Lock()
			table := map[netip.AddrPort]*udpMuxedConn{}
			for a, c := range mux.addressMap {
				table[a] = c
			}
			mux.addressMapMu.Unlock()
			for a, c := range table {
				for _, r := range removed {
					if c == r {
						st.Fail(rt, "C12/bindings/stale-after-removal", "%s: address %s is still bound to a removed connection (%s)", where, a, scenario)
					}
				}
				has := false
				for _, x := range c.getAddresses() {
					if x == a {
						has = true
					}
				}
				if !has {
					st.Fail(rt, "C12/bindings/table-and-connection-disagree", "%s: the table binds %s to connection %s, whose own list does not contain it (%s)", where, a, c.params.Key, scenario)
				}
			}
			for _, c := range live {
				for _, a := range c.getAddresses() {
					if table[a] != c {
						st.Fail(rt, "C12/bindings/table-and-connection-disagree", "%s: connection %s lists %s as its own, the table binds it to %v (%s)", where, c.params.Key, a, table[a] != nil, scenario)
					}
				}
			}
		}
		for r := 0; r < rounds; r++ {
			dst := &net.UDPAddr{IP: net.IPv4(198, 51, 100, byte(1+r%200)), Port: 4000 + r}
			ua, ub := fmt.Sprintf("a%d", r), fmt.Sprintf("b%d", r)
			ha, err := mux.GetConn(ua, local)
			if err != nil {
				rt.Fatalf("harness: %v", err)
			}
			ca := under(ua)
			switch scenario {
			case "first-writes":
				var wg sync.WaitGroup
				start := make(chan struct{})
				for w := 0; w < writers; w++ {
					wg.Add(1)
					go func() {
						defer wg.Done()
						<-start
						_, _ = ha.WriteTo([]byte{0x80, 1, 2, 3}, dst)
					}()
				}
				close(start)
				wg.Wait()
				consistent(fmt.Sprintf("round %d after %d concurrent first writes", r, writers), []*udpMuxedConn{ca}, nil)
				mux.RemoveConnByUfrag(ua)
				consistent(fmt.Sprintf("round %d after RemoveConnByUfrag", r), nil, []*udpMuxedConn{ca})
			case "remove-vs-write":
				hb, err := mux.GetConn(ub, local)
				if err != nil {
					rt.Fatalf("harness: %v", err)
				}
				cb := under(ub)
				_, _ = hb.WriteTo([]byte{0x80, 9}, dst) // B owns dst
				var wg sync.WaitGroup
				start := make(chan struct{})
				wg.Add(2)
				go func() { defer wg.Done(); <-start; _, _ = ha.WriteTo([]byte{0x80, 1}, dst) }()
				go func() { defer wg.Done(); <-start; mux.RemoveConnByUfrag(ua) }()
				close(start)
				wg.Wait()
				consistent(fmt.Sprintf("round %d after A's first write to B's address raced with RemoveConnByUfrag(A)", r), []*udpMuxedConn{cb}, []*udpMuxedConn{ca})
				mux.RemoveConnByUfrag(ub)
			}
			_ = ha.Close()
		}
		st.Record(vfHash(scenario, writers, rounds), true, "scenario:"+scenario)
		if st.WantSample() {
			st.Sample(func() string { return fmt.Sprintf("%s writers=%d rounds=%d", scenario, writers, rounds) })
		}
	})
}
