//go:build verif

package ice

// C02 — unauthenticated or mismatched STUN never influences the agent.
// Metamorphic oracle: observable snapshot before = after, for every message the harness classifies
// (by its own verification with pion/stun) as inert; liveness-only messages may refresh LastReceived.

import (
	"context"
	"fmt"
	"net/netip"
	"reflect"
	"sort"
	"strings"
	"testing"
	"time"

	"github.com/pion/stun/v3"
	"pgregory.net/rapid"
)

type c02Snapshot struct {
	State     ConnectionState
	Selected  string
	Remotes   []string
	LastRecv  map[string]time.Time
	Pairs     []CandidatePairStats
	PairIDs   []uint64
	NomOnSucc []bool
	Pending   int
	Callbacks [2]int
	Role      bool
	RemoteCr  string
}

func c02Take(ag *simAgent) c02Snapshot {
	s := c02Snapshot{LastRecv: map[string]time.Time{}}
	s.State = ag.state()
	s.Selected = pairKey(ag.selectedPair())
	rc, _ := ag.a.GetRemoteCandidates()
	for _, r := range rc {
		k := fmt.Sprintf("%s|%s|%d|%s|%d", r.NetworkType(), r.Address(), r.Port(), r.Type(), r.Priority())
		s.Remotes = append(s.Remotes, k)
	}
	sort.Strings(s.Remotes)
	s.Pairs = ag.a.GetCandidatePairsStats()
	for i := range s.Pairs {
		s.Pairs[i].Timestamp = time.Time{}
	}
	_ = ag.a.loop.Run(ag.a.loop, func(context.Context) {
		for _, p := range ag.a.checklist {
			s.PairIDs = append(s.PairIDs, p.id)
			s.NomOnSucc = append(s.NomOnSucc, p.nominateOnBindingSuccess)
		}
		s.Pending = len(ag.a.pendingBindingRequests)
		for _, set := range ag.a.remoteCandidates {
			for _, r := range set {
				s.LastRecv[fmt.Sprintf("%s|%s|%d", r.NetworkType(), r.Address(), r.Port())] = r.LastReceived()
			}
		}
		s.RemoteCr = ag.a.remoteUfrag + "/" + ag.a.remotePwd
	})
	ag.mu.Lock()
	s.Callbacks = [2]int{len(ag.states), len(ag.selected)}
	ag.mu.Unlock()
	s.Role = ag.a.isControlling.Load()

	return s
}

func c02Diff(a, b c02Snapshot, ignoreLastRecv, ignorePending bool) string {
	var out []string
	if a.State != b.State {
		out = append(out, fmt.Sprintf("state %s→%s", a.State, b.State))
	}
	if a.Selected != b.Selected {
		out = append(out, fmt.Sprintf("selected %q→%q", a.Selected, b.Selected))
	}
	if !reflect.DeepEqual(a.Remotes, b.Remotes) {
		out = append(out, fmt.Sprintf("remote candidates %v→%v", a.Remotes, b.Remotes))
	}
	if !reflect.DeepEqual(a.PairIDs, b.PairIDs) || !reflect.DeepEqual(a.NomOnSucc, b.NomOnSucc) {
		out = append(out, fmt.Sprintf("pairs %v/%v→%v/%v", a.PairIDs, a.NomOnSucc, b.PairIDs, b.NomOnSucc))
	}
	if len(a.Pairs) == len(b.Pairs) {
		for i := range a.Pairs {
			if !reflect.DeepEqual(a.Pairs[i], b.Pairs[i]) {
				out = append(out, fmt.Sprintf("pair stats[%d] %+v→%+v", i, a.Pairs[i], b.Pairs[i]))
			}
		}
	} else {
		out = append(out, "pair count changed")
	}
	if a.Callbacks != b.Callbacks {
		out = append(out, fmt.Sprintf("callbacks fired %v→%v", a.Callbacks, b.Callbacks))
	}
	if a.Role != b.Role {
		out = append(out, "role changed")
	}
	if a.RemoteCr != b.RemoteCr {
		out = append(out, "remote credentials changed")
	}
	if !ignorePending && a.Pending != b.Pending {
		out = append(out, fmt.Sprintf("outstanding transactions %d→%d", a.Pending, b.Pending))
	}
	if !ignoreLastRecv && !reflect.DeepEqual(a.LastRecv, b.LastRecv) {
		out = append(out, "liveness timestamp refreshed")
	}

	return strings.Join(out, "; ")
}

type c02Creds struct{ localU, localP, remoteU, remoteP string }

type c02ValidReq struct {
	txid  [stun.TransactionIDSize]byte
	srcAt netip.AddrPort
	to    *simSock
	raw   []byte
}

// c02IntegrityOffset returns the offset of the 20-byte MESSAGE-INTEGRITY value in a raw STUN message (-1: none).
func c02IntegrityOffset(raw []byte) int {
	for off := 20; off+4 <= len(raw); {
		typ, l := int(raw[off])<<8|int(raw[off+1]), int(raw[off+2])<<8|int(raw[off+3])
		if typ == int(stun.AttrMessageIntegrity) && l == 20 && off+24 <= len(raw) {
			return off + 4
		}
		off += 4 + (l+3)/4*4
	}

	return -1
}

type c02Outstanding struct {
	txid    [stun.TransactionIDSize]byte
	src     *simSock
	dst     netip.AddrPort
	expired bool
	d       *simDgram
}

// c02Classify decides, independently of the agent, what class a message belongs to.
func c02Classify(raw []byte, srcAt netip.AddrPort, to *simSock, cr c02Creds, knownRemotes map[string]bool, outstanding []c02Outstanding) string {
	if !stun.IsMessage(raw) {
		return "not-stun"
	}
	m := &stun.Message{Raw: append([]byte{}, raw...)}
	if m.Decode() != nil {
		return "inert"
	}
	nt := NetworkTypeUDP4
	if to.priv.Addr().Is6() {
		nt = NetworkTypeUDP6
	}
	if to.kind == simKindTCPHost {
		nt = NetworkTypeTCP4
	}
	known := knownRemotes[fmt.Sprintf("%s|%s|%d", nt, srcAt.Addr().Unmap(), srcAt.Port())]
	if m.Type.Method != stun.MethodBinding {
		return "inert"
	}
	switch m.Type.Class {
	case stun.ClassIndication:
		if known {
			return "liveness-only"
		}

		return "inert"
	case stun.ClassErrorResponse:
		return "inert"
	case stun.ClassRequest:
		var u stun.Username
		if u.GetFrom(m) != nil || u.String() != cr.localU+":"+cr.remoteU {
			return "inert"
		}
		if stun.MessageIntegrity([]byte(cr.localP)).Check(m) != nil {
			return "inert"
		}

		return "effective"
	case stun.ClassSuccessResponse:
		// (an unknown remote password authenticates nothing, not even a message signed with the empty key)
		if cr.remoteP == "" || stun.MessageIntegrity([]byte(cr.remoteP)).Check(m) != nil {
			return "inert"
		}
		if !known {
			return "inert"
		}
		for _, o := range outstanding {
			// (the property ties a response to the remote address the request was sent to; which local
			// candidate receives it is not part of C02 — see D20 under C03)
			if o.txid == m.TransactionID && !o.expired && o.dst == srcAt && (o.src.kind == simKindTCPHost) == (to.kind == simKindTCPHost) {
				return "effective"
			}
		}

		return "liveness-only"
	}

	return "inert"
}

func TestVerif_C02_Injection(t *testing.T) {
	st := vfNewStats(t)
	rapid.Check(t, func(rt *rapid.T) {
		controlling := rapid.Bool().Draw(rt, "controlling")
		phase := rapid.SampledFrom([]string{"fresh", "checking", "checking", "connected", "connected", "restarted", "restarted", "restarted-no-remote-creds"}).Draw(rt, "phase")
		withV6 := rapid.Bool().Draw(rt, "withV6")
		cfg := simAgentConfig{controlling: controlling, maxBinding: 7, disconnected: time.Hour, keepalive: 2 * time.Second, explicitTimeout: true}
		locals := []duoSockSpec{{Kind: simKindHost}, {Kind: simKindSrflx}}
		eps := []soloEpSpec{{Typ: CandidateTypeHost}, {Typ: CandidateTypeServerReflexive}, {Typ: CandidateTypeHost}}
		if withV6 {
			locals = append(locals, duoSockSpec{V6: true, Kind: simKindHost})
			eps = append(eps, soloEpSpec{V6: true, Typ: CandidateTypeHost})
		}
		// optionally a passive TCP host candidate, with endpoint 0 reachable over TCP at the same ip:port
		withTCP := rapid.IntRange(0, 1).Draw(rt, "withTCP") == 0
		if withTCP {
			locals = append(locals, duoSockSpec{Kind: simKindTCPHost})
		}
		s, err := newSoloSim(cfg, locals, eps)
		if err != nil {
			rt.Fatalf("harness: %v", err)
		}
		defer s.close()
		if err := s.ag.start(s.peer.ufrag, s.peer.pwd); err != nil {
			rt.Fatalf("harness: %v", err)
		}
		peerRole := "controlled"
		if !controlling {
			peerRole = "controlling"
		}
		// endpoints 0 and 1 (and the v6 one) are signalled; endpoint 2 stays unknown
		_ = s.ag.addRemoteSync(s.epCandidate(0, eps[0]))
		_ = s.ag.addRemoteSync(s.epCandidate(1, eps[1]))
		if withV6 {
			_ = s.ag.addRemoteSync(s.epCandidate(3, eps[3]))
		}
		signalTCP := func() {
			if withTCP {
				ap := s.eps[0].pub
				if tc, err := NewCandidateHost(&CandidateHostConfig{Network: "tcp", Address: ap.Addr().String(), Port: int(ap.Port()), Component: 1, TCPType: TCPTypePassive}); err == nil {
					_ = s.ag.addRemoteSync(tc)
				}
			}
		}
		signalTCP()
		prev := c02Creds{}
		var answered [][stun.TransactionIDSize]byte
		var oldOutstanding []c02Outstanding // unanswered checks of a generation ended by Restart
		noRemoteCreds := false
		handshake := func() {
			s.ag.tick()
			for _, d := range s.agentRequests() {
				if ep := s.epByAddr(d.dst); ep == s.eps[0] && d.src == s.ag.socks[0] {
					s.removeInflight(d)
					answered = append(answered, d.msg.txid)
					s.answer(d, ep)
				}
			}
			if controlling {
				s.ag.tick()
				for _, d := range s.agentRequests() {
					if ep := s.epByAddr(d.dst); ep == s.eps[0] && d.msg.useCand {
						s.removeInflight(d)
						answered = append(answered, d.msg.txid)
						s.answer(d, ep)
					}
				}
			} else {
				s.peerRequest(s.eps[0], s.ag.socks[0], true, nil, 100, peerRole, 77)
				for _, d := range s.agentRequests() {
					if ep := s.epByAddr(d.dst); ep == s.eps[0] && d.src == s.ag.socks[0] {
						s.removeInflight(d)
						answered = append(answered, d.msg.txid)
						s.answer(d, ep)
					}
				}
			}
		}
		switch phase {
		case "fresh":
		case "checking":
			s.ag.tick()
			if rapid.Bool().Draw(rt, "secondTick") {
				s.ag.tick()
			}
		case "connected":
			handshake()
			s.ag.tick()
		case "restarted", "restarted-no-remote-creds":
			handshake()
			s.ag.tick() // leaves checks of the ending generation unanswered
			for _, d := range s.agentRequests() {
				oldOutstanding = append(oldOutstanding, c02Outstanding{txid: d.msg.txid, src: d.src, dst: d.dst, d: d})
			}
			prev = c02Creds{s.ag.ufrag, s.ag.pwd, s.peer.ufrag, s.peer.pwd}
			if err := s.ag.restart(); err != nil {
				rt.Fatalf("harness: restart: %v", err)
			}
			s.w.mu.Lock()
			s.w.inflight = nil
			s.w.mu.Unlock()
			// the peer may keep its credentials across the agent's Restart (one-sided restart as seen by the agent)
			if !rapid.Bool().Draw(rt, "peerKeepsCredentials") {
				s.peer.ufrag, s.peer.pwd = "peerUfragGen2", "peerPasswordGeneration2Password"
			}
			for i, l := range locals {
				if _, err := s.ag.addLocal(i, l.V6, l.Kind, true); err != nil {
					rt.Fatalf("harness: %v", err)
				}
			}
			if phase == "restarted" {
				_ = s.ag.a.SetRemoteCredentials(s.peer.ufrag, s.peer.pwd)
			} else {
				noRemoteCreds = true
			}
			_ = s.ag.addRemoteSync(s.epCandidate(0, eps[0]))
			_ = s.ag.addRemoteSync(s.epCandidate(1, eps[1]))
			signalTCP()
			if phase == "restarted" || rapid.Bool().Draw(rt, "tickWithoutRemoteCredentials") {
				s.ag.tick()
			}
		}
		// the application may replace the remote credentials of a running session (SetRemoteCredentials): checks
		// still outstanding were signed under the old ones, but what counts for an answer is the current password
		if (phase == "checking" || phase == "connected") && rapid.IntRange(0, 3).Draw(rt, "remoteCredentialsReplaced") == 0 {
			prev = c02Creds{s.ag.ufrag, s.ag.pwd, s.peer.ufrag, s.peer.pwd}
			s.peer.ufrag, s.peer.pwd = "peerUfragRekeyed", "peerPasswordAfterRekeyingPassword"
			if err := s.ag.a.SetRemoteCredentials(s.peer.ufrag, s.peer.pwd); err != nil {
				rt.Fatalf("harness: SetRemoteCredentials: %v", err)
			}
		}
		// application data from the signalled endpoints may have been flowing before the injected message
		// (this fills the agent's per-candidate cache of validated source addresses)
		if phase != "fresh" && rapid.Bool().Draw(rt, "dataBefore") {
			for _, sk := range s.ag.socks {
				for _, e := range []int{0, 1} {
					if sk.priv.Addr().Is4() == s.eps[e].priv.Addr().Is4() {
						s.inject(s.eps[e], sk, []byte{0x80, 0x60, 1, 2, 3, 4, 5, 6, 7, 8, 9, 10})
						s.inject(s.eps[e], sk, []byte{0x80, 0x60, 1, 3, 3, 4, 5, 6, 7, 8, 9, 10})
					}
				}
			}
		}
		s.purgeNonRequests()
		// outstanding transactions as seen by the harness
		var outstanding []c02Outstanding
		for _, d := range s.agentRequests() {
			outstanding = append(outstanding, c02Outstanding{txid: d.msg.txid, src: d.src, dst: d.dst, d: d})
		}
		// age some of them beyond the transaction timeout (in-package timestamp, no sleeping)
		if len(outstanding) > 0 && rapid.IntRange(0, 3).Draw(rt, "age") == 0 {
			k := rapid.IntRange(0, len(outstanding)-1).Draw(rt, "ageWhich")
			_ = s.ag.a.loop.Run(s.ag.a.loop, func(context.Context) {
				for i := range s.ag.a.pendingBindingRequests {
					if s.ag.a.pendingBindingRequests[i].transactionID == outstanding[k].txid {
						s.ag.a.pendingBindingRequests[i].timestamp = time.Now().Add(-maxBindingRequestTimeout - time.Second)
					}
				}
			})
			outstanding[k].expired = true
		}
		cur := c02Creds{s.ag.ufrag, s.ag.pwd, s.peer.ufrag, s.peer.pwd}
		if noRemoteCreds {
			// the remote credentials have not been signalled yet: nothing the peer sends can be authentic
			cur.remoteU, cur.remoteP = "", ""
		}

		var recentValid []c02ValidReq // requests the agent authenticated (and answered) earlier in this case
		nInject := rapid.IntRange(1, 10).Draw(rt, "nInject")
		for inj := 0; inj < nInject; inj++ {
			// ---- template
			useResp := len(outstanding) > 0 && rapid.Bool().Draw(rt, "template")
			to := s.ag.socks[rapid.IntRange(0, len(s.ag.socks)-1).Draw(rt, "to")]
			ep := s.eps[rapid.IntRange(0, len(s.eps)-1).Draw(rt, "ep")]
			srcAt := ep.pub
			class := stun.ClassRequest
			method := stun.MethodBinding
			username := cur.localU + ":" + cur.remoteU
			key := cur.localP
			txid := stun.NewTransactionID()
			var o *c02Outstanding
			if useResp {
				o = &outstanding[rapid.IntRange(0, len(outstanding)-1).Draw(rt, "which")]
				to, srcAt = o.src, o.dst
				class, key, txid, username = stun.ClassSuccessResponse, cur.remoteP, o.txid, ""
			}
			prevGenResp := false
			if len(oldOutstanding) > 0 && rapid.IntRange(0, 3).Draw(rt, "prevGenResponse") == 0 {
				// a late, correctly signed answer to a check of the generation ended by Restart
				og := oldOutstanding[rapid.IntRange(0, len(oldOutstanding)-1).Draw(rt, "whichOld")]
				o, useResp, prevGenResp = nil, true, true
				srcAt = og.dst
				for _, sk := range s.ag.socks {
					if sk.idx == og.src.idx {
						to = sk
					}
				}
				class, key, txid, username = stun.ClassSuccessResponse, s.peer.pwd, og.txid, ""
			}
			// ---- mutations (0 = the effective message itself)
			nMut := rapid.SampledFrom([]int{0, 1, 1, 1, 1, 2}).Draw(rt, "nMut")
			var muts []string
			corrupt, truncate := -1, -1
			var copyMIFrom []byte
			fingerprint := rapid.SampledFrom([]string{"good", "bad", "absent"}).Draw(rt, "fingerprint")
			extra := rapid.SampledFrom([]string{"", "", "use", "nomination", "unknown", "xor"}).Draw(rt, "extraAttr")
			for k := 0; k < nMut; k++ {
				muPool := []string{"to-other-transport"}
				if !withTCP {
					muPool = nil
				}
				mu := rapid.SampledFrom(append(muPool, []string{
					"user-swapped", "user-wrong-local", "user-wrong-remote", "user-prev-gen", "user-absent", "user-empty", "user-prefix",
					"key-other-side", "key-prev-gen", "key-random", "key-absent", "corrupt-byte", "truncate",
					"class-indication", "class-error", "class-flip", "method", "txid-random", "txid-answered",
					"src-other-known", "src-unknown", "src-other-family", "src-port", "to-other-transport", "replay-authenticated-request-unsigned",
					"replay-authenticated-request-copied-integrity",
				}...)).Draw(rt, "mutation")
				muts = append(muts, mu)
				switch mu {
				case "user-swapped":
					username = cur.remoteU + ":" + cur.localU
				case "user-wrong-local":
					username = "zzzz" + ":" + cur.remoteU
				case "user-wrong-remote":
					username = cur.localU + ":" + "zzzz"
				case "user-prev-gen":
					username = prev.localU + ":" + prev.remoteU
				case "user-absent":
					username = ""
				case "user-empty":
					username = ":"
				case "user-prefix":
					username = cur.localU + ":" + cur.remoteU + "x"
				case "key-other-side":
					if key == cur.localP {
						key = cur.remoteP
					} else {
						key = cur.localP
					}
				case "key-prev-gen":
					if key == cur.localP {
						key = prev.localP
					} else {
						key = prev.remoteP
					}
					if key == "" {
						key = "noPreviousGenerationPassword"
					}
				case "key-random":
					key = "randomPasswordRandomPassword" + fmt.Sprint(rapid.IntRange(0, 99).Draw(rt, "rk"))
				case "key-absent":
					key = ""
				case "corrupt-byte":
					corrupt = rapid.IntRange(0, 200).Draw(rt, "corruptAt")
				case "truncate":
					truncate = rapid.IntRange(0, 200).Draw(rt, "truncateAt")
				case "class-indication":
					class = stun.ClassIndication
				case "class-error":
					class = stun.ClassErrorResponse
				case "class-flip":
					if class == stun.ClassRequest {
						class = stun.ClassSuccessResponse
					} else {
						class = stun.ClassRequest
					}
				case "method":
					method = rapid.SampledFrom([]stun.Method{stun.MethodAllocate, stun.MethodRefresh, stun.MethodSend, stun.MethodData, stun.MethodChannelBind, stun.Method(0x0ff)}).Draw(rt, "method")
				case "txid-random":
					txid = stun.NewTransactionID()
				case "txid-answered":
					if len(answered) > 0 {
						txid = answered[rapid.IntRange(0, len(answered)-1).Draw(rt, "ans")]
					} else {
						txid = stun.NewTransactionID()
					}
				case "src-other-known":
					if srcAt == s.eps[0].pub {
						srcAt = s.eps[1].pub
					} else {
						srcAt = s.eps[0].pub
					}
				case "src-unknown":
					srcAt = netip.MustParseAddrPort("198.51.100.77:7777")
				case "src-other-family":
					if to.priv.Addr().Is4() {
						srcAt = netip.MustParseAddrPort("[fd00:2::4]:5003")
					} else {
						srcAt = s.eps[0].pub
					}
				case "src-port":
					srcAt = netip.AddrPortFrom(srcAt.Addr(), srcAt.Port()+1)
				case "replay-authenticated-request-unsigned":
					// a retransmission look-alike: transaction id, source and destination of a request the agent has
					// just authenticated and answered, but without a valid MESSAGE-INTEGRITY
					if len(recentValid) > 0 {
						rv := recentValid[rapid.IntRange(0, len(recentValid)-1).Draw(rt, "whichValid")]
						class, method, txid, srcAt, to = stun.ClassRequest, stun.MethodBinding, rv.txid, rv.srcAt, rv.to
						username = cur.localU + ":" + cur.remoteU
						key = rapid.SampledFrom([]string{"", "randomPasswordRandomPassword00"}).Draw(rt, "replayKey")
					}
				case "replay-authenticated-request-copied-integrity":
					// a forged retransmission: transaction id, source, destination and the MESSAGE-INTEGRITY bytes of a
					// request the agent has authenticated, around a different content (USE-CANDIDATE added or removed,
					// another USERNAME): a receiver that remembers answered transactions must still verify the HMAC
					if len(recentValid) > 0 {
						rv := recentValid[rapid.IntRange(0, len(recentValid)-1).Draw(rt, "whichValid")]
						class, method, txid, srcAt, to = stun.ClassRequest, stun.MethodBinding, rv.txid, rv.srcAt, rv.to
						key = "randomPasswordRandomPassword00"
						copyMIFrom = rv.raw
						switch rapid.IntRange(0, 2).Draw(rt, "forgedContent") {
						case 0:
							extra = "use"
						case 1:
							extra = "nomination"
						default:
							username = cur.localU + ":" + "zzzz"
						}
					}
				case "to-other-transport":
					// the same ip:port is the peer's UDP and TCP endpoint: the message arrives over the other transport
					for _, sk := range s.ag.socks {
						if (sk.kind == simKindTCPHost) != (to.kind == simKindTCPHost) && sk.priv.Addr().Is4() == to.priv.Addr().Is4() {
							to = sk

							break
						}
					}
				}
			}
			// ---- build
			setters := []stun.Setter{stun.NewType(method, class), stun.NewTransactionIDSetter(txid)}
			if username != "" {
				setters = append(setters, stun.NewUsername(username))
			}
			switch extra {
			case "use":
				setters = append(setters, UseCandidate())
			case "nomination":
				setters = append(setters, Nomination(7))
			case "unknown":
				setters = append(setters, c16RawAttr{stun.AttrType(0x7f01), []byte{1, 2, 3, 4}})
			case "xor":
				setters = append(setters, &stun.XORMappedAddress{IP: to.pub.Addr().AsSlice(), Port: int(to.pub.Port())})
			}
			if class == stun.ClassRequest {
				setters = append(setters, AttrControl{Role: map[bool]Role{true: Controlled, false: Controlling}[controlling], Tiebreaker: 99}, PriorityAttr(4242))
			}
			if class == stun.ClassSuccessResponse && extra != "xor" {
				setters = append(setters, &stun.XORMappedAddress{IP: to.pub.Addr().AsSlice(), Port: int(to.pub.Port())})
			}
			if class == stun.ClassErrorResponse {
				setters = append(setters, stun.CodeRoleConflict)
			}
			if key != "" {
				setters = append(setters, stun.NewShortTermIntegrity(key))
			} else if noRemoteCreds && useResp && nMut == 0 {
				// while the remote password is unknown the "unmutated" answer is one signed with the empty key
				setters = append(setters, stun.NewShortTermIntegrity(""))
				muts = append(muts, "signed-with-the-empty-key")
			}
			if fingerprint != "absent" && copyMIFrom == nil {
				setters = append(setters, stun.Fingerprint)
			}
			msg, err := stun.Build(setters...)
			if err != nil {
				rt.Fatalf("harness: build: %v", err)
			}
			if copyMIFrom != nil {
				if dst, src := c02IntegrityOffset(msg.Raw), c02IntegrityOffset(copyMIFrom); dst >= 0 && src >= 0 {
					copy(msg.Raw[dst:dst+20], copyMIFrom[src:src+20])
				}
				if fingerprint != "absent" {
					if err := stun.Fingerprint.AddTo(msg); err != nil {
						rt.Fatalf("harness: fingerprint: %v", err)
					}
				}
			}
			raw := append([]byte{}, msg.Raw...)
			if fingerprint == "bad" {
				raw[len(raw)-1] ^= 0x55
			}
			if corrupt >= 0 {
				raw[corrupt%len(raw)] ^= byte(1 << (corrupt % 8))
			}
			if truncate >= 0 {
				raw = raw[:truncate%len(raw)]
			}
			// ---- classify (independently), snapshot, inject, compare
			known := map[string]bool{}
			rc, _ := s.ag.a.GetRemoteCandidates()
			for _, r := range rc {
				known[fmt.Sprintf("%s|%s|%d", r.NetworkType(), r.Address(), r.Port())] = true
			}
			cls := c02Classify(raw, srcAt, to, cur, known, outstanding)
			if prevGenResp {
				muts = append([]string{"response-to-previous-generation-check"}, muts...)
			}
			desc := fmt.Sprintf("phase=%s controlling=%v template=%s muts=%v extra=%s fp=%s class=%s method=%s src=%s to=%s → %s",
				phase, controlling, map[bool]string{true: "response", false: "request"}[useResp], muts, extra, fingerprint, class, method, srcAt, to.name(), cls)
			if cls == "not-stun" {
				st.Exclude("not-stun-after-mutation")

				continue
			}
			before := c02Take(s.ag)
			from := s.w.logLen()
			s.injectFrom(ep, srcAt, to, raw)
			emitted := s.w.emittedSince(from, 0)
			after := c02Take(s.ag)
			nearMiss := (nMut == 1 || (prevGenResp && nMut == 0)) && cls != "effective"
			st.Record(vfHashStr(desc), nearMiss, "class:"+cls, "phase:"+phase, fmt.Sprintf("nMut:%d", nMut))
			if nearMiss && st.WantSample() {
				st.Sample(func() string { return desc })
			}
			switch cls {
			case "inert":
				if len(emitted) != 0 {
					st.Fail(rt, "C02/inert/answered", "%s: the agent emitted %v", desc, emitted)
				}
				if df := c02Diff(before, after, false, false); df != "" {
					st.Fail(rt, "C02/inert/state-changed", "%s: %s", desc, df)
				}
			case "liveness-only":
				if len(emitted) != 0 {
					st.Fail(rt, "C02/liveness-only/answered", "%s: the agent emitted %v", desc, emitted)
				}
				if df := c02Diff(before, after, true, true); df != "" {
					st.Fail(rt, "C02/liveness-only/state-changed", "%s: %s", desc, df)
				}
			case "effective":
				if class == stun.ClassRequest {
					recentValid = append(recentValid, c02ValidReq{txid: txid, srcAt: srcAt, to: to, raw: append([]byte{}, raw...)})
				}
				if nMut == 0 && class == stun.ClassRequest {
					// sanity of the harness: the unmodified template must be answered, otherwise near-misses are not near
					ok := false
					for _, d := range emitted {
						if d.msg != nil && d.msg.class == stun.ClassSuccessResponse && d.msg.txid == txid {
							ok = true
						}
					}
					if !ok {
						rt.Fatalf("harness: valid template request not answered: %s", desc)
					}
				}
				if o != nil && class == stun.ClassSuccessResponse {
					// consumed: no longer outstanding
					for i := range outstanding {
						if outstanding[i].txid == o.txid {
							outstanding = append(outstanding[:i], outstanding[i+1:]...)

							break
						}
					}
					answered = append(answered, txid)
				}
				s.purgeNonRequests()
				// new requests the agent sent in reaction become outstanding too
				for _, d := range emitted {
					if d.msg != nil && d.msg.class == stun.ClassRequest {
						outstanding = append(outstanding, c02Outstanding{txid: d.msg.txid, src: d.src, dst: d.dst, d: d})
					}
				}
			}
			if cls == "liveness-only" && class == stun.ClassSuccessResponse {
				// a signed, unmatched response may consume its transaction in the agent; keep the harness view in sync
				for i := range outstanding {
					if outstanding[i].txid == txid {
						outstanding = append(outstanding[:i], outstanding[i+1:]...)

						break
					}
				}
			}
		}
		if s.w.elapsed() > 2*time.Second {
			st.Inconclusive()
		}
	})
}

// ---- native fuzz target on the same oracle (thorough tier)
//
// Input layout: 6 control bytes, then the message body as TLVs.  The control bytes choose the scenario
// (role, phase), the STUN type, the transaction id (fresh or one of the outstanding ones), the source
// address (known endpoint, other known endpoint, unknown), and which key — none, the local password, the
// remote password, a wrong one — signs the message; TLV types 0xFFF0..0xFFF3 are shorthands for USERNAME
// values built from the real credentials, so that coverage-guided mutation reaches the authenticated paths.
func c02FuzzBuild(data []byte, cr c02Creds, outstanding []c02Outstanding) (raw []byte, srcSel int, toSel int) {
	ctl, body := data[:6], data[6:]
	m := stun.New()
	classes := []stun.MessageClass{stun.ClassRequest, stun.ClassSuccessResponse, stun.ClassErrorResponse, stun.ClassIndication}
	method := stun.MethodBinding
	if ctl[1]&0x30 == 0x30 {
		method = stun.Method(uint16(ctl[1])<<4 | uint16(ctl[2]>>4))
	}
	m.Type = stun.MessageType{Method: method, Class: classes[ctl[1]&3]}
	if k := int(ctl[3]); k > 0 && len(outstanding) > 0 && k <= 2*len(outstanding) {
		m.TransactionID = outstanding[(k-1)%len(outstanding)].txid
	} else {
		for i := range m.TransactionID {
			m.TransactionID[i] = ctl[3] ^ byte(i*37)
		}
	}
	m.WriteHeader()
	for len(body) >= 3 {
		typ := stun.AttrType(uint16(body[0])<<8 | uint16(body[1]))
		n := int(body[2])
		body = body[3:]
		if n > len(body) {
			n = len(body)
		}
		val := body[:n]
		body = body[n:]
		switch typ {
		case 0xFFF0:
			typ, val = stun.AttrUsername, []byte(cr.localU+":"+cr.remoteU)
		case 0xFFF1:
			typ, val = stun.AttrUsername, []byte(cr.remoteU+":"+cr.localU)
		case 0xFFF2:
			typ, val = stun.AttrUsername, []byte(cr.localU+":"+string(val))
		case 0xFFF3:
			typ, val = stun.AttrUsername, []byte(cr.localU)
		}
		if typ == stun.AttrMessageIntegrity || typ == stun.AttrFingerprint {
			continue // added below, computed
		}
		m.Add(typ, val)
	}
	switch ctl[4] & 3 {
	case 1:
		_ = stun.NewShortTermIntegrity(cr.localP).AddTo(m)
	case 2:
		_ = stun.NewShortTermIntegrity(cr.remoteP).AddTo(m)
	case 3:
		_ = stun.NewShortTermIntegrity("not-the-password-of-anybody").AddTo(m)
	}
	if ctl[4]&4 != 0 {
		_ = stun.Fingerprint.AddTo(m)
	}
	raw = append([]byte{}, m.Raw...)
	if ctl[4]&0x80 != 0 && len(raw) > 0 {
		raw[int(ctl[5])%len(raw)] ^= 1 << (ctl[5] % 8)
	}

	return raw, int(ctl[2] & 3), int(ctl[2] >> 2 & 1)
}

func FuzzVerifC02Inbound(f *testing.F) {
	// seeds: authentic request / response shapes and near misses
	f.Add([]byte{0, 0, 0, 0, 1 | 4, 0, 0xFF, 0xF0, 0, 0x00, 0x24, 4, 0, 0, 0, 9, 0x80, 0x2A, 8, 1, 2, 3, 4, 5, 6, 7, 8})
	f.Add([]byte{1, 0, 0, 0, 1 | 4, 0, 0xFF, 0xF0, 0, 0x00, 0x24, 4, 0, 0, 0, 9, 0x80, 0x29, 8, 1, 2, 3, 4, 5, 6, 7, 8, 0x00, 0x25, 0})
	f.Add([]byte{2, 1, 0, 1, 2 | 4, 0, 0x00, 0x20, 8, 0, 1, 0x21, 0x12, 0xA4, 0x42, 0x21, 0x13})
	f.Add([]byte{3, 1, 1, 2, 2, 0, 0x00, 0x20, 8, 0, 1, 0x21, 0x12, 0xA4, 0x42, 0x21, 0x13})
	f.Add([]byte{0, 0, 2, 0, 1, 0, 0xFF, 0xF2, 3, 'a', 'b', 'c', 0x00, 0x25, 0})
	f.Add([]byte{1, 3, 0, 0, 2 | 4, 0})
	f.Add([]byte{0, 2, 0, 1, 2, 0, 0x00, 0x09, 4, 0, 0, 4, 87})
	f.Add([]byte{2, 0, 0, 0, 3 | 4, 0, 0xFF, 0xF0, 0})
	f.Add([]byte{0, 0, 0, 0, 0, 0, 0xFF, 0xF0, 0})
	f.Add([]byte{0, 0, 0, 0, 1 | 0x80, 30, 0xFF, 0xF0, 0})
	f.Fuzz(func(t *testing.T, data []byte) {
		if len(data) < 6 || len(data) > 400 {
			return
		}
		controlling := data[0]&1 != 0
		phase := int(data[0] >> 1 & 3) // 0 checking, 1 connected, 2 restarted, 3 fresh
		cfg := simAgentConfig{controlling: controlling, maxBinding: 7, disconnected: time.Hour, keepalive: 2 * time.Second, explicitTimeout: true}
		locals := []duoSockSpec{{Kind: simKindHost}, {Kind: simKindSrflx}}
		eps := []soloEpSpec{{Typ: CandidateTypeHost}, {Typ: CandidateTypeServerReflexive}, {Typ: CandidateTypeHost}}
		s, err := newSoloSim(cfg, locals, eps)
		if err != nil {
			t.Fatalf("harness: %v", err)
		}
		defer s.close()
		if err := s.ag.start(s.peer.ufrag, s.peer.pwd); err != nil {
			t.Fatalf("harness: %v", err)
		}
		peerRole := "controlled"
		if !controlling {
			peerRole = "controlling"
		}
		signal := func() {
			_ = s.ag.addRemoteSync(s.epCandidate(0, eps[0]))
			_ = s.ag.addRemoteSync(s.epCandidate(1, eps[1]))
		}
		signal()
		handshake := func() {
			s.ag.tick()
			for _, d := range s.agentRequests() {
				if ep := s.epByAddr(d.dst); ep == s.eps[0] && d.src == s.ag.socks[0] {
					s.removeInflight(d)
					s.answer(d, ep)
				}
			}
			if controlling {
				s.ag.tick()
				for _, d := range s.agentRequests() {
					if ep := s.epByAddr(d.dst); ep == s.eps[0] && d.msg.useCand {
						s.removeInflight(d)
						s.answer(d, ep)
					}
				}
			} else {
				s.peerRequest(s.eps[0], s.ag.socks[0], true, nil, 100, peerRole, 77)
				for _, d := range s.agentRequests() {
					if ep := s.epByAddr(d.dst); ep == s.eps[0] && d.src == s.ag.socks[0] {
						s.removeInflight(d)
						s.answer(d, ep)
					}
				}
			}
		}
		switch phase {
		case 0:
			s.ag.tick()
		case 1:
			handshake()
			s.ag.tick()
		case 2:
			handshake()
			s.ag.tick()
			if err := s.ag.restart(); err != nil {
				t.Fatalf("harness: %v", err)
			}
			s.w.mu.Lock()
			s.w.inflight = nil
			s.w.mu.Unlock()
			for i, l := range locals {
				if _, err := s.ag.addLocal(i, l.V6, l.Kind, true); err != nil {
					t.Fatalf("harness: %v", err)
				}
			}
			_ = s.ag.a.SetRemoteCredentials(s.peer.ufrag, s.peer.pwd)
			signal()
			s.ag.tick()
		}
		if data[0]&8 != 0 {
			for _, sk := range s.ag.socks {
				for _, e := range []int{0, 1} {
					s.inject(s.eps[e], sk, []byte{0x80, 0x60, 1, 2, 3, 4, 5, 6, 7, 8, 9, 10})
					s.inject(s.eps[e], sk, []byte{0x80, 0x60, 1, 3, 3, 4, 5, 6, 7, 8, 9, 10})
				}
			}
		}
		s.purgeNonRequests()
		var outstanding []c02Outstanding
		for _, d := range s.agentRequests() {
			outstanding = append(outstanding, c02Outstanding{txid: d.msg.txid, src: d.src, dst: d.dst, d: d})
		}
		cur := c02Creds{s.ag.ufrag, s.ag.pwd, s.peer.ufrag, s.peer.pwd}
		raw, srcSel, toSel := c02FuzzBuild(data, cur, outstanding)
		ep := s.eps[srcSel%len(s.eps)]
		to := s.ag.socks[toSel%len(s.ag.socks)]
		srcAt := ep.pub
		known := map[string]bool{}
		rc, _ := s.ag.a.GetRemoteCandidates()
		for _, r := range rc {
			known[fmt.Sprintf("%s|%s|%d", r.NetworkType(), r.Address(), r.Port())] = true
		}
		cls := c02Classify(raw, srcAt, to, cur, known, outstanding)
		if cls == "not-stun" || cls == "effective" {
			return
		}
		before := c02Take(s.ag)
		from := s.w.logLen()
		s.injectFrom(ep, srcAt, to, raw)
		emitted := s.w.emittedSince(from, 0)
		after := c02Take(s.ag)
		desc := fmt.Sprintf("controlling=%v phase=%d class=%s src=%s to=%s raw=%x", controlling, phase, cls, srcAt, to.name(), raw)
		if len(emitted) != 0 {
			t.Fatalf("VERIF-VIOLATION sig=C02/%s/answered %s: the agent emitted %v", cls, desc, emitted)
		}
		if df := c02Diff(before, after, cls == "liveness-only", cls == "liveness-only"); df != "" {
			t.Fatalf("VERIF-VIOLATION sig=C02/%s/state-changed %s: %s", cls, desc, df)
		}
	})
}
