//go:build verif

package ice

// C18 — gathering produces exactly the candidates the configuration allows (FakeNet; oracle computed
// from the configuration and the interface table).

import (
	"context"
	"errors"
	"fmt"
	"net"
	"net/netip"
	"strings"
	"sync"
	"testing"
	"time"

	"github.com/pion/logging"
	"github.com/pion/stun/v3"
	"pgregory.net/rapid"
)

var c18AddrPool = []string{
	"10.0.0.5", "192.168.1.7", "203.0.113.40", "127.0.0.1", "127.0.0.2",
	"2001:db8::5", "2001:db8:1::6", "fd00::7", "fe80::8", "fec0::9", "::10.0.0.9", "::ffff:10.0.0.10", "::1",
	// the far ends of the special-purpose ranges: site-local is fec0::/10, link-local fe80::/10
	"fed0::10", "feff::aa", "febf::1", "::192.0.2.1", "fc00::3",
}

type c18Config struct {
	Ifaces      []fnIface
	Types       []CandidateType
	NetTypes    []NetworkType
	NetTypesSet bool
	PortMin     uint16
	PortMax     uint16
	IfaceReject map[string]bool
	IPReject    map[string]bool
	Loopback    bool
	MDNS        bool
	Mux         string
	MuxIP       string // listen address of the UDP mux ("" = 10.0.0.5)
	StunMode    string
	ViaConfig   bool // agent built from an AgentConfig struct instead of options
	SrflxMapped int  // > 0: an address rewrite rule publishes this many external IPs as srflx candidates (no STUN)
}

func (c c18Config) String() string {
	return fmt.Sprintf("ifaces=%+v types=%v nets=%v(set=%v) ports=%d-%d ifaceReject=%v ipReject=%v loopback=%v mdns=%v mux=%q(%s) stun=%s viaConfig=%v srflxMapped=%d",
		c.Ifaces, c.Types, c.NetTypes, c.NetTypesSet, c.PortMin, c.PortMax, c.IfaceReject, c.IPReject, c.Loopback, c.MDNS, c.Mux, c.MuxIP, c.StunMode, c.ViaConfig, c.SrflxMapped)
}

func c18ConfigGen() *rapid.Generator[c18Config] {
	return rapid.Custom(func(t *rapid.T) c18Config {
		c := c18Config{IfaceReject: map[string]bool{}, IPReject: map[string]bool{}}
		used := map[string]bool{}
		n := rapid.IntRange(1, 4).Draw(t, "nIfaces")
		for i := 0; i < n; i++ {
			ifc := fnIface{Name: fmt.Sprintf("eth%d", i), Up: rapid.IntRange(0, 4).Draw(t, "up") != 0}
			if rapid.IntRange(0, 4).Draw(t, "loopbackIface") == 0 {
				ifc.Loopback = true
				ifc.Name = fmt.Sprintf("lo%d", i)
			}
			na := rapid.IntRange(1, 3).Draw(t, "nAddrs")
			for k := 0; k < na; k++ {
				a := rapid.SampledFrom(c18AddrPool).Draw(t, "addr")
				if used[a] {
					continue
				}
				used[a] = true
				ifc.Addrs = append(ifc.Addrs, a)
			}
			if len(ifc.Addrs) > 0 {
				c.Ifaces = append(c.Ifaces, ifc)
			}
			if rapid.IntRange(0, 5).Draw(t, "rejectIface") == 0 {
				c.IfaceReject[ifc.Name] = true
			}
		}
		if len(c.Ifaces) == 0 {
			c.Ifaces = []fnIface{{Name: "eth0", Up: true, Addrs: []string{"10.0.0.5"}}}
		}
		for a := range used {
			if rapid.IntRange(0, 6).Draw(t, "rejectIP") == 0 {
				c.IPReject[net.ParseIP(a).String()] = true
			}
		}
		c.Types = rapid.SampledFrom([][]CandidateType{{CandidateTypeHost}, {CandidateTypeHost}, {CandidateTypeHost, CandidateTypeServerReflexive}, {CandidateTypeServerReflexive},
			{CandidateTypeHost, CandidateTypeRelay}, {CandidateTypeRelay}}).Draw(t, "types")
		switch rapid.IntRange(0, 4).Draw(t, "netTypes") {
		case 0: // not configured at all: documented as "all"
		case 1:
			c.NetTypesSet = true // configured as an empty list: also "all"
		case 2:
			c.NetTypesSet, c.NetTypes = true, []NetworkType{NetworkTypeUDP4}
		case 3:
			c.NetTypesSet, c.NetTypes = true, []NetworkType{NetworkTypeUDP4, NetworkTypeUDP6}
		default:
			c.NetTypesSet = true
			c.NetTypes = rapid.SliceOfNDistinct(rapid.SampledFrom(c17Nets), 1, 4, func(n NetworkType) NetworkType { return n }).Draw(t, "nts")
		}
		switch rapid.IntRange(0, 5).Draw(t, "ports") {
		case 0, 1:
		case 2:
			c.PortMin, c.PortMax = 40000, 40000
		case 3:
			c.PortMin, c.PortMax = 40000, 40003
		case 4:
			c.PortMin = 60000
		default:
			c.PortMax = 2000
		}
		c.Loopback = rapid.Bool().Draw(t, "includeLoopback")
		c.MDNS = rapid.IntRange(0, 4).Draw(t, "mdns") == 0
		c.Mux = rapid.SampledFrom([]string{"", "", "", "udp", "tcp"}).Draw(t, "mux")
		if c.Mux == "udp" {
			// the application's mux may listen anywhere, also on addresses that must never be published
			c.MuxIP = rapid.SampledFrom([]string{"", "", "", "2001:db8::5", "fec0::5", "::10.0.0.5", "fe80::5", "127.0.0.1", "::1"}).Draw(t, "muxIP")
		}
		c.StunMode = rapid.SampledFrom([]string{"now", "now", "never"}).Draw(t, "stun")
		c.ViaConfig = rapid.IntRange(0, 2).Draw(t, "viaAgentConfig") == 0
		if hasType(c.Types, CandidateTypeServerReflexive) && c.Mux != "udp" {
			c.SrflxMapped = rapid.SampledFrom([]int{0, 0, 1, 2, 3, 4}).Draw(t, "srflxMapped")
			if c.SrflxMapped > 0 {
				c.ViaConfig = false // rewrite rules exist as an option only
			}
		}

		return c
	})
}

func c18NetEnabled(c c18Config, nt NetworkType) bool {
	if len(c.NetTypes) == 0 {
		return true
	}
	for _, x := range c.NetTypes {
		if x == nt {
			return true
		}
	}

	return false
}

// c18Eligible: addresses the agent may bind itself, computed from configuration and interface table.
func c18Eligible(c c18Config) map[string]string {
	out := map[string]string{} // canonical ip -> iface
	v4req, v6req := false, false
	for _, nt := range c17Nets {
		if c18NetEnabled(c, nt) {
			if nt.IsIPv4() {
				v4req = true
			} else {
				v6req = true
			}
		}
	}
	for _, ifc := range c.Ifaces {
		if !ifc.Up || (ifc.Loopback && !c.Loopback) || c.IfaceReject[ifc.Name] {
			continue
		}
		for _, a := range ifc.Addrs {
			ip, _ := netip.ParseAddr(a)
			ip = ip.Unmap()
			if ip.IsLoopback() && !c.Loopback {
				continue
			}
			if ip.Is6() {
				b := ip.As16()
				v4compat := true
				for _, x := range b[:12] {
					if x != 0 {
						v4compat = false
					}
				}
				siteLocal := b[0] == 0xfe && b[1]&0xc0 == 0xc0
				if ip.IsLoopback() || ip.IsUnspecified() {
					v4compat = false // ::1 and :: share the zero prefix but are not IPv4-compatible addresses (RFC 4291 §2.5.5.1)
				}
				if !v6req || v4compat || siteLocal {
					continue
				}
			} else if !v4req {
				continue
			}
			if c.IPReject[ip.String()] {
				continue
			}
			out[ip.String()] = ifc.Name
		}
	}

	return out
}

type c18World struct {
	c09World
	states   []GatheringState
	eventsMu sync.Mutex
	events   []string // "cand:<ufrag>" or "nil"
}

func newC18World(cfg c18Config) (*c18World, error) {
	w := &c18World{}
	w.fn = newFakeNet(cfg.Ifaces)
	w.fn.stunServers["198.51.100.1:3478"] = cfg.StunMode
	lf := logging.NewDefaultLoggerFactory()
	lf.DefaultLogLevel = logging.LogLevelDisabled
	opts := []AgentOption{
		WithNet(w.fn), WithLoggerFactory(lf), WithMulticastDNSMode(MulticastDNSModeDisabled),
		WithCandidateTypes(cfg.Types), WithSTUNGatherTimeout(40 * time.Millisecond),
	}
	if cfg.NetTypesSet {
		opts = append(opts, WithNetworkTypes(cfg.NetTypes))
	}
	if cfg.PortMin != 0 || cfg.PortMax != 0 {
		opts = append(opts, WithPortRange(cfg.PortMin, cfg.PortMax))
	}
	if len(cfg.IfaceReject) > 0 {
		opts = append(opts, WithInterfaceFilter(func(n string) bool { return !cfg.IfaceReject[n] }))
	}
	if len(cfg.IPReject) > 0 {
		opts = append(opts, WithIPFilter(func(ip net.IP) bool {
			a, _ := netip.AddrFromSlice(ip)

			return !cfg.IPReject[a.Unmap().String()]
		}))
	}
	if cfg.Loopback {
		opts = append(opts, WithIncludeLoopback())
	}
	var urls []*stun.URI
	if hasType(cfg.Types, CandidateTypeServerReflexive) {
		urls = append(urls, &stun.URI{Scheme: stun.SchemeTypeSTUN, Host: "198.51.100.1", Port: 3478, Proto: stun.ProtoTypeUDP})
	}
	if hasType(cfg.Types, CandidateTypeRelay) {
		urls = append(urls, &stun.URI{Scheme: stun.SchemeTypeTURN, Host: "198.51.100.2", Port: 3478, Proto: stun.ProtoTypeUDP, Username: "u", Password: "p"})
	}
	if len(urls) > 0 {
		opts = append(opts, WithUrls(urls))
	}
	if cfg.SrflxMapped > 0 {
		var ext []string
		for i := 0; i < cfg.SrflxMapped; i++ {
			ext = append(ext, fmt.Sprintf("203.0.113.%d", 60+i))
		}
		opts = append(opts, WithAddressRewriteRules(AddressRewriteRule{External: ext, AsCandidateType: CandidateTypeServerReflexive, Mode: AddressRewriteReplace}))
	}
	muxIP := "10.0.0.5"
	switch cfg.Mux {
	case "udp":
		if cfg.MuxIP != "" {
			w.base = newC12Base(net.JoinHostPort(cfg.MuxIP, "7000"))
		} else {
			w.base = newC12Base(muxIP + ":7000")
		}
		w.udpMux = &fnCountingUDPMux{inner: NewUDPMuxDefault(UDPMuxParams{Logger: lf.NewLogger("mux"), UDPConn: w.base})}
		opts = append(opts, WithUDPMux(w.udpMux))
	case "tcp":
		w.ln = newC15Listener()
		w.ln.addr = &net.TCPAddr{IP: net.ParseIP(muxIP), Port: 8443}
		w.tcpMux = &fnCountingTCPMux{inner: NewTCPMuxDefault(TCPMuxParams{Listener: w.ln, Logger: lf.NewLogger("mux"), ReadBufferSize: 8})}
		opts = append(opts, WithTCPMux(w.tcpMux))
	}
	var (
		a   *Agent
		err error
	)
	if cfg.ViaConfig {
		// the same configuration through the AgentConfig struct (NewAgent)
		tmo := 40 * time.Millisecond
		ac := &AgentConfig{
			Net: w.fn, LoggerFactory: lf, MulticastDNSMode: MulticastDNSModeDisabled, CandidateTypes: cfg.Types, STUNGatherTimeout: &tmo,
			PortMin: cfg.PortMin, PortMax: cfg.PortMax, IncludeLoopback: cfg.Loopback,
		}
		if cfg.NetTypesSet {
			ac.NetworkTypes = cfg.NetTypes
		}
		if len(cfg.IfaceReject) > 0 {
			ac.InterfaceFilter = func(n string) bool { return !cfg.IfaceReject[n] }
		}
		if len(cfg.IPReject) > 0 {
			ac.IPFilter = func(ip net.IP) bool {
				a, _ := netip.AddrFromSlice(ip)

				return !cfg.IPReject[a.Unmap().String()]
			}
		}
		ac.Urls = urls
		if w.udpMux != nil {
			ac.UDPMux = w.udpMux
		}
		if w.tcpMux != nil {
			ac.TCPMux = w.tcpMux
		}
		a, err = NewAgent(ac)
	} else {
		a, err = NewAgentWithOptions(opts...)
	}
	if err != nil {
		return nil, err
	}
	a.turnClientFactory = w.fn.turnFactory
	if cfg.MDNS {
		// gather mode without a multicast socket: set in-package after construction
		_ = a.loop.Run(a.loop, func(context.Context) {
			a.mDNSMode = MulticastDNSModeQueryAndGather
			a.mDNSName = "verif-host-name.local"
		})
	}
	w.agent = a
	_ = a.OnCandidate(func(c Candidate) {
		w.eventsMu.Lock()
		defer w.eventsMu.Unlock()
		if c == nil {
			w.events = append(w.events, "nil")
			w.nils++

			return
		}
		uf, _ := c.GetExtension("ufrag")
		w.events = append(w.events, "cand:"+uf.Value)
		w.cands = append(w.cands, c)
	})

	return w, nil
}

func (w *c18World) gatheringState() GatheringState {
	s, _ := w.agent.GetGatheringState()

	return s
}

func TestVerif_C18_Gather(t *testing.T) {
	st := vfNewStats(t)
	rapid.Check(t, func(rt *rapid.T) {
		cfg := c18ConfigGen().Draw(rt, "config")
		w, err := newC18World(cfg)
		if err != nil {
			// constructor-level rejections (e.g. port range) are not the subject
			st.Exclude("constructor-rejected:" + strings.SplitN(err.Error(), ":", 2)[0])

			return
		}
		defer w.shutdownMuxes()
		defer func() {
			done := make(chan struct{})
			go func() { _ = w.agent.Close(); close(done) }()
			select {
			case <-done:
			case <-time.After(20 * time.Second):
			}
		}()
		fail := func(sig, format string, args ...any) {
			st.Fail(rt, sig, "%s\nconfig: %s", fmt.Sprintf(format, args...), cfg)
		}
		eligible := c18Eligible(cfg)
		lbl := map[string]bool{}
		script := rapid.SampledFrom([]string{"once", "once", "twice-back-to-back", "two-goroutines", "after-complete", "restart-early", "restart-mid", "restart-after-complete"}).Draw(rt, "script")
		if g := w.gatheringState(); g != GatheringStateNew {
			fail("C18/cycle/initial-state", "gathering state %s before any gather", g)
		}
		waitDone := func() {
			if !w.waitCycles() {
				dead, dump := vfStuck("pion/ice/v4.(*Agent)")
				if dead {
					fail("C18/cycle/never-completes", "gather cycle never finishes\n%s", dump)
				}
				st.Inconclusive()
				rt.Fatalf("VERIF-INCONCLUSIVE: gather cycle still running after 20 s")
			}
		}
		cyclesCompleted := 0
		switch script {
		case "once":
			if err := w.gather(); err != nil {
				fail("C18/cycle/first-gather-refused", "GatherCandidates: %v", err)
			}
			waitDone()
			cyclesCompleted = 1
		case "twice-back-to-back":
			e1 := w.gather()
			e2 := w.gather()
			if e1 != nil || !errors.Is(e2, ErrMultipleGatherAttempted) {
				// the second call may only be accepted if the state is still New — the first cycle sets Gathering
				// from its own goroutine, so an accepted second call must not lead to overlapping cycles (checked below)
				if e1 != nil {
					fail("C18/cycle/first-gather-refused", "GatherCandidates: %v", e1)
				}
				lbl["second-call-accepted-while-state-still-New"] = true
			}
			waitDone()
			cyclesCompleted = 1
		case "two-goroutines":
			var wg sync.WaitGroup
			errs := make([]error, 2)
			for i := range errs {
				wg.Add(1)
				go func(i int) { defer wg.Done(); errs[i] = w.agent.GatherCandidates() }(i)
			}
			wg.Wait()
			_ = w.agent.loop.Run(w.agent.loop, func(context.Context) {
				if w.agent.gatherCandidateDone != nil {
					w.cycles = append(w.cycles, w.agent.gatherCandidateDone)
				}
			})
			if errs[0] != nil && errs[1] != nil {
				fail("C18/cycle/first-gather-refused", "both concurrent GatherCandidates calls failed: %v / %v", errs[0], errs[1])
			}
			waitDone()
			// give a possibly superseded first cycle time to end as well: it was cancelled by the second call
			cyclesCompleted = 1
		case "after-complete":
			_ = w.gather()
			waitDone()
			if err := w.gather(); !errors.Is(err, ErrMultipleGatherAttempted) {
				fail("C18/cycle/gather-accepted-after-complete", "GatherCandidates after Complete returned %v", err)
			}
			cyclesCompleted = 1
		case "restart-early", "restart-mid", "restart-after-complete":
			_ = w.gather()
			switch script {
			case "restart-mid":
				c11Jitter(rapid.IntRange(0, 40).Draw(rt, "jitter"))
			case "restart-after-complete":
				waitDone()
				cyclesCompleted++
			}
			if script != "restart-after-complete" && w.gatheringState() == GatheringStateComplete {
				cyclesCompleted++ // the first cycle made it to Complete before the Restart
			}
			if err := w.agent.Restart("", ""); err != nil {
				rt.Fatalf("harness: %v", err)
			}
			if g := w.gatheringState(); g != GatheringStateNew {
				fail("C18/cycle/state-after-restart", "gathering state %s right after Restart", g)
			}
			lbl["restart"] = true
			if err := w.gather(); err != nil {
				fail("C18/cycle/gather-refused-after-restart", "GatherCandidates after Restart: %v", err)
			}
			waitDone()
			cyclesCompleted++
		}
		if g := w.gatheringState(); g != GatheringStateComplete {
			fail("C18/cycle/not-complete", "gathering state %s after the cycle finished (script %s)", g, script)
		}
		// let the candidate notifications drain
		for d := time.Now().Add(20 * time.Second); time.Now().Before(d); {
			n := w.agent.candidateNotifier
			n.Lock()
			idle := !n.runningCandidates && len(n.candidates) == 0
			n.Unlock()
			if idle {
				break
			}
			time.Sleep(50 * time.Microsecond)
		}
		w.eventsMu.Lock()
		events := append([]string{}, w.events...)
		published := append([]Candidate{}, w.cands...)
		nils := w.nils
		w.eventsMu.Unlock()
		curUfrag, _, _ := w.agent.GetLocalUserCredentials()
		// cycle control: per generation (ufrag) at most one nil candidate, after all candidates of that
		// generation; the last cycle ran to completion, so the last event is its nil; no candidate of an old
		// generation after the first candidate (or the nil) of a newer one.
		_ = cyclesCompleted
		restartRacy := script == "restart-early" || script == "restart-mid"
		maxNils := 1
		if script == "restart-after-complete" || restartRacy {
			maxNils = 2
		}
		minNils := 1
		if script == "restart-after-complete" {
			minNils = 2
		}
		if nils > maxNils {
			fail("C18/cycle/extra-nil-candidate", "%d nil candidate events (script %s allows at most %d): %v", nils, script, maxNils, events)
		}
		if nils < minNils {
			fail("C18/cycle/missing-nil-candidate", "%d nil candidate events (script %s needs %d): %v", nils, script, minNils, events)
		}
		if len(events) > 0 && events[len(events)-1] != "nil" {
			fail("C18/cycle/nil-not-last", "the nil candidate is not the last event: %v", events)
		}
		gen := ""       // generation of the segment being read
		genClosed := false // a nil was seen for gen
		var past []string
		for _, e := range events {
			if e == "nil" {
				genClosed = true // (two nils in a row are possible when a generation had nothing to publish)

				continue
			}
			u := strings.TrimPrefix(e, "cand:")
			if u == gen {
				if genClosed {
					fail("C18/cycle/candidate-after-nil", "candidate of generation %s published after its nil candidate: %v", u, events)
				}

				continue
			}
			for _, p := range past {
				if p == u {
					fail("C18/cycle/old-generation-after-new", "candidate of generation %s published after a newer generation started: %v", u, events)
				}
			}
			if gen != "" {
				past = append(past, gen)
			}
			gen, genClosed = u, false
		}
		if gen != "" && gen != curUfrag {
			// the last generation that published must be the current one (unless the current one had nothing to publish)
			for _, p := range past {
				if p == curUfrag {
					fail("C18/cycle/old-generation-after-new", "generation order broken: %v (current %s)", events, curUfrag)
				}
			}
		}
		// the peer signals a passive TCP candidate: the agent creates active TCP host candidates of its own
		// (one per local address) and publishes them — they are local candidates like any other
		if rapid.IntRange(0, 3).Draw(rt, "peerSignalsPassiveTCP") == 0 {
			raddr := rapid.SampledFrom([]string{"192.0.2.9", "127.0.0.1", "2001:db8::99", "::1"}).Draw(rt, "remoteTCPAddress")
			if rc, err := NewCandidateHost(&CandidateHostConfig{Network: "tcp", Address: raddr, Port: 9, Component: 1, TCPType: TCPTypePassive}); err == nil {
				_ = w.agent.AddRemoteCandidate(rc)
				waitNoAddRemoteGoroutine()
				for d := time.Now().Add(20 * time.Second); time.Now().Before(d); {
					n := w.agent.candidateNotifier
					n.Lock()
					idle := !n.runningCandidates && len(n.candidates) == 0
					n.Unlock()
					if idle {
						break
					}
					time.Sleep(50 * time.Microsecond)
				}
				w.eventsMu.Lock()
				if len(w.cands) > len(published) {
					lbl["active-tcp-candidates-published"] = true
				}
				published = append([]Candidate{}, w.cands...)
				w.eventsMu.Unlock()
				lbl["remote-passive-tcp:"+raddr] = true
			}
		}
		local, _ := w.agent.GetLocalCandidates()
		all := append(append([]Candidate{}, published...), local...)
		// soundness
		w.fn.mu.Lock()
		socks := append([]*fnSock{}, w.fn.socks...)
		w.fn.mu.Unlock()
		for _, c := range all {
			if !hasType(cfg.Types, c.Type()) {
				fail("C18/sound/type-not-enabled", "published %s but candidate types are %v", c, cfg.Types)
			}
			if !c18NetEnabled(cfg, c.NetworkType()) {
				fail("C18/sound/network-type-not-enabled", "published %s (%s) but network types are %v", c, c.NetworkType(), cfg.NetTypes)
			}
			if cfg.MDNS && c.Type() != CandidateTypeHost {
				// in mDNS gather mode the local IP is what is being hidden: it must not travel in the related
				// address of a reflexive or relay candidate either
				if r := c.RelatedAddress(); r != nil {
					if rip, err := netip.ParseAddr(r.Address); err == nil && !rip.IsUnspecified() {
						for _, ifc := range cfg.Ifaces {
							for _, a := range ifc.Addrs {
								if la, err := netip.ParseAddr(a); err == nil && la.Unmap() == rip.Unmap() {
									fail("C18/sound/mdns-local-ip-in-related-address", "mDNS gather mode, but %s carries the local address %s as its related address", c, rip)
								}
							}
						}
					}
				}
			}
			if cfg.MDNS && c.Type() == CandidateTypeHost {
				if c.Address() != "verif-host-name.local" {
					fail("C18/sound/mdns-name-not-used", "host candidate exposes %q in mDNS gather mode", c.Address())
				}

				continue
			}
			ip, perr := netip.ParseAddr(c.Address())
			if perr != nil {
				continue
			}
			ip = ip.Unmap()
			if ip.Is4() && ip.IsUnspecified() {
				lbl["published-0.0.0.0"] = true // (IPv4 twin of D21; outside the letter of the property, counted only)
			}
			if ip.Is6() {
				b := ip.As16()
				v4compat := true
				for _, x := range b[:12] {
					if x != 0 {
						v4compat = false
					}
				}
				if ip.IsLoopback() {
					v4compat = false // (::1 is the loopback address, not an IPv4-compatible one; :: stays flagged: D21)
				}
				if ip.IsLinkLocalUnicast() || (b[0] == 0xfe && b[1]&0xc0 == 0xc0) || v4compat {
					sig := "C18/sound/special-purpose-address"
					if ip.IsUnspecified() && c.Type() == CandidateTypeServerReflexive && cfg.SrflxMapped > 0 {
						// D21 (known finding): srflx rewrite rules without a mapping for this family fall back to
						// the wildcard listen address
						sig = "C18/sound/special-purpose-address/wildcard-address-from-srflx-rule-fallback"
					}
					fail(sig, "published %s: link-local / site-local / IPv4-compatible IPv6", c)
				}
			}
			// (active TCP candidates dial through a socket of the agent's own; passive ones sit on the mux's listener)
			borrowed := (cfg.Mux == "udp" && !c.NetworkType().IsTCP()) || (c.NetworkType().IsTCP() && c.TCPType() != TCPTypeActive)
			if c.Type() == CandidateTypeHost && !borrowed {
				if _, ok := eligible[ip.String()]; !ok {
					fail("C18/sound/ineligible-address", "host candidate on %s which the filters / loopback setting / interface state exclude (eligible: %v)", ip, eligible)
				}
				// (the port range is a range of UDP ports; an active TCP candidate dials from a port of the OS's choosing)
				if !c.NetworkType().IsTCP() && (cfg.PortMin != 0 && c.Port() < int(cfg.PortMin) || cfg.PortMax != 0 && c.Port() > int(cfg.PortMax)) {
					fail("C18/sound/port-out-of-range", "host candidate port %d outside %d-%d", c.Port(), cfg.PortMin, cfg.PortMax)
				}
			}
			// (in mDNS gather mode the related address no longer names the base; the sockets themselves are judged below)
			if c.Type() == CandidateTypeServerReflexive && cfg.Mux != "udp" && !cfg.MDNS {
				if r := c.RelatedAddress(); r != nil {
					if cfg.PortMin != 0 && r.Port < int(cfg.PortMin) || cfg.PortMax != 0 && r.Port > int(cfg.PortMax) {
						fail("C18/sound/port-out-of-range", "srflx base port %d outside %d-%d", r.Port, cfg.PortMin, cfg.PortMax)
					}
					if rip, err := netip.ParseAddr(r.Address); err == nil && !rip.IsUnspecified() {
						if _, ok := eligible[rip.Unmap().String()]; !ok {
							fail("C18/sound/ineligible-address", "srflx base %s not eligible (eligible: %v)", rip, eligible)
						}
					}
				}
			}
		}
		// sockets the agent opened itself sit on eligible addresses and in the port range
		for _, s := range socks {
			if s.kind != "udp" {
				continue
			}
			if !s.local.Addr().IsUnspecified() {
				if _, ok := eligible[s.local.Addr().String()]; !ok {
					fail("C18/sound/socket-on-ineligible-address", "the agent bound %s (eligible: %v)", s.local, eligible)
				}
			} else if (len(cfg.IfaceReject) > 0 || len(cfg.IPReject) > 0) && (s.tag == "(ListenPacket)" || cfg.SrflxMapped == 0) {
				// (the rule-mapped srflx gatherer listens on the wildcard address by design and is left out)
				// with an interface or IP filter configured the reflexive / relay gatherers bind the accepted
				// addresses one by one; a wildcard socket would sit on the refused ones as well
				fail("C18/sound/wildcard-socket-despite-filter", "the agent bound the wildcard address %s although an interface/IP filter is configured (iface filter %v, IP filter %v)", s.local, cfg.IfaceReject, cfg.IPReject)
			}
			if s.tag != "(ListenPacket)" && (cfg.PortMin != 0 && s.local.Port() < cfg.PortMin || cfg.PortMax != 0 && s.local.Port() > cfg.PortMax) {
				fail("C18/sound/port-out-of-range", "the agent bound port %d outside %d-%d", s.local.Port(), cfg.PortMin, cfg.PortMax)
			}
		}
		// completeness (host, own sockets, UDP)
		nElig, nExpected := 0, 0
		w.fn.mu.Lock()
		portBusy := w.fn.inUseFailures
		w.fn.mu.Unlock()
		if portBusy > 0 {
			// a port of the configured range was still held (by a superseded cycle winding down, or by a sibling
			// socket): "unless the range is exhausted" — completeness is not judged
			lbl["port-range-exhausted"] = true
		}
		if hasType(cfg.Types, CandidateTypeHost) && cfg.Mux != "udp" && portBusy == 0 {
			for ipS := range eligible {
				ip := netip.MustParseAddr(ipS)
				nt := NetworkTypeUDP4
				if ip.Is6() {
					nt = NetworkTypeUDP6
				}
				nElig++
				if !c18NetEnabled(cfg, nt) {
					continue
				}
				if ip.Is6() && ip.IsLinkLocalUnicast() && !cfg.MDNS {
					continue // never published (location tracking)
				}
				// the listen must have been possible: with a port range several sockets on one IP may exhaust it
				if cfg.PortMin != 0 && cfg.PortMin == cfg.PortMax && hasType(cfg.Types, CandidateTypeServerReflexive) {
					continue
				}
				nExpected++
				found := false
				for _, c := range local {
					if c.Type() != CandidateTypeHost || c.NetworkType() != nt {
						continue
					}
					if cfg.MDNS {
						if ap := c.addrPort(); ap.IsValid() && ap.Addr().Unmap().WithZone("") == ip {
							found = true
						}
					} else if a, err := netip.ParseAddr(c.Address()); err == nil && a.Unmap().WithZone("") == ip {
						found = true
					}
				}
				if !found {
					sig := "C18/complete/host-candidate-missing"
					if cfg.NetTypesSet && len(cfg.NetTypes) == 0 || !cfg.NetTypesSet {
						sig = "C18/complete/empty-network-types-gather-nothing"
					}
					fail(sig, "eligible address %s (%s) has no host candidate; local candidates: %v", ip, nt, local)
				}
			}
		}
		// completeness of rule-mapped srflx candidates: one per external IP (own socket each), unless ports ran out
		if cfg.SrflxMapped > 0 && c18NetEnabled(cfg, NetworkTypeUDP4) && portBusy == 0 && !(cfg.PortMin != 0 && cfg.PortMax != 0) && cyclesCompleted > 0 {
			lbl["srflx-mapped"] = true
			for i := 0; i < cfg.SrflxMapped; i++ {
				want := fmt.Sprintf("203.0.113.%d", 60+i)
				found := false
				for _, c := range local {
					if c.Type() == CandidateTypeServerReflexive && c.Address() == want {
						found = true
					}
				}
				if !found {
					fail("C18/complete/mapped-srflx-candidate-missing", "rewrite rule maps to %s but no srflx candidate carries it; local candidates: %v", want, local)
				}
			}
		}
		if cfg.Mux == "tcp" && hasType(cfg.Types, CandidateTypeHost) && !cfg.MDNS {
			if _, ok := eligible["10.0.0.5"]; ok && c18NetEnabled(cfg, NetworkTypeTCP4) {
				found := false
				for _, c := range local {
					if c.NetworkType() == NetworkTypeTCP4 && c.Address() == "10.0.0.5" && c.TCPType() == TCPTypePassive {
						found = true
					}
				}
				if !found {
					fail("C18/complete/tcp-host-candidate-missing", "TCP mux serves eligible 10.0.0.5 but no passive TCP host candidate exists: %v", local)
				}
				lbl["tcp-passive"] = true
			}
		}
		var labels []string
		for l := range lbl {
			labels = append(labels, l)
		}
		labels = append(labels, "script:"+script)
		nonDefault := cfg.NetTypesSet || cfg.PortMin != 0 || cfg.PortMax != 0 || len(cfg.IfaceReject) > 0 || len(cfg.IPReject) > 0 || cfg.Loopback || cfg.MDNS || cfg.Mux != ""
		ineligible := 0
		for _, ifc := range cfg.Ifaces {
			for _, a := range ifc.Addrs {
				if _, ok := eligible[netip.MustParseAddr(a).Unmap().String()]; !ok {
					ineligible++
				}
			}
		}
		nontrivial := (nElig >= 2 && ineligible >= 1 && nonDefault) || script == "restart-mid"
		st.Record(vfHashStr(cfg.String()+script), nontrivial, labels...)
		if nontrivial && st.WantSample() {
			st.Sample(func() string {
				return fmt.Sprintf("%s script=%s → eligible=%v expectedHost=%d published=%d events=%v", cfg, script, eligible, nExpected, len(local), events)
			})
		}
	})
}

// TestVerif_C18_ContinualRestart: the GatherContinually policy (a monitor goroutine re-gathers when a new
// interface address appears) across Restart.  While a cycle is live a new address yields a host candidate;
// Restart cancels the cycle *and its monitor*: afterwards nothing is published, the state is New and the agent
// holds no candidate or socket, whatever happens to the interface list; a fresh cycle then publishes the
// current addresses under the new ufrag only.
func TestVerif_C18_ContinualRestart(t *testing.T) {
	st := vfNewStats(t)
	lf := logging.NewDefaultLoggerFactory()
	lf.DefaultLogLevel = logging.LogLevelDisabled
	rapid.Check(t, func(rt *rapid.T) {
		nInitial := rapid.IntRange(1, 3).Draw(rt, "initialAddresses")
		addDuring := rapid.Bool().Draw(rt, "addressAppearsDuringCycle")
		addAfterRestart := rapid.IntRange(0, 2).Draw(rt, "addressesAppearingAfterRestart")
		secondCycle := rapid.Bool().Draw(rt, "secondCycle")
		var ifaces []fnIface
		for i := 0; i < nInitial; i++ {
			ifaces = append(ifaces, fnIface{Name: fmt.Sprintf("eth%d", i), Up: true, Addrs: []string{fmt.Sprintf("10.0.%d.1", i)}})
		}
		fn := newFakeNet(ifaces)
		a, err := NewAgentWithOptions(WithNet(fn), WithLoggerFactory(lf), WithMulticastDNSMode(MulticastDNSModeDisabled),
			WithCandidateTypes([]CandidateType{CandidateTypeHost}), WithNetworkTypes([]NetworkType{NetworkTypeUDP4}),
			WithContinualGatheringPolicy(GatherContinually), WithNetworkMonitorInterval(400*time.Microsecond))
		if err != nil {
			rt.Fatalf("harness: %v", err)
		}
		defer func() {
			done := make(chan struct{})
			go func() { _ = a.Close(); close(done) }()
			select {
			case <-done:
			case <-time.After(20 * time.Second):
			}
		}()
		var (
			mu     sync.Mutex
			events []string // "<ufrag> <address>" or "nil"
		)
		_ = a.OnCandidate(func(c Candidate) {
			mu.Lock()
			defer mu.Unlock()
			if c == nil {
				events = append(events, "nil")

				return
			}
			uf, _ := c.GetExtension("ufrag")
			events = append(events, uf.Value+" "+c.Address())
		})
		snapshot := func() []string {
			mu.Lock()
			defer mu.Unlock()

			return append([]string{}, events...)
		}
		waitFor := func(ufrag string, addrs []string) bool {
			for d := time.Now().Add(20 * time.Second); time.Now().Before(d); {
				have := map[string]bool{}
				for _, e := range snapshot() {
					have[e] = true
				}
				all := true
				for _, ad := range addrs {
					if !have[ufrag+" "+ad] {
						all = false
					}
				}
				if all {
					return true
				}
				time.Sleep(100 * time.Microsecond)
			}

			return false
		}
		u1, _, _ := a.GetLocalUserCredentials()
		if err := a.GatherCandidates(); err != nil {
			rt.Fatalf("harness: gather: %v", err)
		}
		addrs := []string{}
		for _, ifc := range ifaces {
			addrs = append(addrs, ifc.Addrs...)
		}
		desc := fmt.Sprintf("initial=%v addDuring=%v addAfterRestart=%d secondCycle=%v", addrs, addDuring, addAfterRestart, secondCycle)
		if !waitFor(u1, addrs) {
			st.Fail(rt, "C18/continual/host-candidate-missing", "not every eligible address got a host candidate within 20 s: events %v (%s)", snapshot(), desc)
		}
		if addDuring {
			fn.addIface(fnIface{Name: "wlan0", Up: true, Addrs: []string{"10.0.9.1"}})
			addrs = append(addrs, "10.0.9.1")
			if !waitFor(u1, []string{"10.0.9.1"}) {
				st.Fail(rt, "C18/continual/new-address-not-gathered", "an address that appeared while the cycle was live got no host candidate within 20 s: events %v (%s)", snapshot(), desc)
			}
		}
		// an address of the first cycle may go away before the Restart and come back during the second cycle
		// (Wi-Fi drops, ICE restart, Wi-Fi is back): knowledge of the old cycle must not keep it from being gathered
		flapIface, flapAddr := "", ""
		if secondCycle && nInitial >= 2 && rapid.Bool().Draw(rt, "addressLeavesBeforeRestartAndReturnsInSecondCycle") {
			flapIface, flapAddr = fmt.Sprintf("eth%d", nInitial-1), fmt.Sprintf("10.0.%d.1", nInitial-1)
			fn.removeIface(flapIface)
			var kept []string
			for _, ad := range addrs {
				if ad != flapAddr {
					kept = append(kept, ad)
				}
			}
			addrs = kept
			time.Sleep(4 * time.Millisecond) // ≥ 10 monitor intervals of the first cycle
		}
		if err := a.Restart("", ""); err != nil {
			rt.Fatalf("harness: restart: %v", err)
		}
		atRestart := len(snapshot())
		for k := 0; k < addAfterRestart; k++ {
			fn.addIface(fnIface{Name: fmt.Sprintf("usb%d", k), Up: true, Addrs: []string{fmt.Sprintf("10.0.2%d.1", k)}})
			addrs = append(addrs, fmt.Sprintf("10.0.2%d.1", k))
			time.Sleep(3 * time.Millisecond)
		}
		time.Sleep(8 * time.Millisecond) // ≥ 20 monitor intervals
		if g, _ := a.GetGatheringState(); g != GatheringStateNew {
			st.Fail(rt, "C18/cycle/state-after-restart", "gathering state %s after Restart (continual policy) (%s)", g, desc)
		}
		if ev := snapshot(); len(ev) != atRestart {
			st.Fail(rt, "C18/continual/published-after-restart", "candidates published after Restart without a new GatherCandidates: %v (%s)", ev[atRestart:], desc)
		}
		if lc, _ := a.GetLocalCandidates(); len(lc) != 0 {
			st.Fail(rt, "C18/continual/candidates-after-restart", "%d local candidate(s) held after Restart: %v (%s)", len(lc), lc, desc)
		}
		for d := time.Now().Add(5 * time.Second); ; {
			open, _, _ := fn.tally()
			if len(open) == 0 {
				break
			}
			if time.Now().After(d) {
				st.Fail(rt, "C18/continual/sockets-after-restart", "sockets still open 5 s after Restart: %v (%s)", open, desc)

				break
			}
			time.Sleep(200 * time.Microsecond)
		}
		if secondCycle {
			u2, _, _ := a.GetLocalUserCredentials()
			if err := a.GatherCandidates(); err != nil {
				st.Fail(rt, "C18/cycle/gather-refused-after-restart", "GatherCandidates after Restart: %v (%s)", err, desc)
			}
			if !waitFor(u2, addrs) {
				st.Fail(rt, "C18/continual/host-candidate-missing", "second cycle: not every current address got a host candidate: events %v (%s)", snapshot()[atRestart:], desc)
			}
			if flapIface != "" {
				// the monitor of the second cycle must have looked at the interface list while the address was away
				// (before its first poll it still compares against what the previous cycle knew: not claimed either way)
				polls := fnIfaceCalls.Load()
				for d := time.Now().Add(20 * time.Second); fnIfaceCalls.Load() < polls+4; {
					if time.Now().After(d) {
						st.Inconclusive()
						rt.Fatalf("VERIF-INCONCLUSIVE: the network monitor did not poll within 20 s")
					}
					time.Sleep(200 * time.Microsecond)
				}
				fn.addIface(fnIface{Name: flapIface, Up: true, Addrs: []string{flapAddr}})
				if !waitFor(u2, []string{flapAddr}) {
					st.Fail(rt, "C18/continual/returning-address-not-gathered", "an address of the first cycle that went away before the Restart and came back during the second cycle got no host candidate within 20 s: events %v (%s)", snapshot()[atRestart:], desc)
				}
			}
			for _, e := range snapshot()[atRestart:] {
				if !strings.HasPrefix(e, u2+" ") {
					st.Fail(rt, "C18/cycle/results-mixed", "event %q after the second GatherCandidates does not carry the new ufrag %s (%s)", e, u2, desc)
				}
			}
		}
		for _, e := range snapshot() {
			if e == "nil" {
				st.Fail(rt, "C18/continual/nil-candidate", "a nil candidate was published under the continual policy: %v (%s)", snapshot(), desc)
			}
		}
		st.Record(vfHashStr(desc+flapIface), addAfterRestart > 0 || addDuring || flapIface != "", fmt.Sprintf("address-after-restart:%v", addAfterRestart > 0), fmt.Sprintf("address-during-cycle:%v", addDuring), fmt.Sprintf("address-leaves-and-returns:%v", flapIface != ""))
		if (addAfterRestart > 0 || addDuring) && st.WantSample() {
			st.Sample(func() string { return desc + fmt.Sprintf(" events=%d", len(snapshot())) })
		}
	})
}
