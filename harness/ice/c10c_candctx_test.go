//go:build verif

package ice

import (
	"context"
	"fmt"
	"net"
	"sync/atomic"
	"testing"
	"time"

	"pgregory.net/rapid"
)

// c10GateConn: a socket whose reads park until it is closed and whose Close can be held back by the checker.
type c10GateConn struct {
	local  *net.UDPAddr
	closed chan struct{}
	gate   chan struct{} // Close waits here
	once   atomic.Bool
}

func (g *c10GateConn) ReadFrom([]byte) (int, net.Addr, error) {
	<-g.closed

	return 0, nil, net.ErrClosed
}
func (g *c10GateConn) WriteTo(p []byte, _ net.Addr) (int, error) { return len(p), nil }
func (g *c10GateConn) Close() error {
	<-g.gate
	if g.once.CompareAndSwap(false, true) {
		close(g.closed)
	}

	return nil
}
func (g *c10GateConn) LocalAddr() net.Addr              { return g.local }
func (g *c10GateConn) SetDeadline(time.Time) error      { return nil }
func (g *c10GateConn) SetReadDeadline(time.Time) error  { return nil }
func (g *c10GateConn) SetWriteDeadline(time.Time) error { return nil }

// TestVerif_C10_CandidateContextRun: a local candidate is the context under which its receive loop submits
// work to the task loop. "A submission returns success exactly when its task ran, an error exactly when it never
// ran" must also hold for that context while the candidate is going away: drawn are the moment of the candidate's
// close relative to the submission (before / while the loop is busy / after) and whether the loop is held.
func TestVerif_C10_CandidateContextRun(t *testing.T) {
	st := vfNewStats(t)
	rapid.Check(t, func(rt *rapid.T) {
		when := rapid.SampledFrom([]string{"closing-before-submission", "closing-while-queued", "open"}).Draw(rt, "candidateClose")
		holdLoop := when == "closing-while-queued" || rapid.Bool().Draw(rt, "loopBusy")
		a, err := NewAgentWithOptions(WithLoggerFactory(simLoggerFactory), WithMulticastDNSMode(MulticastDNSModeDisabled), WithNetworkTypes([]NetworkType{NetworkTypeUDP4}))
		if err != nil {
			rt.Fatalf("harness: %v", err)
		}
		gc := &c10GateConn{local: &net.UDPAddr{IP: net.IPv4(10, 0, 0, 1), Port: 5000}, closed: make(chan struct{}), gate: make(chan struct{})}
		cand, err := NewCandidateHost(&CandidateHostConfig{Network: "udp", Address: "10.0.0.1", Port: 5000, Component: 1})
		if err != nil {
			rt.Fatalf("harness: %v", err)
		}
		if err := a.addCandidate(context.Background(), cand, gc); err != nil {
			rt.Fatalf("harness: %v", err)
		}
		defer func() {
			select {
			case <-gc.gate:
			default:
				close(gc.gate)
			}
			_ = a.Close()
		}()
		release := make(chan struct{})
		if holdLoop {
			entered := make(chan struct{})
			go func() {
				_ = a.loop.Run(a.loop, func(context.Context) { close(entered); <-release })
			}()
			<-entered
		}
		closing := func() {
			go func() { _ = cand.close() }() // closes Done, then waits inside the socket's Close (held by the gate)
			select {
			case <-cand.Done():
			case <-time.After(20 * time.Second):
				rt.Fatalf("harness: candidate did not start closing")
			}
		}
		if when == "closing-before-submission" {
			closing()
		}
		var ran atomic.Bool
		result := make(chan error, 1)
		go func() { result <- a.loop.Run(cand, func(context.Context) { ran.Store(true) }) }()
		if when == "closing-while-queued" {
			c11Jitter(rapid.IntRange(0, 20).Draw(rt, "jitter"))
			closing()
		}
		var got error
		returned := false
		select {
		case got = <-result:
			returned = true
		case <-time.After(200 * time.Millisecond):
		}
		if holdLoop {
			close(release)
		}
		if !returned {
			select {
			case got = <-result:
			case <-time.After(20 * time.Second):
				st.Inconclusive()
				rt.Fatalf("VERIF-INCONCLUSIVE: Run did not return within 20 s")
			}
		}
		desc := fmt.Sprintf("candidate %s, loop busy=%v", when, holdLoop)
		st.Record(vfHashStr(desc), when != "open", "when:"+when)
		if st.WantSample() {
			st.Sample(func() string { return fmt.Sprintf("%s: Run = %v, task ran = %v", desc, got, ran.Load()) })
		}
		if got == nil && !ran.Load() {
			st.Fail(rt, "C10/taskloop/success-without-running", "Run under the candidate's context returned nil although its task never ran (%s): the context reports Done but Err() = %v", desc, cand.Err())
		}
		if got != nil && ran.Load() {
			st.Fail(rt, "C10/taskloop/error-although-task-ran", "Run under the candidate's context returned %v although its task ran (%s)", got, desc)
		}
		select {
		case <-cand.Done():
			if cand.Err() == nil {
				st.Fail(rt, "C10/taskloop/context-done-without-error", "the candidate's context is Done but Err() is nil (%s)", desc)
			}
		default:
		}
	})
}
