//go:build verif

package ice

// C20 — renomination: the latest nomination wins on both sides.

import (
	"errors"
	"fmt"
	"strings"
	"testing"
	"time"

	"github.com/pion/stun/v3"
	"pgregory.net/rapid"
)

// Solo: controlled agent under test, scripted controlling peer sending valued nominations.
func TestVerif_C20_ControlledSolo(t *testing.T) {
	st := vfNewStats(t)
	rapid.Check(t, func(rt *rapid.T) {
		lite := rapid.IntRange(0, 4).Draw(rt, "lite") == 0
		renomEnabled := true // the statement is about agents with renomination enabled
		locals := []duoSockSpec{{Kind: simKindHost}, {Kind: simKindRelayish}}
		if lite {
			locals[1].Kind = simKindHost
		}
		eps := []soloEpSpec{{Typ: CandidateTypeHost}, {Typ: CandidateTypeRelay}}
		cfg := simAgentConfig{controlling: false, lite: lite, maxBinding: 7, disconnected: time.Hour, keepalive: 2 * time.Second, explicitTimeout: true, renomination: renomEnabled,
			checkPriority: rapid.IntRange(0, 2).Draw(rt, "useCandidateCheckPriority") == 0}
		s, err := newSoloSim(cfg, locals, eps)
		if err != nil {
			rt.Fatalf("harness: %v", err)
		}
		defer s.close()
		if err := s.ag.start(s.peer.ufrag, s.peer.pwd); err != nil {
			rt.Fatalf("harness: %v", err)
		}
		// one endpoint may be signalled late: a renomination from it first creates a peer-reflexive candidate,
		// which the signalled candidate supersedes afterwards (pairs keep their identity, C06)
		lateSignal := rapid.IntRange(0, 2).Draw(rt, "lateSignal") == 0
		signalled := map[int]bool{}
		for i := range eps {
			if lateSignal && i == 1 {
				continue
			}
			_ = s.ag.addRemoteSync(s.epCandidate(i, eps[i]))
			signalled[i] = true
		}
		type pk struct{ l, e int }
		key := func(l, e *simSock) pk { return pk{l.idx, e.idx} }
		valid := map[pk]bool{}
		var (
			vMax      *uint32
			pMax      pk
			selModel  *pk
			lbl       = map[string]bool{}
			accepted  []uint32
			arrivals  []string
			prioOf    = map[pk]uint64{}
			deferredP = map[pk]bool{}
		)
		selKey := func() *pk {
			sp := s.ag.selectedPair()
			if sp == nil {
				return nil
			}
			l := s.ag.sockByLocal(sp.Local)
			e := s.epByAddr(sp.Remote.addrPort())
			if l == nil || e == nil {
				return nil
			}
			k := key(l, e)

			return &k
		}
		compare := func(where string) {
			if s.w.elapsed() > 2*time.Second {
				return // a stalled case could run into the 4 s transaction expiry: discarded at the end
			}
			got := selKey()
			if (got == nil) != (selModel == nil) || (got != nil && *got != *selModel) {
				sig := "C20/controlled/selection-differs-from-latest-nomination"
				if got != nil && selModel != nil && deferredP[*selModel] && vMax != nil && *selModel == pMax && prioOf[*selModel] < prioOf[*got] {
					sig = "C20/deferred-nomination/lower-priority-target"
				}
				st.Fail(rt, sig, "%s: agent selected %v, model (latest accepted nomination %v on %v, valid pairs %v) says %v\narrivals: %s",
					where, fmtPK(got), fmtU32(vMax), pMax, valid, fmtPK(selModel), strings.Join(arrivals, "; "))
			}
		}
		// optional plain (valueless) initial nomination
		if rapid.Bool().Draw(rt, "plainInitial") {
			l, e := s.ag.socks[rapid.IntRange(0, 1).Draw(rt, "initL")], s.eps[rapid.IntRange(0, 1).Draw(rt, "initE")]
			s.peerRequest(e, l, true, nil, 100, "controlling", 77)
			for _, d := range s.agentRequests() {
				if ep := s.epByAddr(d.dst); ep == e && d.src == l {
					s.removeInflight(d)
					s.answer(d, ep)
				}
			}
			k := key(l, e)
			valid[k] = true
			selModel = &k
			arrivals = append(arrivals, fmt.Sprintf("plain-nomination(%v)+validated", k))
			compare("after plain initial nomination")
		}
		_ = s.ag.a.loop.Run(s.ag.a.loop, nil2(func() {
			for _, p := range s.ag.a.checklist {
				l := s.ag.sockByLocal(p.Local)
				e := s.epByAddr(p.Remote.addrPort())
				if l != nil && e != nil {
					prioOf[key(l, e)] = p.priority()
				}
			}
		}))
		nOps := rapid.IntRange(1, 25).Draw(rt, "nOps")
		exhausted := false
		wide := rapid.IntRange(0, 2).Draw(rt, "wideValues") == 0
		if wide {
			lbl["values-over-the-24-bit-range"] = true
		}
		for i := 0; i < nOps; i++ {
			op := rapid.SampledFrom([]string{"nominate", "nominate", "nominate", "answer", "answer", "drop", "tick", "signal", "exhaustBudget"}).Draw(rt, "op")
			s.purgeNonRequests()
			switch op {
			case "exhaustBudget":
				// the agent's own checks all get lost until its retry budget is used up: its unvalidated pairs are Failed
				if lite || exhausted {
					continue
				}
				exhausted = true
				for k := 0; k < 10; k++ {
					s.ag.tick()
					for _, d := range s.agentRequests() {
						s.removeInflight(d)
					}
				}
				lbl["own-checks-exhausted"] = true
				arrivals = append(arrivals, "exhaustBudget")
			case "signal":
				if signalled[1] {
					continue
				}
				_ = s.ag.addRemoteSync(s.epCandidate(1, eps[1]))
				signalled[1] = true
				arrivals = append(arrivals, "signal(ep1)")
				if len(deferredP) > 0 {
					lbl["prflx-superseded-with-deferred-nomination"] = true
				}
			case "nominate":
				l := s.ag.socks[rapid.IntRange(0, 1).Draw(rt, "l")]
				e := s.eps[rapid.IntRange(0, 1).Draw(rt, "e")]
				v := uint32(rapid.IntRange(1, 8).Draw(rt, "value")) //nolint:gosec
				if wide {
					// the whole 24-bit value space, with values more than 2^23 apart
					v = rapid.SampledFrom([]uint32{1, 2, 3, 5, 1<<23 - 1, 1 << 23, 1<<23 + 1, 0x900000, 0xF00000, 0xFFFFFE, 0xFFFFFF}).Draw(rt, "wideValue")
				}
				k := key(l, e)
				isValid := valid[k] || lite
				acc := vMax == nil || v > *vMax
				arrivals = append(arrivals, fmt.Sprintf("nominate(v=%d on %v valid=%v)", v, k, isValid))
				if !isValid {
					lbl["nomination-before-pair-valid"] = true
				}
				if !acc {
					lbl["stale-or-duplicate-nomination"] = true
				}
				if acc {
					vv := v
					vMax, pMax = &vv, k
					accepted = append(accepted, v)
					if isValid {
						selModel = &k
						if lite {
							valid[k] = true
						}
					} else {
						deferredP[k] = true
						if selModel != nil && prioOf[k] < prioOf[*selModel] {
							lbl["deferred-target-has-lower-priority"] = true
						}
					}
				}
				s.peerRequest(e, l, true, &v, 100, "controlling", 77)
				if acc && !isValid {
					// an accepted nomination on a pair that is not valid yet needs a check of the agent's own,
					// whatever the pair's state (waiting, in progress, or failed after an exhausted budget)
					found := false
					for _, d := range s.agentRequests() {
						if ep := s.epByAddr(d.dst); ep == e && d.src == l {
							found = true
						}
					}
					if !found {
						st.Fail(rt, "C20/controlled/no-triggered-check-for-deferred-nomination", "step %d: nomination v=%d accepted on %v, which is not valid, but no check of the agent's own is on its way (budget exhausted before: %v)\narrivals: %s",
							i, v, k, exhausted, strings.Join(arrivals, "; "))
					}
					if exhausted {
						lbl["nomination-on-failed-pair"] = true
					}
				}
			case "answer":
				reqs := s.agentRequests()
				if len(reqs) == 0 {
					continue
				}
				d := reqs[rapid.IntRange(0, len(reqs)-1).Draw(rt, "which")]
				ep := s.epByAddr(d.dst)
				s.removeInflight(d)
				if ep == nil {
					continue
				}
				k := key(d.src, ep)
				arrivals = append(arrivals, fmt.Sprintf("validated(%v)", k))
				valid[k] = true
				if vMax != nil && k == pMax {
					selModel = &k
				}
				s.answer(d, ep)
			case "drop":
				reqs := s.agentRequests()
				if len(reqs) == 0 {
					continue
				}
				s.removeInflight(reqs[rapid.IntRange(0, len(reqs)-1).Draw(rt, "which")])
				arrivals = append(arrivals, "drop-check")
			case "tick":
				s.ag.tick()
				arrivals = append(arrivals, "tick")
			}
			compare(fmt.Sprintf("step %d (%s)", i, op))
		}
		if s.w.elapsed() > 2*time.Second {
			st.Inconclusive()

			return
		}
		var labels []string
		for l := range lbl {
			labels = append(labels, l)
		}
		desc := fmt.Sprintf("lite=%v renomEnabled=%v %s", lite, renomEnabled, strings.Join(arrivals, "; "))
		nontrivial := lbl["nomination-before-pair-valid"] || lbl["stale-or-duplicate-nomination"] || lbl["prflx-superseded-with-deferred-nomination"] || lbl["nomination-on-failed-pair"]
		st.Record(vfHashStr(desc), nontrivial && len(accepted) > 0, labels...)
		if nontrivial && st.WantSample() {
			st.Sample(func() string { return desc })
		}
	})
}

func nil2(f func()) func(ctxT) { return func(ctxT) { f() } }

func fmtU32(v *uint32) string {
	if v == nil {
		return "none"
	}

	return fmt.Sprint(*v)
}

func fmtPK(v any) string {
	return strings.TrimPrefix(fmt.Sprintf("%+v", v), "&")
}

// Duo: controlling agent renominates over valid pairs; delivery order / duplication / loss drawn.
func TestVerif_C20_Duo(t *testing.T) {
	st := vfNewStats(t)
	rapid.Check(t, func(rt *rapid.T) {
		c := duoCase{NoSignal: map[string]bool{}, MaxBinding: 7, ReusePorts: true, Renom: true}
		c.Controlling = rapid.IntRange(0, 1).Draw(rt, "controlling")
		for side := 0; side < 2; side++ {
			n := rapid.IntRange(2, 3).Draw(rt, "nSocks")
			for i := 0; i < n; i++ {
				c.Socks[side] = append(c.Socks[side], duoSockSpec{Kind: rapid.SampledFrom([]int{simKindHost, simKindSrflx, simKindRelayish}).Draw(rt, "kind")})
			}
		}
		stride := rapid.SampledFrom([]uint32{0, 0, 2, 3}).Draw(rt, "wideValueGenerator")
		// (the option that makes plain nominations respect pair priorities says nothing about renominations)
		checkPrio := rapid.IntRange(0, 2).Draw(rt, "useCandidateCheckPriority") == 0
		d, err := newDuoSim(c, func(_ int, cfg *simAgentConfig) { cfg.nomStride = stride; cfg.checkPriority = checkPrio })
		if err != nil {
			rt.Fatalf("harness: %v", err)
		}
		defer d.close()
		if err := d.addLocals(); err != nil {
			rt.Fatalf("harness: %v", err)
		}
		if err := d.startBoth(); err != nil {
			rt.Fatalf("harness: %v", err)
		}
		d.signalAll()
		d.fairSuffix(10, nil)
		if sig, msg := d.mirrorCheck(); sig != "" {
			rt.Fatalf("harness: initial connection failed: %s %s", sig, msg)
		}
		A := d.ag[c.Controlling]
		B := d.ag[1-c.Controlling]
		// valid pairs on the controlling side
		var validPairs []*CandidatePair
		_ = A.a.loop.Run(A.a.loop, nil2(func() {
			for _, p := range A.a.checklist {
				if p.state == CandidatePairStateSucceeded {
					validPairs = append(validPairs, p)
				}
			}
		}))
		if len(validPairs) < 2 {
			st.Record(vfHash(c.String(), "one-valid-pair"), false, "single-valid-pair")

			return
		}
		type issued struct {
			pair   *CandidatePair
			reqID  int // datagram id of the nomination request
			value  uint32
			reqOK  bool // request delivered (not dropped)
			respOK bool // response delivered
		}
		var hist []issued
		lbl := map[string]bool{}
		script := []string{}
		nSteps := rapid.IntRange(1, 20).Draw(rt, "nSteps")
		renoms := 0
		for i := 0; i < nSteps; i++ {
			op := rapid.SampledFrom([]string{"renominate", "deliver", "deliver", "deliver", "deliverLast", "drop", "dup"}).Draw(rt, "op")
			arg := rapid.IntRange(0, 7).Draw(rt, "arg")
			switch op {
			case "renominate":
				if renoms >= 5 {
					continue
				}
				p := validPairs[arg%len(validPairs)]
				from := d.w.logLen()
				if err := A.a.RenominateCandidate(p.Local, p.Remote); err != nil {
					st.Fail(rt, "C20/controlling/renominate-error", "RenominateCandidate on a valid pair: %v", err)
				}
				renoms++
				for _, e := range d.w.emittedSince(from, A.side) {
					if e.msg != nil && e.msg.nomination != nil {
						hist = append(hist, issued{pair: p, reqID: e.id, value: *e.msg.nomination})
						script = append(script, fmt.Sprintf("renominate(%s v=%d)", pairKey(p), *e.msg.nomination))
					}
				}
			case "deliver", "deliverLast":
				n := d.w.inflightLen()
				if n == 0 {
					continue
				}
				idx := arg % n
				if op == "deliverLast" {
					idx = n - 1
				}
				if idx != 0 {
					lbl["reordered"] = true
				}
				dg := d.w.take(idx)
				d.w.deliver(dg)
				script = append(script, fmt.Sprintf("deliver(%s)", dg))
			case "drop":
				dg := d.w.take(arg)
				if dg == nil {
					continue
				}
				d.w.logEvent(simEvent{kind: "drop", side: dg.src.side, d: dg})
				lbl["loss"] = true
				script = append(script, fmt.Sprintf("drop(%s)", dg))
			case "dup":
				dg := d.w.peek(arg)
				if dg == nil {
					continue
				}
				cp := *dg
				cp.dup = true
				d.w.mu.Lock()
				d.w.nextID++
				d.w.inflight = append(d.w.inflight, &cp)
				d.w.mu.Unlock()
				lbl["duplicate"] = true
				script = append(script, fmt.Sprintf("dup(%s)", dg))
			}
		}
		d.deliverAll()
		if len(hist) == 0 {
			st.Record(vfHash(c.String(), script), false, "no-renomination")

			return
		}
		// fate of the latest renomination from the harness log
		last := &hist[len(hist)-1]
		if stride == 3 {
			last = &hist[0] // (the first of equal values is the one that counts)
			// generator past 2^24: the nomination that counts is the one with the highest value on the wire
			lbl["generator-past-2^24"] = true
			for i := range hist {
				if hist[i].value > last.value {
					last = &hist[i]
				}
			}
		}
		d.w.mu.Lock()
		var lastTxid [stun.TransactionIDSize]byte
		for _, e := range d.w.log {
			if e.kind == "emit" && e.d.id == last.reqID {
				lastTxid = e.d.msg.txid
			}
		}
		for _, e := range d.w.log {
			if e.kind != "deliver" || e.d.msg == nil {
				continue
			}
			if e.d.msg.txid == lastTxid && e.d.msg.class == stun.ClassRequest {
				last.reqOK = true
			}
			if e.d.msg.txid == lastTxid && e.d.msg.class == stun.ClassSuccessResponse {
				last.respOK = true
			}
		}
		d.w.mu.Unlock()
		desc := fmt.Sprintf("%s | %s", c, strings.Join(script, "; "))
		// on the controlled side the target pair may have needed a triggered check: all of that was drained
		// by deliverAll, loss-free; so if request and response of the latest renomination were delivered
		// both sides must already agree on its pair.
		reissued := 0
		if stride == 3 && !(last.reqOK && last.respOK) {
			// (re-issuing would draw a smaller wire value: the lost highest nomination cannot be repeated)
			st.Exclude("generator-past-2^24:highest-nomination-lost")

			return
		}
		if !(last.reqOK && last.respOK) {
			lbl["latest-renomination-lost"] = true
			for ; reissued < 4; reissued++ {
				if err := A.a.RenominateCandidate(last.pair.Local, last.pair.Remote); err != nil {
					st.Fail(rt, "C20/controlling/renominate-error", "re-issue: %v", err)
				}
				d.deliverAll()
				if pairKey(A.selectedPair()) == pairKey(last.pair) {
					break
				}
			}
		}
		if d.w.elapsed() > 2*time.Second {
			st.Inconclusive()

			return
		}
		var labels []string
		for l := range lbl {
			labels = append(labels, l)
		}
		// did B have the target pair valid when the nomination arrived? (non-triviality)
		targetLowerPrio := false
		if sp := last.pair; sp != nil && len(hist) >= 1 {
			for _, p := range validPairs {
				if p != sp && p.priority() > sp.priority() {
					targetLowerPrio = true
				}
			}
		}
		nontrivial := (lbl["reordered"] || lbl["duplicate"] || lbl["loss"] || len(hist) >= 2) && targetLowerPrio
		st.Record(vfHashStr(desc), nontrivial, labels...)
		if nontrivial && st.WantSample() {
			st.Sample(func() string { return desc })
		}
		if got := pairKey(A.selectedPair()); got != pairKey(last.pair) {
			sig := "C20/controlling/not-on-latest-nomination"
			if len(hist) >= 2 && lbl["reordered"] {
				sig = "C20/controlling/stale-success-applied"
			}
			st.Fail(rt, sig, "controlling agent selected %s, latest renomination (v=%d) targets %s (request delivered=%v response delivered=%v reissued=%d)\n%s",
				got, last.value, pairKey(last.pair), last.reqOK, last.respOK, reissued, desc)
		}
		if sig, msg := d.mirrorCheck(); sig != "" {
			s2 := "C20/duo/not-mirror-images"
			bsel := B.selectedPair()
			if bsel != nil {
				// B stayed on a higher-priority pair although the latest nomination targets another one?
				s2 = "C20/duo/controlled-side-not-on-latest-nomination"
			}
			st.Fail(rt, s2, "%s (%s)\nlatest renomination v=%d on %s\n%s", msg, sig, last.value, pairKey(last.pair), desc)
		}
	})
}

// Only a controlling agent with the feature enabled can renominate.
func TestVerif_C20_Negative(t *testing.T) {
	st := vfNewStats(t)
	rapid.Check(t, func(rt *rapid.T) {
		controlling := rapid.Bool().Draw(rt, "controlling")
		enabled := rapid.Bool().Draw(rt, "enabled")
		unknownPair := rapid.Bool().Draw(rt, "unknownPair")
		cfg := simAgentConfig{controlling: controlling, maxBinding: 7, disconnected: time.Hour, keepalive: 2 * time.Second, explicitTimeout: true, renomination: enabled}
		s, err := newSoloSim(cfg, []duoSockSpec{{Kind: simKindHost}}, []soloEpSpec{{Typ: CandidateTypeHost}, {Typ: CandidateTypeHost}})
		if err != nil {
			rt.Fatalf("harness: %v", err)
		}
		defer s.close()
		if err := s.ag.start(s.peer.ufrag, s.peer.pwd); err != nil {
			rt.Fatalf("harness: %v", err)
		}
		remote := s.epCandidate(0, soloEpSpec{Typ: CandidateTypeHost})
		_ = s.ag.addRemoteSync(remote)
		target := remote
		if unknownPair {
			target = s.epCandidate(1, soloEpSpec{Typ: CandidateTypeHost})
		}
		from := s.w.logLen()
		err = s.ag.a.RenominateCandidate(s.ag.socks[0].cand, target)
		out := s.w.emittedSince(from, 0)
		desc := fmt.Sprintf("controlling=%v enabled=%v unknownPair=%v err=%v emitted=%d", controlling, enabled, unknownPair, err, len(out))
		st.Record(vfHashStr(desc), true)
		st.Sample(func() string { return desc })
		allowed := controlling && enabled && !unknownPair
		if allowed && err != nil {
			st.Fail(rt, "C20/negative/refused-legitimate", "%s", desc)
		}
		if !allowed && (err == nil || len(out) != 0) {
			st.Fail(rt, "C20/negative/accepted-illegitimate", "%s", desc)
		}
		if !controlling && !errors.Is(err, ErrOnlyControllingAgentCanRenominate) {
			st.Fail(rt, "C20/negative/wrong-error", "%s", desc)
		}
	})
}

// TestVerif_C20_AutomaticRenomination: the controlling agent is configured with WithAutomaticRenomination and
// — drawn — with or without the renomination feature itself.  The agents first connect over a relay pair (the
// checker delivers that pair's traffic first), then the direct pair becomes valid.  With the feature the agents
// move to the direct pair, mirror images of each other; without it nobody may nominate anything any more.
func TestVerif_C20_AutomaticRenomination(t *testing.T) {
	st := vfNewStats(t)
	rapid.Check(t, func(rt *rapid.T) {
		feature := rapid.Bool().Draw(rt, "renominationEnabled")
		ctl := rapid.IntRange(0, 1).Draw(rt, "controlling")
		extraTicks := rapid.IntRange(1, 4).Draw(rt, "ticksAfterDirectPairValid")
		c := duoCase{NoSignal: map[string]bool{}, MaxBinding: 7, ReusePorts: true, Controlling: ctl}
		c.Socks[ctl] = []duoSockSpec{{Kind: simKindHost}, {Kind: simKindRelayish}}
		c.Socks[1-ctl] = []duoSockSpec{{Kind: simKindHost}}
		d, err := newDuoSim(c, func(side int, cfg *simAgentConfig) {
			cfg.renomination = feature
			if side == ctl {
				cfg.extra = append(cfg.extra, WithAutomaticRenomination(time.Nanosecond))
			}
		})
		if err != nil {
			rt.Fatalf("harness: %v", err)
		}
		defer d.close()
		if err := d.addLocals(); err != nil {
			rt.Fatalf("harness: %v", err)
		}
		if err := d.startBoth(); err != nil {
			rt.Fatalf("harness: %v", err)
		}
		d.signalAll()
		A, B := d.ag[ctl], d.ag[1-ctl]
		relaySock := A.socks[1]
		viaRelay := func(dg *simDgram) bool { return dg.src == relaySock || dg.dst == relaySock.pub }
		// phase 1: only the relay pair's traffic gets through
		for round := 0; round < 12 && (A.selectedPair() == nil || B.selectedPair() == nil); round++ {
			A.tick()
			B.tick()
			for progress := true; progress; {
				progress = false
				d.w.mu.Lock()
				idx := -1
				for i, dg := range d.w.inflight {
					if viaRelay(dg) {
						idx = i

						break
					}
				}
				d.w.mu.Unlock()
				if idx >= 0 {
					d.w.deliver(d.w.take(idx))
					progress = true
				}
			}
		}
		if A.selectedPair() == nil || B.selectedPair() == nil || A.selectedPair().Local.Type() != CandidateTypeRelay {
			rt.Fatalf("harness: the agents did not connect over the relay pair first (A=%v B=%v)", A.selectedPair(), B.selectedPair())
		}
		// phase 2: the direct pair's checks get through as well
		d.deliverAll()
		time.Sleep(50 * time.Microsecond)
		from := d.w.logLen()
		for i := 0; i < extraTicks; i++ {
			A.tick()
			d.deliverAll()
			B.tick()
			d.deliverAll()
		}
		d.fairSuffix(6, nil)
		if d.w.elapsed() > 2*time.Second {
			st.Inconclusive()

			return
		}
		nominationsAfter := 0
		for _, dg := range d.w.emittedSince(from, A.side) {
			if dg.msg != nil && dg.msg.class == stun.ClassRequest && (dg.msg.useCand || dg.msg.nomination != nil) {
				nominationsAfter++
			}
		}
		desc := fmt.Sprintf("feature=%v controlling=%c ticks=%d nominationsAfterConnect=%d final=%s", feature, 'A'+ctl, extraTicks, nominationsAfter, d.snapshotSel())
		st.Record(vfHashStr(desc), true, fmt.Sprintf("renomination-enabled:%v", feature))
		if st.WantSample() {
			st.Sample(func() string { return desc })
		}
		if sig, msg := d.mirrorCheck(); sig != "" {
			st.Fail(rt, "C20/auto/not-mirror-images", "%s (%s)\n%s", msg, sig, desc)
		}
		onDirect := A.selectedPair() != nil && A.selectedPair().Local.Type() == CandidateTypeHost
		if feature {
			if !onDirect {
				st.Fail(rt, "C20/auto/did-not-move-to-the-direct-pair", "automatic renomination is on, the direct pair is valid, but the controlling agent stays on %s\n%s", pairKey(A.selectedPair()), desc)
			}
		} else {
			if nominationsAfter != 0 {
				st.Fail(rt, "C20/auto/nominated-without-the-feature", "renomination is not enabled, yet the controlling agent sent %d nomination request(s) after the connection was up\n%s", nominationsAfter, desc)
			}
			if onDirect {
				st.Fail(rt, "C20/auto/moved-without-the-feature", "renomination is not enabled, yet the selection moved to the direct pair\n%s", desc)
			}
		}
	})
}
