//go:build verif

package ice

import (
	"bytes"
	"context"
	"fmt"
	"net"
	"os"
	"sync"
	"testing"
	"time"

	"github.com/pion/logging"
	"pgregory.net/rapid"
)

// c14DeadlineConn is a gated stream (the checker grants segments) that honours read deadlines the way a socket
// does: once an expired deadline is set, pending and later reads fail with a timeout until the deadline is cleared.
type c14DeadlineConn struct {
	mu       sync.Mutex
	cond     *sync.Cond
	avail    []byte
	waiting  int
	timeouts int
	expired  bool
	closed   bool
	remote   net.Addr
}

func newC14DeadlineConn(i int) *c14DeadlineConn {
	c := &c14DeadlineConn{remote: &net.TCPAddr{IP: net.IPv4(10, 0, 0, byte(2+i)), Port: 2000 + i}}
	c.cond = sync.NewCond(&c.mu)

	return c
}

func (c *c14DeadlineConn) Read(b []byte) (int, error) {
	c.mu.Lock()
	defer c.mu.Unlock()
	for len(c.avail) == 0 && !c.closed && !c.expired {
		c.waiting++
		c.cond.Broadcast()
		c.cond.Wait()
	}
	switch {
	case c.closed:
		return 0, net.ErrClosed
	case c.expired:
		c.timeouts++
		c.cond.Broadcast()

		return 0, os.ErrDeadlineExceeded
	}
	n := copy(b, c.avail)
	c.avail = c.avail[n:]

	return n, nil
}

// wait blocks until pred holds or the connection is closed (false: not within 20 s).
func (c *c14DeadlineConn) wait(pred func() bool) bool {
	deadline := time.Now().Add(20 * time.Second)
	timer := time.AfterFunc(20*time.Second, func() { c.mu.Lock(); c.cond.Broadcast(); c.mu.Unlock() })
	defer timer.Stop()
	for !pred() && !c.closed {
		if time.Now().After(deadline) {
			return false
		}
		c.cond.Wait()
	}

	return true
}

func (c *c14DeadlineConn) grant(seg []byte) bool {
	c.mu.Lock()
	defer c.mu.Unlock()
	w := c.waiting
	c.avail = append(c.avail, seg...)
	c.cond.Broadcast()

	return c.wait(func() bool { return len(c.avail) == 0 && c.waiting > w })
}

func (c *c14DeadlineConn) timedOut() bool {
	c.mu.Lock()
	defer c.mu.Unlock()

	return c.wait(func() bool { return c.timeouts > 0 })
}

func (c *c14DeadlineConn) Write(b []byte) (int, error) { return len(b), nil }
func (c *c14DeadlineConn) Close() error {
	c.mu.Lock()
	c.closed = true
	c.cond.Broadcast()
	c.mu.Unlock()

	return nil
}
func (c *c14DeadlineConn) LocalAddr() net.Addr  { return &net.TCPAddr{IP: net.IPv4(10, 0, 0, 1), Port: 1000} }
func (c *c14DeadlineConn) RemoteAddr() net.Addr { return c.remote }
func (c *c14DeadlineConn) SetDeadline(t time.Time) error {
	return c.SetReadDeadline(t)
}
func (c *c14DeadlineConn) SetReadDeadline(t time.Time) error {
	c.mu.Lock()
	c.expired = !t.IsZero() && !t.After(time.Now())
	c.cond.Broadcast()
	c.mu.Unlock()

	return nil
}
func (c *c14DeadlineConn) SetWriteDeadline(time.Time) error { return nil }

// TestVerif_C14_ReadDeadlineMidFrame: a read deadline set on the packet connection (SetReadDeadline / SetDeadline
// are forwarded to every TCP connection) fires at a drawn point of the byte stream — between frames or after part
// of a frame (header or body) has been consumed — and the peer keeps sending. The stream is truncated for the
// reader at that point: whatever the implementation does afterwards (close the connection, or carry on if it kept
// its position), the packets delivered from that connection must be a prefix of the packets sent, byte-identical,
// containing every frame that was complete before the deadline fired — never a packet fabricated from the middle
// of a frame.
func TestVerif_C14_ReadDeadlineMidFrame(t *testing.T) {
	st := vfNewStats(t)
	lf := logging.NewDefaultLoggerFactory()
	lf.DefaultLogLevel = logging.LogLevelDisabled
	logger := lf.NewLogger("verif")
	pktGen := rapid.Custom(func(t *rapid.T) []byte {
		n := rapid.SampledFrom([]int{1, 2, 3, 4, 6, 20, 255, 256, 257, 1000, 4000}).Draw(t, "len")
		// bodies that read as plausible length headers when the reader loses its position
		fill := rapid.SampledFrom([]byte{0, 1, 2, 4, 'A', 0xff}).Draw(t, "fill")
		b := bytes.Repeat([]byte{fill}, n)
		if n >= 4 && rapid.Bool().Draw(t, "embeddedFrame") {
			copy(b, []byte{0, 2, 'E', 'V'})
		}

		return b
	})
	rapid.Check(t, func(rt *rapid.T) {
		pkts := rapid.SliceOfN(pktGen, 1, 4).Draw(rt, "packets")
		stream := c14Frame(pkts)
		var segs [][]byte
		for rest := stream; len(rest) > 0; {
			n := rapid.SampledFrom([]int{1, 2, 3, 5, 100, 1448, 9000}).Draw(rt, "segment")
			if n > len(rest) {
				n = len(rest)
			}
			segs = append(segs, rest[:n])
			rest = rest[n:]
		}
		fireAfter := rapid.IntRange(0, len(segs)).Draw(rt, "deadlineFiresAfterSegments")
		viaSetDeadline := rapid.Bool().Draw(rt, "viaSetDeadline")
		// (a receive queue that holds whatever a reader that lost its position may fabricate: the grants must not block on it)
		pc := newTCPPacketConn(tcpPacketParams{ReadBuffer: 20000, LocalAddr: &net.TCPAddr{IP: net.IPv4(10, 0, 0, 1), Port: 1000}, Logger: logger})
		defer pc.Close() //nolint:errcheck
		conn := newC14DeadlineConn(0)
		if err := pc.AddConn(conn, nil); err != nil {
			rt.Fatalf("harness: AddConn: %v", err)
		}
		consumed := 0
		for i := 0; i <= len(segs); i++ {
			if i == fireAfter {
				past := time.Now().Add(-time.Second)
				if viaSetDeadline {
					_ = pc.SetDeadline(past)
				} else {
					_ = pc.SetReadDeadline(past)
				}
				if !conn.timedOut() {
					st.Inconclusive()
					rt.Fatalf("VERIF-INCONCLUSIVE: the reader did not notice the expired deadline within 20 s")
				}
			}
			if i == len(segs) {
				break
			}
			if !conn.grant(segs[i]) {
				st.Inconclusive()
				rt.Fatalf("VERIF-INCONCLUSIVE: segment not consumed within 20 s")
			}
			if i < fireAfter {
				consumed += len(segs[i])
			}
		}
		// frames complete before the deadline fired
		completeBefore, off := 0, 0
		for _, p := range pkts {
			off += 2 + len(p)
			if off <= consumed {
				completeBefore++
			}
		}
		midFrame := consumed < len(stream) && func() bool {
			o := 0
			for _, p := range pkts {
				if o == consumed {
					return false
				}
				o += 2 + len(p)
			}

			return o != consumed
		}()
		var got [][]byte
		for k := 0; k <= len(pkts)+2; k++ {
			buf := make([]byte, receiveMTU)
			ctx, cancel := context.WithTimeout(context.Background(), 150*time.Millisecond)
			n, _, err := pc.readFromContext(ctx, buf)
			cancel()
			if err != nil {
				break
			}
			got = append(got, append([]byte{}, buf[:n]...))
		}
		desc := fmt.Sprintf("%d packets of lengths %v, %d segments, deadline fired after %d segments (%d of %d bytes consumed, mid-frame %v, via SetDeadline %v)",
			len(pkts), func() (l []int) {
				for _, p := range pkts {
					l = append(l, len(p))
				}

				return l
			}(), len(segs), fireAfter, consumed, len(stream), midFrame, viaSetDeadline)
		if len(got) > len(pkts) {
			st.Fail(rt, "C14/read-deadline/fabricated-packet", "%d packets delivered, %d sent: %s", len(got), len(pkts), desc)
		}
		for k := range got {
			if !bytes.Equal(got[k], pkts[k]) {
				st.Fail(rt, "C14/read-deadline/fabricated-packet", "packet %d delivered with %d bytes (first %x…), sent %d bytes (first %x…): %s",
					k, len(got[k]), got[k][:min(len(got[k]), 8)], len(pkts[k]), pkts[k][:min(len(pkts[k]), 8)], desc)
			}
		}
		if len(got) < completeBefore {
			st.Fail(rt, "C14/read-deadline/complete-frame-lost", "%d packets delivered although %d frames were complete before the deadline fired: %s", len(got), completeBefore, desc)
		}
		st.Record(vfHash(desc, fmt.Sprint(segs)), midFrame, fmt.Sprintf("mid-frame:%v", midFrame), fmt.Sprintf("fired-at-end:%v", fireAfter == len(segs)))
		if midFrame && st.WantSample() {
			st.Sample(func() string { return desc + fmt.Sprintf(" → %d delivered", len(got)) })
		}
	})
}
