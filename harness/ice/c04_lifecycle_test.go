//go:build verif

package ice

// C04 — connection state follows the documented lifecycle and liveness timing (SimNet solo, hook H1).

import (
	"math"
	"fmt"
	"strings"
	"sync"
	"testing"
	"time"

	"pgregory.net/rapid"
)

type c04Notif struct {
	state     ConnectionState
	step      int
	selNil    bool
	nLocal    int
	nRemote   int
	nPairs    int
	gettersOK bool
}

var c04Durations = []time.Duration{0, 50 * time.Millisecond, 200 * time.Millisecond, time.Second, 5 * time.Second, time.Minute, time.Hour, time.Duration(math.MaxInt64)}

// c04Add adds durations without wrapping ("never" plus anything is still "never").
func c04Add(a, b time.Duration) time.Duration {
	if a > 0 && b > time.Duration(math.MaxInt64)-a {
		return time.Duration(math.MaxInt64)
	}

	return a + b
}

func c04Allowed(from, to ConnectionState, dt time.Duration) bool {
	if to == ConnectionStateClosed {
		return from != ConnectionStateClosed
	}
	switch from {
	case ConnectionStateNew:
		return to == ConnectionStateChecking
	case ConnectionStateChecking:
		return to == ConnectionStateConnected || to == ConnectionStateFailed
	case ConnectionStateConnected:
		return to == ConnectionStateDisconnected || to == ConnectionStateChecking || (to == ConnectionStateFailed && dt == 0)
	case ConnectionStateDisconnected:
		return to == ConnectionStateConnected || to == ConnectionStateFailed || to == ConnectionStateChecking
	case ConnectionStateFailed:
		return to == ConnectionStateChecking
	}

	return false
}

func TestVerif_C04_Lifecycle(t *testing.T) {
	st := vfNewStats(t)
	rapid.Check(t, func(rt *rapid.T) {
		controlling := rapid.Bool().Draw(rt, "controlling")
		lite := !controlling && rapid.IntRange(0, 2).Draw(rt, "lite") == 0
		explicit := !lite || rapid.Bool().Draw(rt, "explicitDisconnectedTimeout")
		dt := rapid.SampledFrom(c04Durations).Draw(rt, "disconnectedTimeout")
		ft := rapid.SampledFrom(c04Durations).Draw(rt, "failedTimeout")
		keepalive := rapid.SampledFrom([]time.Duration{0, 2 * time.Second}).Draw(rt, "keepalive")
		viaConfig := rapid.IntRange(0, 2).Draw(rt, "viaAgentConfig") == 0 || (lite && rapid.Bool().Draw(rt, "liteViaAgentConfig"))
		cfg := simAgentConfig{
			controlling: controlling, lite: lite, maxBinding: 7, disconnected: dt, failed: ft, keepalive: keepalive,
			explicitTimeout: explicit, viaConfig: viaConfig,
		}
		locals := []duoSockSpec{{Kind: simKindHost}, {Kind: simKindHost}}
		eps := []soloEpSpec{{Typ: CandidateTypeHost}, {Typ: CandidateTypeHost}}
		s, err := newSoloSim(cfg, locals, eps)
		if err != nil {
			rt.Fatalf("harness: %v", err)
		}
		defer s.close()
		effDT := dt
		if lite && !explicit {
			effDT = 10 * time.Second // documented lite default (RFC 7675 consent expiry)
		}
		// notifications with in-handler observations (c)
		var (
			nmu    sync.Mutex
			notifs []c04Notif
		)
		_ = s.ag.a.OnConnectionStateChange(func(cs ConnectionState) {
			n := c04Notif{state: cs, step: s.w.step}
			if cs != ConnectionStateClosed {
				sel, e0 := s.ag.a.GetSelectedCandidatePair()
				lc, e1 := s.ag.a.GetLocalCandidates()
				rc, e2 := s.ag.a.GetRemoteCandidates()
				ps := s.ag.a.GetCandidatePairsStats()
				n.selNil, n.nLocal, n.nRemote, n.nPairs = sel == nil, len(lc), len(rc), len(ps)
				n.gettersOK = e0 == nil && e1 == nil && e2 == nil
			}
			nmu.Lock()
			notifs = append(notifs, n)
			nmu.Unlock()
		})
		peerRole := "controlled"
		if !controlling {
			peerRole = "controlling"
		}
		var sampled []ConnectionState
		sample := func() {
			cs := s.ag.state()
			if closedAlready(s.ag) {
				cs = ConnectionStateClosed
			}
			if len(sampled) == 0 || sampled[len(sampled)-1] != cs {
				sampled = append(sampled, cs)
			}
		}
		sample()
		if err := s.ag.start(s.peer.ufrag, s.peer.pwd); err != nil {
			rt.Fatalf("harness: %v", err)
		}
		sample()
		// a controlled agent may learn the peer's address from its checks first (peer-reflexive) and be told
		// the candidate later (op signalLate)
		prflxFirst := !controlling && rapid.IntRange(0, 3).Draw(rt, "remoteSignalledLate") == 0
		signalled := !prflxFirst
		if signalled {
			_ = s.ag.addRemoteSync(s.epCandidate(0, eps[0]))
		}
		restartSteps := map[int]bool{}
		closed := false
		lastRecv := time.Time{} // model of the selected remote's liveness timestamp
		lbl := map[string]bool{}
		visited := map[ConnectionState]bool{}
		nOps := rapid.IntRange(1, 40).Draw(rt, "nOps")
		connect := func() {
			if s.ag.selectedPair() != nil || len(s.ag.socks) == 0 {
				return
			}
			if controlling {
				s.ag.tick()
				for _, d := range s.agentRequests() {
					if ep := s.epByAddr(d.dst); ep == s.eps[0] && d.src == s.ag.socks[0] {
						s.removeInflight(d)
						s.answer(d, ep)
					}
				}
				s.ag.tick()
				for _, d := range s.agentRequests() {
					if ep := s.epByAddr(d.dst); ep == s.eps[0] && d.msg.useCand {
						s.removeInflight(d)
						s.answer(d, ep)
					}
				}
			} else {
				s.peerRequest(s.eps[0], s.ag.socks[0], true, nil, 100, peerRole, 77)
				for _, d := range s.agentRequests() {
					if ep := s.epByAddr(d.dst); ep == s.eps[0] && d.src == s.ag.socks[0] {
						s.removeInflight(d)
						s.answer(d, ep)
					}
				}
			}
			if s.ag.selectedPair() != nil {
				lastRecv = time.Now()
			}
		}
		for i := 0; i < nOps; i++ {
			s.w.step = i + 1
			op := rapid.SampledFrom([]string{"tick", "tick", "tick", "tick", "connect", "connect", "traffic", "data", "data", "silence", "silence", "silence", "restart", "close", "answerAll", "roleSwitch", "trickleTwin", "signalLate"}).Draw(rt, "op")
			if op == "close" && rapid.IntRange(0, 7).Draw(rt, "reallyClose") != 5 {
				op = "tick"
			}
			s.purgeNonRequests()
			prevState := s.ag.state()
			switch op {
			case "tick":
				hadSel := s.ag.selectedPair() != nil
				silence := time.Since(lastRecv)
				s.ag.tick()
				silenceAfter := time.Since(lastRecv) // the agent read its clock somewhere between the two readings
				s.ops = append(s.ops, "tick")
				if closed || !hadSel || (prevState != ConnectionStateConnected && prevState != ConnectionStateDisconnected) {
					break
				}
				after := s.ag.state()
				total := ft
				if total != 0 {
					total = c04Add(total, effDT)
				}
				// a threshold inside [silence−40 ms, silenceAfter+40 ms] cannot be judged, however slow the machine is
				near := func(x time.Duration) bool {
					return x > silence-40*time.Millisecond && x < silenceAfter+40*time.Millisecond
				}
				if (effDT != 0 && near(effDT)) || (total != 0 && near(total)) {
					lbl["threshold-too-close-to-call"] = true

					break
				}
				failed := total != 0 && silence > total
				disc := effDT != 0 && silence > effDT
				want := ConnectionStateConnected
				switch {
				case failed && disc && prevState == ConnectionStateConnected:
					want = ConnectionStateDisconnected
				case failed:
					want = ConnectionStateFailed
				case disc:
					want = ConnectionStateDisconnected
				}
				if want != ConnectionStateConnected {
					lbl["threshold-crossed"] = true
				}
				if prevState == ConnectionStateDisconnected && want == ConnectionStateConnected {
					lbl["recovered"] = true
				}
				if after != want {
					st.Fail(rt, "C04/timing/state-after-tick", "dt=%s ft=%s (lite=%v explicit=%v): silence %s, previous %s: got %s, want %s\nops: %s",
						dt, ft, lite, explicit, silence.Round(time.Millisecond), prevState, after, want, strings.Join(s.ops, "; "))
				}
			case "connect":
				if !closed {
					connect()
					s.ops = append(s.ops, "connect")
				}
			case "traffic":
				sp := s.ag.selectedPair()
				if sp == nil || closed {
					break
				}
				to := s.ag.sockByLocal(sp.Local)
				ep := s.epByAddr(sp.Remote.addrPort())
				if to == nil || ep == nil {
					break
				}
				// an authentic request on the selected pair (answered by the agent) refreshes liveness
				s.peerRequest(ep, to, false, nil, 100, peerRole, 77)
				lastRecv = time.Now()
				s.ops = append(s.ops, "traffic")
			case "roleSwitch":
				// an authenticated check from the selected remote claims the agent's own role with the winning
				// tie-breaker: the agent switches role; selection, state and liveness rules are unaffected
				sp := s.ag.selectedPair()
				if sp == nil || closed || lite {
					break
				}
				to := s.ag.sockByLocal(sp.Local)
				ep := s.epByAddr(sp.Remote.addrPort())
				if to == nil || ep == nil {
					break
				}
				own, tie := "controlled", uint64(0)
				if s.ag.a.isControlling.Load() {
					own, tie = "controlling", ^uint64(0)
				}
				s.peerRequest(ep, to, false, nil, 100, own, tie)
				if s.ag.a.isControlling.Load() == (own == "controlling") {
					break // tie-breaker equal to the boundary value: no switch
				}
				if own == "controlling" {
					peerRole = "controlling"
				} else {
					peerRole = "controlled"
				}
				controlling = !controlling
				// re-synchronise the liveness model (whether the conflicting request counts as traffic is not specified)
				lastRecv = time.Now()
				if setter, ok := sp.Remote.(candidateActivitySetter); ok {
					setter.setLastReceived(lastRecv)
				}
				lbl["role-switch-while-selected"] = true
				s.ops = append(s.ops, "roleSwitch")
			case "data":
				sp := s.ag.selectedPair()
				if sp == nil || closed {
					break
				}
				to := s.ag.sockByLocal(sp.Local)
				ep := s.epByAddr(sp.Remote.addrPort())
				if to == nil || ep == nil {
					break
				}
				// application data from the selected remote is not silence either
				n := rapid.IntRange(1, 3).Draw(rt, "packets")
				for k := 0; k < n; k++ {
					s.inject(ep, to, []byte{0x80, 0x60, byte(k), 1, 2, 3, 4, 5, 6, 7, 8, 9})
				}
				lastRecv = time.Now()
				lbl["data-refreshes-liveness"] = true
				s.ops = append(s.ops, fmt.Sprintf("data×%d", n))
			case "signalLate":
				// the signalled candidate supersedes the peer-reflexive one (also inside the selected pair):
				// signalling is not traffic, the state stays what the silence made it
				if signalled || closed {
					break
				}
				signalled = true
				wasPrflx := false
				if sp := s.ag.selectedPair(); sp != nil && sp.Remote.Type() == CandidateTypePeerReflexive {
					wasPrflx = true
				}
				_ = s.ag.addRemoteSync(s.epCandidate(0, eps[0]))
				if got := s.ag.state(); got != prevState {
					st.Fail(rt, "C04/state/changed-by-signalling", "AddRemoteCandidate of the candidate behind the selected peer-reflexive remote moved the state %s→%s without any traffic\nops: %s", prevState, got, strings.Join(s.ops, "; "))
				}
				if wasPrflx {
					lbl["selected-prflx-superseded"] = true
				}
				s.ops = append(s.ops, "signalLate")
			case "trickleTwin":
				// the peer trickles a second candidate of another type on the transport address of the selected
				// remote (e.g. a server-reflexive candidate equal to its host address): traffic from that address
				// keeps refreshing the selected pair
				sp := s.ag.selectedPair()
				if sp == nil || closed {
					break
				}
				ap := sp.Remote.addrPort()
				var twin Candidate
				var terr error
				if sp.Remote.Type() == CandidateTypeServerReflexive {
					twin, terr = NewCandidateHost(&CandidateHostConfig{Network: "udp", Address: ap.Addr().String(), Port: int(ap.Port()), Component: 1})
				} else {
					twin, terr = NewCandidateServerReflexive(&CandidateServerReflexiveConfig{Network: "udp", Address: ap.Addr().String(), Port: int(ap.Port()), Component: 1, RelAddr: "10.9.9.9", RelPort: 9})
				}
				if terr != nil {
					rt.Fatalf("harness: %v", terr)
				}
				_ = s.ag.addRemoteSync(twin)
				lbl["twin-remote-candidate"] = true
				s.ops = append(s.ops, "trickleTwin")
			case "answerAll":
				for _, d := range s.agentRequests() {
					s.removeInflight(d)
					if ep := s.epByAddr(d.dst); ep != nil && !closed {
						s.answer(d, ep)
						// an authentic matched response refreshes the liveness of the remote it came from
						if sp := s.ag.selectedPair(); sp != nil && sp.Remote.addrPort() == d.dst {
							lastRecv = time.Now()
						}
					}
				}
				s.ops = append(s.ops, "answerAll")
			case "silence":
				sp := s.ag.selectedPair()
				if sp == nil || closed {
					break
				}
				base := rapid.SampledFrom([]time.Duration{0, effDT, c04Add(effDT, ft), ft}).Draw(rt, "silenceBase")
				if base > 1000*time.Hour {
					base = 1000 * time.Hour // "never" thresholds: any finite silence is below them
				}
				delta := rapid.SampledFrom([]time.Duration{-60 * time.Millisecond, 60 * time.Millisecond, -time.Second, time.Second, 0}).Draw(rt, "silenceDelta")
				mult := rapid.SampledFrom([]int{1, 1, 1, 10}).Draw(rt, "silenceMult")
				sil := base*time.Duration(mult) + delta
				if sil < 0 {
					sil = 5 * time.Millisecond
				}
				lastRecv = time.Now().Add(-sil)
				if setter, ok := sp.Remote.(candidateActivitySetter); ok {
					setter.setLastReceived(lastRecv)
				}
				s.ops = append(s.ops, fmt.Sprintf("silence(%s)", sil))
			case "restart":
				if closed {
					_ = s.ag.a.Restart("", "")

					break
				}
				if prevState == ConnectionStateDisconnected || prevState == ConnectionStateFailed {
					lbl["restart-from-disconnected-or-failed"] = true
				}
				restartSteps[s.w.step] = true
				if err := s.ag.restart(); err != nil {
					rt.Fatalf("harness: restart: %v", err)
				}
				s.w.mu.Lock()
				s.w.inflight = nil
				s.w.mu.Unlock()
				for k, l := range locals {
					if _, err := s.ag.addLocal(k, l.V6, l.Kind, true); err != nil {
						rt.Fatalf("harness: %v", err)
					}
				}
				_ = s.ag.a.SetRemoteCredentials(s.peer.ufrag, s.peer.pwd)
				if signalled {
					_ = s.ag.addRemoteSync(s.epCandidate(0, eps[0]))
				}
				s.ops = append(s.ops, "restart")
			case "close":
				_ = s.ag.a.Close()
				s.w.settle()
				closed = true
				lbl["close-mid-history"] = true
				s.ops = append(s.ops, "close")
			}
			s.w.settle()
			sample()
			visited[sampled[len(sampled)-1]] = true
			if cs := sampled[len(sampled)-1]; (cs == ConnectionStateConnected || cs == ConnectionStateDisconnected) && s.ag.selectedPair() == nil {
				st.Fail(rt, "C04/state/connected-without-selected-pair", "after step %d (%s) the agent is %s but has no selected pair\nops: %s", i, op, cs, strings.Join(s.ops, "; "))
			}
		}
		if !closed && rapid.Bool().Draw(rt, "closeAtEnd") {
			s.w.step = nOps + 1
			_ = s.ag.a.Close()
			s.w.settle()
			closed = true
			sample()
		}
		if s.w.elapsed() > 2*time.Second {
			st.Inconclusive()

			return
		}
		nmu.Lock()
		ns := append([]c04Notif{}, notifs...)
		nmu.Unlock()
		seq := []string{}
		for _, n := range ns {
			seq = append(seq, n.state.String())
		}
		desc := fmt.Sprintf("controlling=%v lite=%v explicit=%v dt=%s ft=%s keepalive=%s ops=[%s] callbacks=%v", controlling, lite, explicit, dt, ft, keepalive, strings.Join(s.ops, "; "), seq)
		var labels []string
		for l := range lbl {
			labels = append(labels, l)
		}
		nontrivial := len(visited) >= 4 || (lbl["threshold-crossed"] && lbl["recovered"]) || lbl["restart-from-disconnected-or-failed"]
		st.Record(vfHashStr(desc), nontrivial, labels...)
		if nontrivial && st.WantSample() {
			st.Sample(func() string { return desc })
		}
		// (a) automaton
		prev := ConnectionStateNew
		for i, n := range ns {
			if n.state == prev {
				st.Fail(rt, "C04/lifecycle/consecutive-repeat", "callback %d repeats %s: %s", i, n.state, desc)
			}
			if !c04Allowed(prev, n.state, effDT) {
				st.Fail(rt, "C04/lifecycle/illegal-transition", "callback %d: %s→%s is not an edge (dt=%s): %s", i, prev, n.state, effDT, desc)
			}
			if n.state == ConnectionStateChecking && prev != ConnectionStateNew && !restartSteps[n.step] {
				st.Fail(rt, "C04/lifecycle/checking-without-restart", "callback %d: %s→Checking at step %d which was not a Restart: %s", i, prev, n.step, desc)
			}
			// (c) observations made inside the handler
			if n.gettersOK {
				switch n.state {
				case ConnectionStateConnected, ConnectionStateDisconnected:
					if n.selNil {
						st.Fail(rt, "C04/lifecycle/connected-without-selected-pair", "callback %d (%s) saw no selected pair: %s", i, n.state, desc)
					}
				case ConnectionStateFailed:
					if !n.selNil || n.nLocal != 0 || n.nRemote != 0 || n.nPairs != 0 {
						st.Fail(rt, "C04/lifecycle/failed-with-residue", "callback %d (Failed) saw selectedNil=%v locals=%d remotes=%d pairs=%d: %s", i, n.selNil, n.nLocal, n.nRemote, n.nPairs, desc)
					}
				}
			}
			prev = n.state
		}
		if closed {
			if len(ns) == 0 || ns[len(ns)-1].state != ConnectionStateClosed {
				st.Fail(rt, "C04/lifecycle/closed-not-last", "Close was called but the last callback is not Closed: %s", desc)
			}
		} else {
			for _, n := range ns {
				if n.state == ConnectionStateClosed {
					st.Fail(rt, "C04/lifecycle/closed-without-close", "Closed notified without Close: %s", desc)
				}
			}
		}
		// (b) exactness: sampled states (deduplicated) form a subsequence of the callbacks, same end
		j := 0
		smp := sampled
		if len(smp) > 0 && smp[0] == ConnectionStateNew {
			smp = smp[1:]
		}
		for _, n := range ns {
			if j < len(smp) && smp[j] == n.state {
				j++
			}
		}
		if j != len(smp) {
			st.Fail(rt, "C04/lifecycle/state-not-notified", "states observed after steps %v are not a subsequence of the callbacks: %s", smp, desc)
		}
		if len(ns) > 0 && len(smp) > 0 && ns[len(ns)-1].state != smp[len(smp)-1] {
			st.Fail(rt, "C04/lifecycle/final-state-mismatch", "last callback %s, agent state %s: %s", ns[len(ns)-1].state, smp[len(smp)-1], desc)
		}
	})
}

func closedAlready(ag *simAgent) bool {
	return ag.a.loop.Err() != nil
}

// Checking deadline with real (small) timeouts. Sleeps; few cases.
func TestVerif_C04_CheckingDeadline(t *testing.T) {
	st := vfNewStats(t)
	rapid.Check(t, func(rt *rapid.T) {
		controlling := rapid.Bool().Draw(rt, "controlling")
		dt := time.Duration(rapid.IntRange(0, 60).Draw(rt, "dtMs")) * time.Millisecond
		ft := time.Duration(rapid.SampledFrom([]int{0, 30, 45, 60}).Draw(rt, "ftMs")) * time.Millisecond
		withRestart := rapid.Bool().Draw(rt, "restartAfterDeadlineFailure")
		restartMid := rapid.IntRange(0, 3).Draw(rt, "restartWhileChecking") == 0
		cfg := simAgentConfig{controlling: controlling, maxBinding: 7, disconnected: dt, failed: ft, keepalive: 0, explicitTimeout: true}
		s, err := newSoloSim(cfg, []duoSockSpec{{Kind: simKindHost}}, []soloEpSpec{{Typ: CandidateTypeHost}})
		if err != nil {
			rt.Fatalf("harness: %v", err)
		}
		defer s.close()
		if err := s.ag.start(s.peer.ufrag, s.peer.pwd); err != nil {
			rt.Fatalf("harness: %v", err)
		}
		_ = s.ag.addRemoteSync(s.epCandidate(0, soloEpSpec{Typ: CandidateTypeHost}))
		deadline := dt + ft
		t0 := time.Now()
		s.ag.tick() // the deadline counts from the first tick in Checking
		t0b := time.Now()
		desc := fmt.Sprintf("controlling=%v dt=%s ft=%s restart=%v restartWhileChecking=%v", controlling, dt, ft, withRestart, restartMid)
		st.Record(vfHashStr(desc), ft != 0, fmt.Sprintf("ft0:%v", ft == 0), fmt.Sprintf("restart:%v", withRestart), fmt.Sprintf("restartWhileChecking:%v", restartMid && ft != 0 && dt+ft >= 60*time.Millisecond))
		if st.WantSample() {
			st.Sample(func() string { return desc })
		}
		if got := s.ag.state(); got != ConnectionStateChecking {
			st.Fail(rt, "C04/deadline/early-failure", "%s: state %s right after the first tick", desc, got)
		}
		if restartMid && ft != 0 && deadline >= 60*time.Millisecond {
			// Restart while still Checking begins a new session: its deadline counts from the new session's first tick
			time.Sleep(deadline * 6 / 10)
			if err := s.ag.restart(); err != nil {
				rt.Fatalf("harness: restart: %v", err)
			}
			if _, err := s.ag.addLocal(0, false, simKindHost, true); err != nil {
				rt.Fatalf("harness: %v", err)
			}
			_ = s.ag.a.SetRemoteCredentials(s.peer.ufrag, s.peer.pwd)
			_ = s.ag.addRemoteSync(s.epCandidate(0, soloEpSpec{Typ: CandidateTypeHost}))
			r0 := time.Now()
			s.ag.tick()
			r0b := time.Now()
			if d := deadline + 10*time.Millisecond - time.Since(t0b); d > 0 {
				time.Sleep(d) // just past the deadline of the session that Restart ended
			}
			s.ag.tick()
			if got := s.ag.state(); got != ConnectionStateChecking && time.Since(r0) < deadline-5*time.Millisecond {
				st.Fail(rt, "C04/deadline/restart-while-checking-keeps-old-deadline", "%s: %s %s after the first tick of the session begun by Restart (deadline %s), %s after the first tick of the ended session",
					desc, got, time.Since(r0), deadline, time.Since(t0b))
			}
			time.Sleep(deadline + 25*time.Millisecond - time.Since(r0b))
			s.ag.tick()
			if got := s.ag.state(); got != ConnectionStateFailed {
				st.Fail(rt, "C04/deadline/not-failed-after-deadline", "%s: state %s %s after the first tick of the restarted session (deadline %s)", desc, got, time.Since(r0b), deadline)
			}

			return
		}
		if ft == 0 {
			time.Sleep(dt + 40*time.Millisecond)
			s.ag.tick()
			if got := s.ag.state(); got != ConnectionStateChecking {
				st.Fail(rt, "C04/deadline/failed-with-zero-failed-timeout", "%s: state %s although the failed timeout is disabled", desc, got)
			}

			return
		}
		if deadline >= 50*time.Millisecond {
			time.Sleep(deadline - 25*time.Millisecond - time.Since(t0))
			before := time.Since(t0b)
			s.ag.tick()
			if got := s.ag.state(); got != ConnectionStateChecking && before < deadline-5*time.Millisecond && time.Since(t0) < deadline {
				st.Fail(rt, "C04/deadline/early-failure", "%s: %s after %s (< deadline %s)", desc, got, before, deadline)
			}
		}
		time.Sleep(deadline + 25*time.Millisecond - time.Since(t0b))
		s.ag.tick()
		if got := s.ag.state(); got != ConnectionStateFailed {
			st.Fail(rt, "C04/deadline/not-failed-after-deadline", "%s: state %s %s after the first tick (deadline %s)", desc, got, time.Since(t0b), deadline)
		}
		// Failed is reported only after pairs, candidates and outstanding transactions were released
		if v := c06Take(s.ag.a); len(v.pairs) != 0 || len(v.locals) != 0 || len(v.remotes) != 0 || v.selected != nil || v.pending != 0 || v.byIDLen != 0 {
			st.Fail(rt, "C04/deadline/failed-with-residue", "%s: Failed by the checking deadline left pairs=%d locals=%d remotes=%d pending=%d byID=%d behind",
				desc, len(v.pairs), len(v.locals), len(v.remotes), v.pending, v.byIDLen)
		}
		for _, sk := range s.ag.allSocks {
			if !sk.isClosed() {
				st.Fail(rt, "C04/deadline/failed-with-residue", "%s: socket %s still open in the Failed state", desc, sk.name())
			}
		}
		// a failed agent stays empty until Restart: candidates that turn up late (a slow gatherer, trickled
		// remote candidates) are not taken, and authentic traffic cannot bring it back to Connected
		if rapid.Bool().Draw(rt, "lateCandidatesAfterFailed") {
			_, lerr := s.ag.addLocal(1, false, simKindHost, true)
			_ = s.ag.addRemoteSync(s.epCandidate(0, soloEpSpec{Typ: CandidateTypeHost}))
			s.ag.tick()
			if v := c06Take(s.ag.a); len(v.pairs) != 0 || len(v.locals) != 0 || len(v.remotes) != 0 || v.selected != nil {
				st.Fail(rt, "C04/deadline/failed-agent-takes-candidates", "%s: after Failed (no Restart) a late local candidate (err=%v) and a trickled remote candidate left pairs=%d locals=%d remotes=%d selected=%v",
					desc, lerr, len(v.pairs), len(v.locals), len(v.remotes), v.selected != nil)
			}
			if got := s.ag.state(); got != ConnectionStateFailed {
				st.Fail(rt, "C04/deadline/left-failed-without-restart", "%s: state %s", desc, got)
			}
		}
		if !withRestart {
			return
		}
		// Restart from the deadline failure: the checking deadline starts anew
		if err := s.ag.restart(); err != nil {
			rt.Fatalf("harness: restart: %v", err)
		}
		if _, err := s.ag.addLocal(0, false, simKindHost, true); err != nil {
			rt.Fatalf("harness: %v", err)
		}
		_ = s.ag.a.SetRemoteCredentials(s.peer.ufrag, s.peer.pwd)
		_ = s.ag.addRemoteSync(s.epCandidate(0, soloEpSpec{Typ: CandidateTypeHost}))
		if got := s.ag.state(); got != ConnectionStateChecking {
			st.Fail(rt, "C04/deadline/restart-not-checking", "%s: state %s after Restart from Failed", desc, got)
		}
		r0 := time.Now()
		s.ag.tick()
		if got := s.ag.state(); got != ConnectionStateChecking && time.Since(r0) < deadline-5*time.Millisecond {
			st.Fail(rt, "C04/deadline/early-failure-after-restart", "%s: %s on the first tick %s after Restart (deadline %s starts anew)", desc, got, time.Since(r0), deadline)
		}
		time.Sleep(deadline + 25*time.Millisecond - time.Since(r0))
		s.ag.tick()
		s.ag.tick()
		if got := s.ag.state(); got != ConnectionStateFailed {
			st.Fail(rt, "C04/deadline/not-failed-after-deadline", "%s: state %s %s after Restart (deadline %s)", desc, got, time.Since(r0), deadline)
		}
	})
}
