//go:build verif

package ice

// C09 — every socket the agent opens is closed when its candidate goes away (FakeNet tally).

import (
	"context"
	"fmt"
	"net"
	"net/netip"
	"runtime"
	"strings"
	"sync"
	"testing"
	"time"

	"github.com/pion/logging"
	"github.com/pion/stun/v3"
	"pgregory.net/rapid"
)

type fnHandle struct {
	net.PacketConn
	mu     sync.Mutex
	closes int
	ufrag  string
}

func (h *fnHandle) Close() error {
	h.mu.Lock()
	h.closes++
	h.mu.Unlock()

	return h.PacketConn.Close()
}

type fnCountingUDPMux struct {
	inner   *UDPMuxDefault
	mu      sync.Mutex
	handles []*fnHandle
	removed []string
}

func (m *fnCountingUDPMux) GetConn(ufrag string, addr net.Addr) (net.PacketConn, error) {
	c, err := m.inner.GetConn(ufrag, addr)
	if err != nil {
		return nil, err
	}
	h := &fnHandle{PacketConn: c, ufrag: ufrag}
	m.mu.Lock()
	m.handles = append(m.handles, h)
	m.mu.Unlock()

	return h, nil
}

func (m *fnCountingUDPMux) RemoveConnByUfrag(ufrag string) {
	m.mu.Lock()
	m.removed = append(m.removed, ufrag)
	m.mu.Unlock()
	m.inner.RemoveConnByUfrag(ufrag)
}
func (m *fnCountingUDPMux) GetListenAddresses() []net.Addr { return m.inner.GetListenAddresses() }
func (m *fnCountingUDPMux) Close() error                   { return m.inner.Close() }

type fnCountingTCPMux struct {
	inner   *TCPMuxDefault
	mu      sync.Mutex
	handles []*fnHandle
	removed []string
}

func (m *fnCountingTCPMux) GetConnByUfrag(ufrag string, isIPv6 bool, local net.IP) (net.PacketConn, error) {
	c, err := m.inner.GetConnByUfrag(ufrag, isIPv6, local)
	if err != nil {
		return nil, err
	}
	h := &fnHandle{PacketConn: c, ufrag: ufrag}
	m.mu.Lock()
	m.handles = append(m.handles, h)
	m.mu.Unlock()

	return h, nil
}

func (m *fnCountingTCPMux) RemoveConnByUfrag(ufrag string) {
	m.mu.Lock()
	m.removed = append(m.removed, ufrag)
	m.mu.Unlock()
	m.inner.RemoveConnByUfrag(ufrag)
}
func (m *fnCountingTCPMux) Close() error        { return m.inner.Close() }
func (m *fnCountingTCPMux) LocalAddr() net.Addr { return m.inner.LocalAddr() }

// fnCountingSrflxMux wraps a real UniversalUDPMuxDefault (srflx mux) and counts the handles it hands out.
type fnCountingSrflxMux struct {
	inner   *UniversalUDPMuxDefault
	mu      sync.Mutex
	handles []*fnHandle
	removed []string
}

func (m *fnCountingSrflxMux) wrap(c net.PacketConn, err error, ufrag string) (net.PacketConn, error) {
	if err != nil {
		return nil, err
	}
	h := &fnHandle{PacketConn: c, ufrag: ufrag}
	m.mu.Lock()
	m.handles = append(m.handles, h)
	m.mu.Unlock()

	return h, nil
}

func (m *fnCountingSrflxMux) GetConn(ufrag string, addr net.Addr) (net.PacketConn, error) {
	c, err := m.inner.GetConn(ufrag, addr)

	return m.wrap(c, err, ufrag)
}

func (m *fnCountingSrflxMux) GetConnForURL(ufrag, url string, addr net.Addr) (net.PacketConn, error) {
	c, err := m.inner.GetConnForURL(ufrag, url, addr)

	return m.wrap(c, err, ufrag)
}

func (m *fnCountingSrflxMux) RemoveConnByUfrag(ufrag string) {
	m.mu.Lock()
	m.removed = append(m.removed, ufrag)
	m.mu.Unlock()
	m.inner.RemoveConnByUfrag(ufrag)
}
func (m *fnCountingSrflxMux) GetListenAddresses() []net.Addr { return m.inner.GetListenAddresses() }
func (m *fnCountingSrflxMux) Close() error                   { return m.inner.Close() }
func (m *fnCountingSrflxMux) GetXORMappedAddr(a net.Addr, d time.Duration) (*stun.XORMappedAddress, error) {
	return m.inner.GetXORMappedAddr(a, d)
}

func (m *fnCountingSrflxMux) GetXORMappedAddrContext(ctx context.Context, a net.Addr, d time.Duration) (*stun.XORMappedAddress, error) {
	return m.inner.GetXORMappedAddrContext(ctx, a, d)
}

func (m *fnCountingSrflxMux) GetRelayedAddr(a net.Addr, d time.Duration) (*net.Addr, error) {
	return m.inner.GetRelayedAddr(a, d)
}

func handleTally(hs []*fnHandle) (open []string, multi []string) {
	for i, h := range hs {
		h.mu.Lock()
		switch {
		case h.closes == 0:
			open = append(open, fmt.Sprintf("mux-handle#%d(%s)", i, h.ufrag))
		case h.closes > 1:
			multi = append(multi, fmt.Sprintf("mux-handle#%d(%s)×%d", i, h.ufrag, h.closes))
		}
		h.mu.Unlock()
	}

	return open, multi
}

type c09Config struct {
	Addrs       []string
	Types       []CandidateType
	StunMode    string
	TurnProto   string // "udp" or "tcp"
	TurnMode    string
	Mux         string // "", "udp", "tcp"
	Rewrite     string // "", "srflx-mapped", "srflx-mapped-2", "host-append", "host-dup", "relay-drop", "relay-append"
	ListenErrAt int
	CloseErr    bool
	BadTurnURL  bool // a second TURN URL without credentials follows the valid one (accepted at construction, skipped by the gatherer)
	LongStunTimeout bool // STUN gather timeout 10 s instead of 60 ms: cancellation, not the timeout, has to end pending exchanges
	TwoStunURLs     bool // a second STUN server that reports the same mapped address: duplicate server-reflexive candidates
	OddLocalAddr    bool // the transport.Net's UDP sockets report a local address type the gatherers do not know: every socket is rejected
}

func c09ConfigGen() *rapid.Generator[c09Config] {
	return rapid.Custom(func(t *rapid.T) c09Config {
		c := c09Config{}
		n := rapid.IntRange(1, 3).Draw(t, "nAddrs")
		for i := 0; i < n; i++ {
			c.Addrs = append(c.Addrs, fmt.Sprintf("10.0.%d.1", i))
		}
		c.Types = rapid.SampledFrom([][]CandidateType{
			{CandidateTypeHost}, {CandidateTypeServerReflexive}, {CandidateTypeRelay},
			{CandidateTypeHost, CandidateTypeServerReflexive}, {CandidateTypeHost, CandidateTypeRelay},
			{CandidateTypeHost, CandidateTypeServerReflexive, CandidateTypeRelay}, {CandidateTypeServerReflexive, CandidateTypeRelay},
		}).Draw(t, "types")
		c.StunMode = rapid.SampledFrom([]string{"now", "later", "later", "never"}).Draw(t, "stunMode")
		c.TurnProto = rapid.SampledFrom([]string{"udp", "udp", "tcp", "tcp", "tls-handshake-fails"}).Draw(t, "turnProto")
		c.TurnMode = rapid.SampledFrom([]string{"ok", "ok", "allocate-blocks", "allocate-blocks", "listen-error", "allocate-error", "factory-error", "relay-linklocal"}).Draw(t, "turnMode")
		c.Mux = rapid.SampledFrom([]string{"", "", "udp", "tcp", "udp-srflx"}).Draw(t, "mux")
		c.Rewrite = rapid.SampledFrom([]string{"", "", "srflx-mapped", "srflx-mapped-2", "srflx-mapped-unusable-first", "srflx-drop", "host-append", "host-dup", "relay-drop", "relay-append", "relay-dup"}).Draw(t, "rewrite")
		if rapid.IntRange(0, 4).Draw(t, "listenErr") == 0 {
			c.ListenErrAt = rapid.IntRange(1, 4).Draw(t, "listenErrAt")
		}
		c.CloseErr = rapid.IntRange(0, 5).Draw(t, "closeErr") == 0
		c.BadTurnURL = rapid.IntRange(0, 3).Draw(t, "badTurnURL") == 0
		c.LongStunTimeout = rapid.IntRange(0, 3).Draw(t, "longStunTimeout") == 0
		c.TwoStunURLs = rapid.IntRange(0, 2).Draw(t, "twoStunURLs") == 0
		// (host gathering only: the reflexive and relay gatherers assert the address type)
		c.OddLocalAddr = c.Mux == "" && len(c.Types) == 1 && c.Types[0] == CandidateTypeHost && rapid.IntRange(0, 3).Draw(t, "oddLocalAddr") == 0

		return c
	})
}

func hasType(ts []CandidateType, t CandidateType) bool {
	for _, x := range ts {
		if x == t {
			return true
		}
	}

	return false
}

type c09World struct {
	srflxMux *fnCountingSrflxMux
	srflxBase *c12Base
	srflxPending []c12In
	fn      *fakeNet
	agent   *Agent
	udpMux  *fnCountingUDPMux
	tcpMux  *fnCountingTCPMux
	base    *c12Base
	ln      *c15Listener
	cycles  []chan struct{}
	candMu  sync.Mutex
	cands   []Candidate
	nils    int
	blockCB chan struct{}
}

func newC09World(cfg c09Config, extra ...AgentOption) (*c09World, error) {
	w := &c09World{}
	ifaces := []fnIface{{Name: "lo", Up: true, Loopback: true, Addrs: []string{"127.0.0.1"}}}
	for i, a := range cfg.Addrs {
		ifaces = append(ifaces, fnIface{Name: fmt.Sprintf("eth%d", i), Up: true, Addrs: []string{a}})
	}
	w.fn = newFakeNet(ifaces)
	w.fn.stunServers["198.51.100.1:3478"] = cfg.StunMode
	if cfg.TwoStunURLs {
		w.fn.stunServers["198.51.100.4:3478"] = cfg.StunMode
	}
	w.fn.oddLocalAddr = cfg.OddLocalAddr
	w.fn.turnMode = cfg.TurnMode
	w.fn.closeErr = cfg.CloseErr
	if cfg.ListenErrAt > 0 {
		w.fn.listenErr[cfg.ListenErrAt] = fmt.Errorf("fakeNet: injected listen error") //nolint:err113
	}
	lf := logging.NewDefaultLoggerFactory()
	lf.DefaultLogLevel = logging.LogLevelDisabled
	nts := []NetworkType{NetworkTypeUDP4}
	opts := []AgentOption{
		WithNet(w.fn), WithLoggerFactory(lf), WithMulticastDNSMode(MulticastDNSModeDisabled),
		WithCandidateTypes(cfg.Types),
	}
	if cfg.LongStunTimeout {
		opts = append(opts, WithSTUNGatherTimeout(10*time.Second))
	} else {
		opts = append(opts, WithSTUNGatherTimeout(60*time.Millisecond))
	}
	var urls []*stun.URI
	if hasType(cfg.Types, CandidateTypeServerReflexive) || hasType(cfg.Types, CandidateTypeRelay) {
		if hasType(cfg.Types, CandidateTypeServerReflexive) {
			urls = append(urls, &stun.URI{Scheme: stun.SchemeTypeSTUN, Host: "198.51.100.1", Port: 3478, Proto: stun.ProtoTypeUDP})
			if cfg.TwoStunURLs {
				urls = append(urls, &stun.URI{Scheme: stun.SchemeTypeSTUN, Host: "198.51.100.4", Port: 3478, Proto: stun.ProtoTypeUDP})
			}
		}
		if hasType(cfg.Types, CandidateTypeRelay) {
			proto := stun.ProtoTypeUDP
			scheme := stun.SchemeTypeTURN
			if cfg.TurnProto == "tcp" {
				proto = stun.ProtoTypeTCP
			}
			if cfg.TurnProto == "tls-handshake-fails" {
				// TURN over TLS/TCP against a server that does not speak TLS
				proto, scheme = stun.ProtoTypeTCP, stun.SchemeTypeTURNS
				w.fn.tcpServerSaysGarbage = true
			}
			urls = append(urls, &stun.URI{Scheme: scheme, Host: "198.51.100.2", Port: 3478, Proto: proto, Username: "u", Password: "p"})
			if cfg.BadTurnURL {
				urls = append(urls, &stun.URI{Scheme: stun.SchemeTypeTURN, Host: "198.51.100.3", Port: 3478, Proto: proto})
			}
		}
		opts = append(opts, WithUrls(urls))
	}
	switch cfg.Mux {
	case "udp":
		w.base = newC12Base(cfg.Addrs[0] + ":7000")
		w.udpMux = &fnCountingUDPMux{inner: NewUDPMuxDefault(UDPMuxParams{Logger: lf.NewLogger("mux"), UDPConn: w.base})}
		opts = append(opts, WithUDPMux(w.udpMux))
	case "tcp":
		w.ln = newC15Listener()
		w.ln.addr = &net.TCPAddr{IP: net.ParseIP(cfg.Addrs[0]), Port: 8443}
		w.tcpMux = &fnCountingTCPMux{inner: NewTCPMuxDefault(TCPMuxParams{Listener: w.ln, Logger: lf.NewLogger("mux"), ReadBufferSize: 8})}
		nts = append(nts, NetworkTypeTCP4)
		opts = append(opts, WithTCPMux(w.tcpMux))
	case "udp-srflx":
		// server-reflexive candidates through a universal UDP mux; the STUN server is scripted on the mux's socket
		w.srflxBase = newC12Base(cfg.Addrs[0] + ":7100")
		base := w.srflxBase
		mode := cfg.StunMode
		base.onWrite = func(data []byte, dst netip.AddrPort) {
			dst = netip.AddrPortFrom(dst.Addr().Unmap(), dst.Port()) // (a resolved *net.UDPAddr carries the 16-byte form)
			if (dst.String() != "198.51.100.1:3478" && !(cfg.TwoStunURLs && dst.String() == "198.51.100.4:3478")) || !stun.IsMessage(data) {
				return
			}
			m := &stun.Message{Raw: data}
			if m.Decode() != nil || m.Type != stun.BindingRequest {
				return
			}
			resp, err := stun.Build(stun.BindingSuccess, stun.NewTransactionIDSetter(m.TransactionID),
				&stun.XORMappedAddress{IP: net.IPv4(203, 0, 113, 60), Port: 7100}, stun.Fingerprint)
			if err != nil {
				return
			}
			switch mode {
			case "now":
				go base.push(c12In{resp.Raw, dst})
			case "later":
				w.fn.mu.Lock()
				w.srflxPending = append(w.srflxPending, c12In{resp.Raw, dst})
				w.fn.mu.Unlock()
			}
		}
		w.srflxMux = &fnCountingSrflxMux{inner: NewUniversalUDPMuxDefault(UniversalUDPMuxParams{Logger: lf.NewLogger("mux"), UDPConn: base, XORMappedAddrCacheTTL: time.Hour})}
		opts = append(opts, WithUDPMuxSrflx(w.srflxMux))
	}
	opts = append(opts, WithNetworkTypes(nts))
	switch cfg.Rewrite {
	case "srflx-mapped":
		if hasType(cfg.Types, CandidateTypeServerReflexive) {
			opts = append(opts, WithAddressRewriteRules(AddressRewriteRule{External: []string{"203.0.113.9"}, AsCandidateType: CandidateTypeServerReflexive}))
		}
	case "srflx-mapped-unusable-first":
		// the first external address of the rule is one the agent never publishes (IPv6 link-local)
		if hasType(cfg.Types, CandidateTypeServerReflexive) {
			opts = append(opts, WithAddressRewriteRules(AddressRewriteRule{External: []string{"fe80::1", "203.0.113.11"}, Local: "0.0.0.0", AsCandidateType: CandidateTypeServerReflexive, Mode: AddressRewriteReplace}))
		}
	case "srflx-mapped-2":
		if hasType(cfg.Types, CandidateTypeServerReflexive) {
			opts = append(opts, WithAddressRewriteRules(AddressRewriteRule{External: []string{"203.0.113.9", "203.0.113.10"}, AsCandidateType: CandidateTypeServerReflexive, Mode: AddressRewriteReplace}))
		}
	case "host-append":
		if hasType(cfg.Types, CandidateTypeHost) {
			opts = append(opts, WithAddressRewriteRules(AddressRewriteRule{External: []string{"203.0.113.20"}, AsCandidateType: CandidateTypeHost, Mode: AddressRewriteAppend}))
		}
	case "host-dup":
		if hasType(cfg.Types, CandidateTypeHost) {
			// every interface address is replaced by the same external address: duplicates arise with ≥ 2 addresses on a mux
			opts = append(opts, WithAddressRewriteRules(AddressRewriteRule{External: []string{"203.0.113.21"}, AsCandidateType: CandidateTypeHost, Mode: AddressRewriteReplace}))
		}
	case "relay-dup":
		// the same external address twice (two spellings): the second alias is a duplicate candidate on the allocation
		// that the first one lives on
		if hasType(cfg.Types, CandidateTypeRelay) {
			opts = append(opts, WithAddressRewriteRules(AddressRewriteRule{External: []string{"203.0.113.31", "::ffff:203.0.113.31"}, AsCandidateType: CandidateTypeRelay, Mode: AddressRewriteReplace}))
		}
	case "relay-append":
		if hasType(cfg.Types, CandidateTypeRelay) {
			opts = append(opts, WithAddressRewriteRules(AddressRewriteRule{External: []string{"203.0.113.30"}, AsCandidateType: CandidateTypeRelay, Mode: AddressRewriteAppend}))
		}
	}
	opts = append(opts, extra...)
	a, err := NewAgentWithOptions(opts...)
	if err != nil {
		return nil, err
	}
	a.turnClientFactory = w.fn.turnFactory
	if cfg.Rewrite == "relay-drop" && hasType(cfg.Types, CandidateTypeRelay) {
		// a replace rule with no externals ("drop") can only be installed below the option layer
		m, merr := newAddressRewriteMapper([]AddressRewriteRule{{AsCandidateType: CandidateTypeRelay, Mode: AddressRewriteReplace}})
		if merr == nil {
			_ = a.loop.Run(a.loop, func(context.Context) { a.addressRewriteMapper = m })
		}
	}
	if cfg.Rewrite == "srflx-drop" && hasType(cfg.Types, CandidateTypeServerReflexive) {
		m, merr := newAddressRewriteMapper([]AddressRewriteRule{{AsCandidateType: CandidateTypeServerReflexive, Mode: AddressRewriteReplace}})
		if merr == nil {
			_ = a.loop.Run(a.loop, func(context.Context) { a.addressRewriteMapper = m })
		}
	}
	w.agent = a
	_ = a.OnCandidate(func(c Candidate) {
		if w.blockCB != nil {
			<-w.blockCB
		}
		w.candMu.Lock()
		if c == nil {
			w.nils++
		} else {
			w.cands = append(w.cands, c)
		}
		w.candMu.Unlock()
	})

	return w, nil
}

func (w *c09World) gather() error {
	err := w.agent.GatherCandidates()
	if err == nil {
		var done chan struct{}
		_ = w.agent.loop.Run(w.agent.loop, func(context.Context) { done = w.agent.gatherCandidateDone })
		if done != nil {
			w.cycles = append(w.cycles, done)
		}
	}

	return err
}

// waitCycles waits for every started gather cycle to wind down; false = not within 20 s.
func (w *c09World) waitCycles() bool { return w.waitCyclesWithin(20 * time.Second) }

func (w *c09World) waitCyclesWithin(limit time.Duration) bool {
	deadline := time.After(limit)
	for _, d := range w.cycles {
		select {
		case <-d:
		case <-deadline:
			return false
		}
	}

	return true
}

// releaseSrflxMuxReply answers the oldest withheld STUN request of the srflx mux.
func (w *c09World) releaseSrflxMuxReply() bool {
	if w.srflxBase == nil {
		return false
	}
	w.fn.mu.Lock()
	if len(w.srflxPending) == 0 {
		w.fn.mu.Unlock()

		return false
	}
	in := w.srflxPending[0]
	w.srflxPending = w.srflxPending[1:]
	w.fn.mu.Unlock()
	go w.srflxBase.push(in)

	return true
}

func (w *c09World) shutdownMuxes() {
	if w.srflxMux != nil {
		_ = w.srflxMux.Close()
	}
	if w.udpMux != nil {
		_ = w.udpMux.Close()
	}
	if w.tcpMux != nil {
		_ = w.tcpMux.Close()
	}
}

// releaseEverything lets all withheld exchanges finish so that goroutines can wind down.
func (w *c09World) releaseEverything() {
	for w.fn.releaseOne() {
	}
	for w.releaseSrflxMuxReply() {
	}
	for i := 0; i < 8; i++ {
		select {
		case w.fn.turnRelease <- struct{}{}:
		default:
		}
	}
}

func TestVerif_C09_SocketTally(t *testing.T) {
	st := vfNewStats(t)
	rapid.Check(t, func(rt *rapid.T) {
		cfg := c09ConfigGen().Draw(rt, "config")
		w, err := newC09World(cfg)
		if err != nil {
			rt.Fatalf("harness: agent: %v (config %+v)", err, cfg)
		}
		defer w.shutdownMuxes()
		var ops []string
		lbl := map[string]bool{}
		closed := false
		inflight := func() bool { return w.fn.pendingCount() > 0 }
		checkAllClosed := func(where string) {
			open, _, total := w.fn.tally()
			if len(open) != 0 {
				sig := "C09/leak/socket-open-after-" + where
				for _, o := range open {
					if strings.HasPrefix(o, "udp#") && hasType(cfg.Types, CandidateTypeServerReflexive) && !strings.Contains(cfg.Rewrite, "srflx-mapped") {
						sig = "C09/leak/srflx-socket-after-cancelled-cycle"
					}
					if strings.HasPrefix(o, "relay#") || strings.HasPrefix(o, "turn-client") {
						sig = "C09/leak/relay-" + where
						if cfg.Rewrite == "relay-drop" {
							sig = "C09/leak/relay-dropped-by-rewrite-rule"
						}
					}
				}
				st.Fail(rt, sig, "%d of %d socket(s)/allocation(s) still open after %s: %v\nconfig: %+v\nops: %s", len(open), total, where, open, cfg, strings.Join(ops, "; "))
			}
			var hs []*fnHandle
			if w.udpMux != nil {
				hs = w.udpMux.handles
			}
			if w.tcpMux != nil {
				hs = append(hs, w.tcpMux.handles...)
			}
			if w.srflxMux != nil {
				hs = append(hs, w.srflxMux.handles...)
			}
			hopen, multi := handleTally(hs)
			if len(hopen) != 0 {
				st.Fail(rt, "C09/leak/mux-handle-open-after-"+where, "mux handle(s) never closed: %v\nconfig: %+v\nops: %s", hopen, cfg, strings.Join(ops, "; "))
			}
			if len(multi) != 0 {
				st.Fail(rt, "C09/double-release/mux-handle", "mux handle(s) closed more than once: %v\nconfig: %+v\nops: %s", multi, cfg, strings.Join(ops, "; "))
			}
		}
		nOps := rapid.IntRange(1, 8).Draw(rt, "nOps")
		for i := 0; i < nOps && !closed; i++ {
			op := rapid.SampledFrom([]string{"gather", "gather", "release", "release", "turnRelease", "restart", "restartAndRegather", "failed", "settle", "settle", "quiesce", "close"}).Draw(rt, "op")
			if i == 0 {
				op = "gather" // every case starts a gathering cycle
			}
			switch op {
			case "gather":
				err := w.gather()
				// progress barrier: let the cycle open a drawn number of sockets (or finish) before the next step
				want := rapid.IntRange(0, 4).Draw(rt, "progress")
				for d := time.Now().Add(120 * time.Millisecond); time.Now().Before(d); {
					_, _, total := w.fn.tally()
					cycleDone := false
					if len(w.cycles) > 0 {
						select {
						case <-w.cycles[len(w.cycles)-1]:
							cycleDone = true
						default:
						}
					}
					if total >= want || cycleDone || err != nil {
						break
					}
					runtime.Gosched()
				}
				ops = append(ops, fmt.Sprintf("gather=%v(progress %d)", err, want))
			case "release":
				if w.fn.releaseOne() || w.releaseSrflxMuxReply() {
					ops = append(ops, "releaseStunReply")
				}
			case "turnRelease":
				select {
				case w.fn.turnRelease <- struct{}{}:
					ops = append(ops, "releaseTurnAllocate")
				default:
				}
			case "quiesce":
				// let the running cycle finish; then what a listed candidate lives on must still be open:
				// "released exactly once … when its candidate is removed", not while it is listed
				if cfg.LongStunTimeout && cfg.StunMode == "never" && hasType(cfg.Types, CandidateTypeServerReflexive) {
					break // (this cycle only ends with the 10 s STUN timeout: not waited for)
				}
				w.releaseEverything()
				if !w.waitCycles() {
					st.Inconclusive()
					rt.Fatalf("VERIF-INCONCLUSIVE: gather cycle still running after 20 s")
				}
				var dead []string
				_ = w.agent.loop.Run(w.agent.loop, func(context.Context) {
					for _, set := range w.agent.localCandidates {
						for _, c := range set {
							if b := c17Base(c); b != nil {
								if fs, ok := b.conn.(*fnSock); ok && fs.isClosed() {
									dead = append(dead, fmt.Sprintf("%s on %s#%s", c, fs.kind, fs.local))
								}
							}
						}
					}
				})
				if len(dead) != 0 {
					st.Fail(rt, "C09/early-release/socket-of-listed-candidate-closed", "candidate(s) still listed by the agent whose socket / allocation has already been closed: %v\nconfig: %+v\nops: %s", dead, cfg, strings.Join(ops, "; "))
				}
				ops = append(ops, "quiesce")
			case "settle":
				// give in-flight goroutines a drawn number of scheduler turns (no verdict depends on it)
				c11Jitter(rapid.IntRange(0, 30).Draw(rt, "jitter"))
			case "restart", "restartAndRegather":
				if inflight() || cfg.TurnMode == "allocate-blocks" {
					lbl["restart-with-exchange-in-flight"] = true
				}
				if err := w.agent.Restart("", ""); err != nil {
					rt.Fatalf("harness: restart: %v", err)
				}
				ops = append(ops, op)
				if op == "restartAndRegather" {
					err := w.gather()
					ops = append(ops, fmt.Sprintf("gather=%v", err))

					break
				}
				// replies may still arrive after the cancellation
				if rapid.Bool().Draw(rt, "lateReplies") {
					w.releaseEverything()
					lbl["reply-after-cancellation"] = true
				}
				w.releaseEverything()
				if cfg.LongStunTimeout && !w.waitCyclesWithin(3*time.Second) {
					// cancellation must end a pending STUN exchange; waiting for the (10 s) gather timeout is not "immediately"
					st.Fail(rt, "C09/cancel/cycle-holds-sockets-until-stun-timeout", "3 s after Restart the cancelled cycle is still running (STUN timeout 10 s): open %v\nconfig %+v ops %s",
						func() []string { o, _, _ := w.fn.tally(); return o }(), cfg, strings.Join(ops, "; "))
				}
				if !w.waitCycles() {
					dead, dump := vfStuck("pion/ice/v4.(*Agent)")
					if dead {
						st.Fail(rt, "C09/cycle/never-winds-down", "superseded gather cycle still running\nconfig %+v ops %s\n%s", cfg, strings.Join(ops, "; "), dump)
					}
					st.Inconclusive()
					rt.Fatalf("VERIF-INCONCLUSIVE: gather cycle still running after 20 s")
				}
				w.cycles = nil
				checkAllClosed("restart")
			case "failed":
				if inflight() {
					lbl["failed-with-exchange-in-flight"] = true
				}
				_ = w.agent.loop.Run(w.agent.loop, func(context.Context) { w.agent.updateConnectionState(ConnectionStateFailed) })
				ops = append(ops, "forceFailed")
			case "close":
				if inflight() || cfg.TurnMode == "allocate-blocks" {
					lbl["close-with-exchange-in-flight"] = true
				}
				done := make(chan struct{})
				go func() { _ = w.agent.Close(); close(done) }()
				if rapid.Bool().Draw(rt, "repliesDuringClose") {
					w.releaseEverything()
				}
				select {
				case <-done:
				case <-time.After(3 * time.Second):
					// a blocked TURN allocation is an owned blocking point: release and keep waiting
					w.releaseEverything()
					select {
					case <-done:
					case <-time.After(20 * time.Second):
						dead, dump := vfStuck("pion/ice/v4.(*Agent)")
						if dead {
							st.Fail(rt, "C09/close/never-returns", "Close did not return\nconfig %+v ops %s\n%s", cfg, strings.Join(ops, "; "), dump)
						}
						st.Inconclusive()
						rt.Fatalf("VERIF-INCONCLUSIVE: Close still running")
					}
				}
				closed = true
				ops = append(ops, "close")
			}
		}
		if !closed {
			done := make(chan struct{})
			go func() { _ = w.agent.Close(); close(done) }()
			w.releaseEverything()
			select {
			case <-done:
			case <-time.After(25 * time.Second):
				st.Inconclusive()
				rt.Fatalf("VERIF-INCONCLUSIVE: final Close still running")
			}
			ops = append(ops, "close(final)")
		}
		w.releaseEverything()
		if cfg.LongStunTimeout && !w.waitCyclesWithin(3*time.Second) {
			st.Fail(rt, "C09/cancel/cycle-holds-sockets-until-stun-timeout", "3 s after Close a gathering cycle is still running (STUN timeout 10 s): open %v\nconfig %+v ops %s",
				func() []string { o, _, _ := w.fn.tally(); return o }(), cfg, strings.Join(ops, "; "))
		}
		if !w.waitCycles() {
			st.Inconclusive()
			rt.Fatalf("VERIF-INCONCLUSIVE: gather cycle still running 20 s after Close")
		}
		checkAllClosed("close")
		_, usedAfter, total := w.fn.tally()
		if usedAfter > 0 {
			lbl["io-on-socket-after-agent-closed-it"] = true
		}
		var labels []string
		for l := range lbl {
			labels = append(labels, l)
		}
		if total == 0 {
			labels = append(labels, "no-socket-opened")
		}
		nontrivial := lbl["restart-with-exchange-in-flight"] || lbl["close-with-exchange-in-flight"] || lbl["failed-with-exchange-in-flight"] || cfg.ListenErrAt > 0 || cfg.Rewrite == "host-dup"
		desc := fmt.Sprintf("%+v ops=%s", cfg, strings.Join(ops, "; "))
		st.Record(vfHashStr(desc), nontrivial && total > 0, labels...)
		if nontrivial && total > 0 && st.WantSample() {
			st.Sample(func() string { return desc })
		}
	})
}

// TestVerif_C09_RestartStorm: many host addresses (one socket and one addCandidate each) and Restart landing
// at a drawn instant inside the cycle, repeated; after every Restart, once the cancelled cycle has wound
// down, the agent must hold no local candidate and no socket of the ended generation (nothing was gathered
// for the new one yet).
func TestVerif_C09_RestartStorm(t *testing.T) {
	st := vfNewStats(t)
	lf := simLoggerFactory
	rapid.Check(t, func(rt *rapid.T) {
		nAddrs := rapid.IntRange(4, 32).Draw(rt, "hostAddresses")
		rounds := rapid.IntRange(4, 24).Draw(rt, "restarts")
		var ifc fnIface
		ifc = fnIface{Name: "eth0", Up: true}
		for i := 0; i < nAddrs; i++ {
			ifc.Addrs = append(ifc.Addrs, fmt.Sprintf("10.0.%d.%d", i/200, 1+i%200))
		}
		fn := newFakeNet([]fnIface{ifc})
		a, err := NewAgentWithOptions(WithNet(fn), WithLoggerFactory(lf), WithMulticastDNSMode(MulticastDNSModeDisabled),
			WithCandidateTypes([]CandidateType{CandidateTypeHost}), WithNetworkTypes([]NetworkType{NetworkTypeUDP4}))
		if err != nil {
			rt.Fatalf("harness: %v", err)
		}
		defer func() {
			done := make(chan struct{})
			go func() { _ = a.Close(); close(done) }()
			select {
			case <-done:
			case <-time.After(20 * time.Second):
			}
		}()
		_ = a.OnCandidate(func(Candidate) {})
		midCycle := 0
		for r := 0; r < rounds; r++ {
			spin := rapid.IntRange(0, 400).Draw(rt, "spinMicros")
			if err := a.GatherCandidates(); err != nil {
				rt.Fatalf("harness: gather: %v", err)
			}
			var done chan struct{}
			_ = a.loop.Run(a.loop, func(context.Context) { done = a.gatherCandidateDone })
			for t0 := time.Now(); time.Since(t0) < time.Duration(spin)*time.Microsecond; {
			}
			select {
			case <-done:
			default:
				midCycle++
			}
			if err := a.Restart("", ""); err != nil {
				rt.Fatalf("harness: restart: %v", err)
			}
			select {
			case <-done:
			case <-time.After(20 * time.Second):
				dead, dump := vfStuck("pion/ice/v4.(*Agent)")
				if dead {
					st.Fail(rt, "C09/cycle/never-winds-down", "cancelled gather cycle still running\n%s", dump)
				}
				st.Inconclusive()
				rt.Fatalf("VERIF-INCONCLUSIVE: gather cycle still running after 20 s")
			}
			locals, _ := a.GetLocalCandidates()
			open, _, total := fn.tally()
			if len(locals) != 0 || len(open) != 0 {
				st.Fail(rt, "C09/leak/candidate-of-cancelled-cycle-survives-restart",
					"after Restart (round %d, %d addresses, spin %d µs) and the end of the cancelled cycle: %d local candidate(s) %v, %d of %d socket(s) open %v",
					r, nAddrs, spin, len(locals), locals, len(open), total, open)
			}
		}
		st.Record(vfHashStr(fmt.Sprintf("%d/%d/%d", nAddrs, rounds, midCycle)), midCycle > 0, fmt.Sprintf("restart-mid-cycle:%v", midCycle > 0))
		if midCycle > 0 && st.WantSample() {
			st.Sample(func() string {
				return fmt.Sprintf("%d host addresses, %d gather+Restart rounds, %d of them with the cycle still running at Restart", nAddrs, rounds, midCycle)
			})
		}
	})
}

// TestVerif_C09_MDNSSockets: the agent opens the mDNS sockets itself (at construction, before any gathering); on
// every outcome of setting mDNS up — one family missing on the host, the multicast groups cannot be joined — they
// must be closed again at the latest when Close has returned.
func TestVerif_C09_MDNSSockets(t *testing.T) {
	st := vfNewStats(t)
	lf := logging.NewDefaultLoggerFactory()
	lf.DefaultLogLevel = logging.LogLevelDisabled
	rapid.Check(t, func(rt *rapid.T) {
		mode := rapid.SampledFrom([]MulticastDNSMode{MulticastDNSModeQueryOnly, MulticastDNSModeQueryAndGather}).Draw(rt, "mode")
		noV6 := rapid.Bool().Draw(rt, "hostWithoutIPv6")
		nts := rapid.SampledFrom([][]NetworkType{nil, {NetworkTypeUDP4}, {NetworkTypeUDP4, NetworkTypeUDP6}, {NetworkTypeUDP6}}).Draw(rt, "networkTypes")
		fn := newFakeNet([]fnIface{{Name: "eth0", Up: true, Addrs: []string{"10.0.0.1"}}})
		fn.noIPv6 = noV6
		opts := []AgentOption{WithNet(fn), WithLoggerFactory(lf), WithMulticastDNSMode(mode), WithCandidateTypes([]CandidateType{CandidateTypeHost})}
		if nts != nil {
			opts = append(opts, WithNetworkTypes(nts))
		}
		a, err := NewAgentWithOptions(opts...)
		desc := fmt.Sprintf("mode=%v hostWithoutIPv6=%v networkTypes=%v", mode, noV6, nts)
		hadConn, effMode := false, MulticastDNSMode(0)
		if err == nil {
			hadConn, effMode = a.mDNSConn != nil, a.mDNSMode
			_ = a.Close()
		}
		open, _, total := fn.tally()
		st.Record(vfHashStr(desc), noV6 || total > 0, fmt.Sprintf("no-ipv6:%v", noV6))
		if st.WantSample() {
			st.Sample(func() string { return fmt.Sprintf("%s: NewAgent err=%v, %d socket(s) opened", desc, err, total) })
		}
		if len(open) != 0 {
			st.Fail(rt, "C09/leak/mdns-socket", "%d of %d socket(s) the agent opened for mDNS still open after construction (err=%v, mDNS server running=%v, effective mode %v) and Close: %v (%s)", len(open), total, err, hadConn, effMode, open, desc)
		}
	})
}
