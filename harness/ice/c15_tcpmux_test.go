//go:build verif

package ice

// C15 — TCP mux routes connections by ufrag and cleans up after itself.

import (
	"syscall"
	"bytes"
	"encoding/binary"
	"errors"
	"fmt"
	"io"
	"net"
	"runtime"
	"strings"
	"sync"
	"testing"
	"time"

	"github.com/pion/logging"
	"github.com/pion/stun/v3"
	"pgregory.net/rapid"
)

type c15Listener struct {
	ch     chan net.Conn
	errs   chan error // errors Accept returns next (a listener under pressure: EMFILE, ECONNABORTED)
	closed chan struct{}
	once   sync.Once
	addr   *net.TCPAddr
}

func newC15Listener() *c15Listener {
	return &c15Listener{ch: make(chan net.Conn, 16), errs: make(chan error, 16), closed: make(chan struct{}), addr: &net.TCPAddr{IP: net.IPv4(10, 0, 0, 1), Port: 8443}}
}

func (l *c15Listener) Accept() (net.Conn, error) {
	select {
	case e := <-l.errs:
		return nil, e
	default:
	}
	select {
	case c := <-l.ch:
		return c, nil
	case e := <-l.errs:
		return nil, e
	case <-l.closed:
		return nil, net.ErrClosed
	}
}
func (l *c15Listener) Close() error {
	l.once.Do(func() {
		close(l.closed)
		// connections still in the accept queue are reset, as by a real listener
		for {
			select {
			case c := <-l.ch:
				_ = c.Close()
			default:
				return
			}
		}
	})

	return nil
}
func (l *c15Listener) Addr() net.Addr { return l.addr }
func (l *c15Listener) isClosed() bool {
	select {
	case <-l.closed:
		return true
	default:
		return false
	}
}

type c15Conn struct {
	net.Conn
	local, remote *net.TCPAddr
	failArmWriteDeadline bool // SetWriteDeadline with a non-zero time fails (clearing it works): a broken connection among healthy ones
}

func (c *c15Conn) SetWriteDeadline(t time.Time) error {
	if c.failArmWriteDeadline && !t.IsZero() {
		return errors.New("verif: injected SetWriteDeadline failure") //nolint:err113
	}

	return c.Conn.SetWriteDeadline(t)
}

func (c *c15Conn) SetDeadline(t time.Time) error {
	if c.failArmWriteDeadline && !t.IsZero() {
		_ = c.Conn.SetReadDeadline(t)

		return errors.New("verif: injected SetWriteDeadline failure") //nolint:err113
	}

	return c.Conn.SetDeadline(t)
}

func (c *c15Conn) LocalAddr() net.Addr  { return c.local }
func (c *c15Conn) RemoteAddr() net.Addr { return c.remote }

// c15Client is the harness side of one TCP connection.
type c15Client struct {
	id     int
	conn   net.Conn // client end of the pipe
	remote *net.TCPAddr
	kind   string
	ufrag  string
	mu     sync.Mutex
	rx     []byte
	rxErr  error
	done   chan struct{}
}

func (c *c15Client) reader() {
	defer close(c.done)
	buf := make([]byte, 4096)
	for {
		n, err := c.conn.Read(buf)
		c.mu.Lock()
		c.rx = append(c.rx, buf[:n]...)
		if err != nil {
			c.rxErr = err
			c.mu.Unlock()

			return
		}
		c.mu.Unlock()
	}
}

func (c *c15Client) closedByPeer(wait time.Duration) bool {
	select {
	case <-c.done:
		return true
	case <-time.After(wait):
		return false
	}
}

func (c *c15Client) received() []byte {
	c.mu.Lock()
	defer c.mu.Unlock()

	return append([]byte{}, c.rx...)
}

func c15Frame(p []byte) []byte {
	out := make([]byte, 2+len(p))
	binary.BigEndian.PutUint16(out, uint16(len(p))) //nolint:gosec
	copy(out[2:], p)

	return out
}

func c15StunBinding(username string, withUser bool, method stun.Method) []byte {
	setters := []stun.Setter{stun.NewType(method, stun.ClassRequest), stun.TransactionID}
	if withUser {
		setters = append(setters, stun.NewUsername(username))
	}
	setters = append(setters, stun.Fingerprint)
	m, err := stun.Build(setters...)
	if err != nil {
		panic(err)
	}

	return m.Raw
}

func c15CountGoroutines() (int, string) {
	buf := make([]byte, 4<<20)
	n := runtime.Stack(buf, true)
	text := string(buf[:n])
	cnt := 0
	var sample string
	for _, g := range strings.Split(text, "\n\n") {
		if strings.Contains(g, "TCPMuxDefault") || strings.Contains(g, "tcpPacketConn") || strings.Contains(g, "bufferedConn") {
			if strings.Contains(g, "c15CountGoroutines") {
				continue
			}
			cnt++
			sample = g
		}
	}

	return cnt, sample
}

type c15Expect struct {
	data []byte
	from string
}

func TestVerif_C15_TCPMux(t *testing.T) {
	st := vfNewStats(t)
	lf := logging.NewDefaultLoggerFactory()
	lf.DefaultLogLevel = logging.LogLevelDisabled
	rapid.Check(t, func(rt *rapid.T) {
		timed := rapid.IntRange(0, 9).Draw(rt, "timed") == 0
		firstTO, aliveTO := time.Hour, time.Hour
		if timed {
			firstTO = time.Duration(rapid.IntRange(40, 80).Draw(rt, "firstTimeoutMs")) * time.Millisecond
			aliveTO = time.Duration(rapid.IntRange(40, 80).Draw(rt, "aliveMs")) * time.Millisecond
		}
		writeBuf := rapid.SampledFrom([]int{0, 1 << 20}).Draw(rt, "writeBuffer")
		ln := newC15Listener()
		mux := NewTCPMuxDefault(TCPMuxParams{
			Listener: ln, Logger: lf.NewLogger("verif"), ReadBufferSize: 64, WriteBufferSize: writeBuf,
			FirstStunBindTimeout: firstTO, AliveDurationForConnFromStun: aliveTO,
		})
		muxClosed := false
		var clients []*c15Client
		defer func() {
			// never hang in cleanup: free every client connection first, then close with a bound
			for _, c := range clients {
				_ = c.conn.Close()
			}
			if !muxClosed {
				done := make(chan struct{})
				go func() { _ = mux.Close(); close(done) }()
				select {
				case <-done:
				case <-time.After(10 * time.Second):
				}
			}
		}()
		localIP := net.IPv4(10, 0, 0, 1)
		ufrags := []string{"ua", "ub", "uc"}
		handles := map[string][]net.PacketConn{}
		expect := map[string][]c15Expect{}  // per ufrag: packets a reader must yield, in order
		provisionalAt := map[string]time.Time{}
		gone := map[string]bool{} // ufrag's packet conn was removed/closed: clients of it are closed
		var ops []string
		lbl := map[string]bool{}
		nextPort := 20000
		fail := func(sig, format string, args ...any) {
			st.Fail(rt, sig, "%s\nops: %s", fmt.Sprintf(format, args...), strings.Join(ops, "; "))
		}
		connect := func(kind, ufrag string, dupOf *c15Client) *c15Client {
			a, b := net.Pipe()
			nextPort++
			remote := &net.TCPAddr{IP: net.IPv4(198, 51, 100, 7), Port: nextPort}
			if dupOf != nil {
				remote = dupOf.remote
			}
			cl := &c15Client{id: len(clients), conn: a, remote: remote, kind: kind, ufrag: ufrag, done: make(chan struct{})}
			go cl.reader()
			clients = append(clients, cl)
			select {
			case ln.ch <- &c15Conn{Conn: b, local: &net.TCPAddr{IP: localIP, Port: 8443}, remote: remote}:
			default:
				_ = a.Close()
			}

			return cl
		}
		send := func(cl *c15Client, b []byte) error {
			_ = cl.conn.SetWriteDeadline(time.Now().Add(20 * time.Second))
			_, err := cl.conn.Write(b)

			return err
		}
		attached := func(ufrag string, remote *net.TCPAddr) bool {
			mux.mu.Lock()
			pc, ok := mux.getConn(ufrag, false, localIP)
			mux.mu.Unlock()
			if !ok {
				return false
			}
			pc.mu.Lock()
			_, has := pc.conns[remote.String()]
			pc.mu.Unlock()

			return has
		}
		waitFor := func(cond func() bool, d time.Duration) bool {
			deadline := time.Now().Add(d)
			for time.Now().Before(deadline) {
				if cond() {
					return true
				}
				runtime.Gosched()
				time.Sleep(50 * time.Microsecond)
			}

			return cond()
		}
		readExpected := func(where string) {
			for _, u := range ufrags {
				hs := handles[u]
				if len(hs) == 0 || gone[u] {
					continue
				}
				h := hs[len(hs)-1]
				// order is guaranteed per TCP connection (source address), not across connections: the reader's
				// stream filtered by source must equal what that source sent
				for len(expect[u]) > 0 {
					_ = h.SetReadDeadline(time.Now().Add(20 * time.Second))
					buf := make([]byte, 9000)
					n, addr, err := h.ReadFrom(buf)
					if err != nil {
						fail("C15/deliver/missing", "%s: ufrag %s: %d expected packet(s) not readable (first: %d bytes from %s): %v", where, u, len(expect[u]), len(expect[u][0].data), expect[u][0].from, err)
						expect[u] = nil

						break
					}
					from := ""
					if addr != nil {
						from = addr.String()
					}
					idx := -1
					for k, e := range expect[u] {
						if e.from == from {
							idx = k

							break
						}
					}
					if idx < 0 {
						fail("C15/deliver/peer-address", "%s: ufrag %s: packet of %d bytes attributed to %q, nothing is expected from there", where, u, n, from)

						break
					}
					want := expect[u][idx]
					expect[u] = append(expect[u][:idx], expect[u][idx+1:]...)
					if !bytes.Equal(buf[:n], want.data) {
						fail("C15/deliver/content-or-order", "%s: ufrag %s: from %s got %d bytes, the next packet of that source has %d bytes", where, u, from, n, len(want.data))
					}
				}
				// nothing else may be queued for this ufrag
				mux.mu.Lock()
				pc, ok := mux.getConn(u, false, localIP)
				mux.mu.Unlock()
				if ok && len(pc.recvChan) != 0 {
					_ = h.SetReadDeadline(time.Now().Add(time.Second))
					buf := make([]byte, 9000)
					n, addr, err := h.ReadFrom(buf)
					if err == nil {
						fail("C15/deliver/unexpected", "%s: ufrag %s received %d unexpected bytes from %v", where, u, n, addr)
					}
				}
			}
		}
		nOps := rapid.IntRange(1, 25).Draw(rt, "nOps")
		for i := 0; i < nOps && !muxClosed; i++ {
			op := rapid.SampledFrom([]string{"getConn", "getConn", "client", "client", "client", "client", "clientSend", "clientSend", "muxWrite", "muxWrite", "remove", "closeHandle", "muxClose"}).Draw(rt, "op")
			if op == "muxClose" && rapid.IntRange(0, 5).Draw(rt, "reallyClose") != 0 {
				op = "client"
			}
			u := ufrags[rapid.IntRange(0, len(ufrags)-1).Draw(rt, "ufrag")]
			where := fmt.Sprintf("step %d (%s)", i, op)
			switch op {
			case "getConn":
				if gone[u] {
					continue // a ufrag is not reused after its connection went away
				}
				if _, prov := provisionalAt[u]; prov && timed {
					continue // claiming races with the (short) alive timer; claiming is exercised in untimed cases
				}
				h, err := mux.GetConnByUfrag(u, false, localIP)
				if err != nil {
					fail("C15/getconn/error", "%s: %v", where, err)

					continue
				}
				if _, prov := provisionalAt[u]; prov {
					lbl["claimed-provisional"] = true
					delete(provisionalAt, u)
				}
				handles[u] = append(handles[u], h)
				ops = append(ops, fmt.Sprintf("getConn(%s)", u))
			case "client":
				kind := rapid.SampledFrom([]string{"valid", "valid", "valid", "valid-with-coalesced-followups", "oversized-first", "non-stun", "non-binding", "no-username", "huge-length", "connect-close", "slow-loris", "partial-frame", "dribble", "duplicate-address"}).Draw(rt, "kind")
				if (kind == "slow-loris" || kind == "partial-frame" || kind == "dribble") && !timed {
					kind = "non-stun"
				}
				if gone[u] {
					continue
				}
				if _, prov := provisionalAt[u]; prov && timed {
					continue // attaching to a provisional connection races with its (short) alive timer by design
				}
				var dup *c15Client
				if kind == "duplicate-address" {
					for _, c := range clients {
						if c.kind == "valid" && c.ufrag == u && attached(u, c.remote) {
							dup = c
						}
					}
					if dup == nil {
						kind = "valid"
					}
				}
				cl := connect(kind, u, dup)
				ops = append(ops, fmt.Sprintf("client#%d(%s,%s)", cl.id, kind, u))
				first := c15StunBinding(u+":peer", true, stun.MethodBinding)
				switch kind {
				case "valid-with-coalesced-followups":
					// the client does not wait for the answer: further frames arrive in the same segment as its first
					nMore := rapid.IntRange(1, 4).Draw(rt, "followups")
					wire := c15Frame(first)
					var more [][]byte
					for k := 0; k < nMore; k++ {
						p := bytes.Repeat([]byte{byte('a' + k)}, rapid.SampledFrom([]int{1, 20, 300, 700}).Draw(rt, "followupLen"))
						more = append(more, p)
						wire = append(wire, c15Frame(p)...)
					}
					if len(handles[u]) == 0 {
						kind = "valid" // (a provisional connection has a small queue: not the subject here)
						wire = c15Frame(first)
						more = nil
					}
					go func() { _ = send(cl, wire) }()
					if !waitFor(func() bool { return attached(u, cl.remote) }, 20*time.Second) {
						if timed {
							// with a first-frame timeout and an expiry of 40..80 ms a descheduled test process cannot tell
							// "dropped/expired as configured before the poll looked" from "never attached": not judged
							st.Inconclusive()
							rt.Skip("timed mode: attachment not observed")
						}
						fail("C15/attach/valid-client-not-attached", "%s: valid client %s not attached to ufrag %s", where, cl.remote, u)
					}
					if len(handles[u]) == 0 {
						if _, ok := provisionalAt[u]; !ok {
							provisionalAt[u] = time.Now()
						}
						lbl["unknown-ufrag"] = true
					}
					expect[u] = append(expect[u], c15Expect{first, cl.remote.String()})
					for _, p := range more {
						expect[u] = append(expect[u], c15Expect{p, cl.remote.String()})
					}
					if len(more) > 0 {
						lbl["frames-coalesced-with-the-first"] = true
					}
					cl.kind = "valid"
					lbl["valid-client"] = true
				case "valid":
					if err := send(cl, c15Frame(first)); err != nil {
						fail("C15/client/first-write", "%s: %v", where, err)
					}
					if !waitFor(func() bool { return attached(u, cl.remote) }, 20*time.Second) {
						if timed {
							// with a first-frame timeout and an expiry of 40..80 ms a descheduled test process cannot tell
							// "dropped/expired as configured before the poll looked" from "never attached": not judged
							st.Inconclusive()
							rt.Skip("timed mode: attachment not observed")
						}
						fail("C15/attach/valid-client-not-attached", "%s: valid client %s not attached to ufrag %s", where, cl.remote, u)
					}
					if len(handles[u]) == 0 {
						if _, ok := provisionalAt[u]; !ok {
							provisionalAt[u] = time.Now()
						}
						lbl["unknown-ufrag"] = true
					}
					expect[u] = append(expect[u], c15Expect{first, cl.remote.String()})
					lbl["valid-client"] = true
				case "duplicate-address":
					_ = send(cl, c15Frame(first))
					if !cl.closedByPeer(20 * time.Second) {
						fail("C15/hostile/not-closed", "%s: second connection from an already attached remote address was not closed", where)
					}
					lbl["hostile-client"] = true
				case "oversized-first":
					big := make([]byte, 513+rapid.IntRange(0, 200).Draw(rt, "extra"))
					go func() { _ = send(cl, c15Frame(big)) }()
				case "non-stun":
					_ = send(cl, c15Frame([]byte("this is not a stun message at all")))
				case "non-binding":
					_ = send(cl, c15Frame(c15StunBinding(u+":peer", true, stun.MethodAllocate)))
				case "no-username":
					_ = send(cl, c15Frame(c15StunBinding("", false, stun.MethodBinding)))
				case "huge-length":
					go func() { _ = send(cl, []byte{0xff, 0xff, 1, 2, 3}) }()
				case "connect-close":
					_ = cl.conn.Close()
				case "slow-loris":
					go func() { _ = send(cl, []byte{0x00}) }()
				case "partial-frame":
					go func() { _ = send(cl, append([]byte{0x01, 0x00}, []byte("only a few bytes")...)) }()
				case "dribble":
					// a valid first frame, but one byte at a time, more often than the timeout: the frame is late all the same
					frame := c15Frame(append(append([]byte{}, first...), make([]byte, 0)...))
					go func() {
						for _, b := range frame {
							if send(cl, []byte{b}) != nil {
								return
							}
							select {
							case <-cl.done:
								return
							case <-time.After(firstTO / 2):
							}
						}
					}()
				}
				if kind != "valid" && kind != "valid-with-coalesced-followups" && kind != "duplicate-address" {
					lbl["hostile-client"] = true
					limit := 20 * time.Second
					if kind == "slow-loris" || kind == "partial-frame" || kind == "dribble" {
						lbl["timeout-client"] = true
						limit = max(25*firstTO, 10*time.Second)
					}
					if !cl.closedByPeer(limit) {
						dead, dump := vfStuck("TCPMuxDefault")
						if dead || kind == "slow-loris" || kind == "partial-frame" || kind == "dribble" {
							fail("C15/hostile/not-closed", "%s: %s client was not closed by the mux within %s\n%s", where, kind, limit, dump)
						}
						st.Inconclusive()
						rt.Fatalf("VERIF-INCONCLUSIVE: hostile client not closed yet but goroutines are runnable")
					}
					if attached(u, cl.remote) {
						fail("C15/hostile/attached", "%s: %s client got attached to ufrag %s", where, kind, u)
					}
				}
			case "clientSend":
				var cands []*c15Client
				for _, c := range clients {
					if _, prov := provisionalAt[c.ufrag]; prov && timed {
						continue
					}
					if c.kind == "valid" && !gone[c.ufrag] && attached(c.ufrag, c.remote) {
						cands = append(cands, c)
					}
				}
				if len(cands) == 0 {
					continue
				}
				cl := cands[rapid.IntRange(0, len(cands)-1).Draw(rt, "which")]
				p := c14PacketGen(2000).Draw(rt, "payload")
				if err := send(cl, c15Frame(p)); err != nil {
					fail("C15/client/write", "%s: attached client could not write: %v", where, err)
				}
				expect[cl.ufrag] = append(expect[cl.ufrag], c15Expect{p, cl.remote.String()})
				ops = append(ops, fmt.Sprintf("clientSend#%d(%d)", cl.id, len(p)))
			case "muxWrite":
				var cands []*c15Client
				for _, c := range clients {
					if c.kind == "valid" && !gone[c.ufrag] && len(handles[c.ufrag]) > 0 && attached(c.ufrag, c.remote) {
						cands = append(cands, c)
					}
				}
				if len(cands) == 0 {
					continue
				}
				cl := cands[rapid.IntRange(0, len(cands)-1).Draw(rt, "which")]
				p := c14PacketGen(2000).Draw(rt, "payload")
				before := cl.received()
				others := map[int]int{}
				for _, c := range clients {
					others[c.id] = len(c.received())
				}
				h := handles[cl.ufrag][0]
				if n, err := h.WriteTo(p, cl.remote); err != nil || n != len(p) {
					fail("C15/reply/write-failed", "%s: WriteTo(%s) = %d, %v", where, cl.remote, n, err)
				}
				want := append(before, c15Frame(p)...)
				if !waitFor(func() bool { return len(cl.received()) >= len(want) }, 20*time.Second) || !bytes.Equal(cl.received(), want) {
					fail("C15/reply/not-received-by-that-client", "%s: client %s received %d bytes, expected %d (framed reply of %d)", where, cl.remote, len(cl.received()), len(want), len(p))
				}
				for _, c := range clients {
					if c != cl && len(c.received()) != others[c.id] {
						fail("C15/reply/leaked-to-other-client", "%s: client %s received bytes of a reply addressed to %s", where, c.remote, cl.remote)
					}
				}
				lbl["reply"] = true
				ops = append(ops, fmt.Sprintf("muxWrite(%s→#%d,%d)", cl.ufrag, cl.id, len(p)))
			case "remove", "closeHandle":
				if gone[u] {
					continue
				}
				mux.mu.Lock()
				_, exists := mux.getConn(u, false, localIP)
				mux.mu.Unlock()
				if op == "closeHandle" {
					if len(handles[u]) == 0 {
						continue
					}
					readExpected(where + " (before)")
					h := handles[u][len(handles[u])-1]
					handles[u] = handles[u][:len(handles[u])-1]
					_ = h.Close()
					ops = append(ops, fmt.Sprintf("closeHandle(%s left=%d)", u, len(handles[u])))
					if len(handles[u]) > 0 {
						// siblings keep working: nothing else to check here (C13)
						continue
					}
				} else {
					readExpected(where + " (before)")
					mux.RemoveConnByUfrag(u)
					ops = append(ops, fmt.Sprintf("remove(%s)", u))
				}
				if !exists {
					continue
				}
				gone[u] = true
				expect[u] = nil
				delete(provisionalAt, u)
				lbl["removal"] = true
				// every TCP connection of that ufrag is closed and the ufrag is unregistered
				for _, c := range clients {
					if c.kind == "valid" && c.ufrag == u {
						if !c.closedByPeer(20 * time.Second) {
							fail("C15/cleanup/client-conn-left-open", "%s: TCP connection of client %s still open after its packet conn went away", where, c.remote)
						}
					}
				}
				if !waitFor(func() bool {
					mux.mu.Lock()
					defer mux.mu.Unlock()
					_, ok := mux.getConn(u, false, localIP)

					return !ok
				}, 20*time.Second) {
					fail("C15/cleanup/still-registered", "%s: ufrag %s still registered", where, u)
				}
			case "muxClose":
				readExpected(where + " (before)")
				done := make(chan error, 1)
				go func() { done <- mux.Close() }()
				select {
				case <-done:
				case <-time.After(30 * time.Second):
					dead, dump := vfStuck("TCPMuxDefault")
					if dead {
						fail("C15/close/never-returns", "%s: mux.Close did not return\n%s", where, dump)
					}
					st.Inconclusive()
					rt.Fatalf("VERIF-INCONCLUSIVE: mux.Close still running after 30 s")
				}
				muxClosed = true
				ops = append(ops, "muxClose")
			}
			if !muxClosed {
				readExpected(where)
				// provisional connections expire (timed cases)
				if timed {
					for pu, at := range provisionalAt {
						if time.Since(at) > max(25*aliveTO, 10*time.Second) {
							mux.mu.Lock()
							_, ok := mux.getConn(pu, false, localIP)
							mux.mu.Unlock()
							if ok {
								fail("C15/provisional/not-expired", "%s: provisional connection for unknown ufrag %s still there %s after creation (alive duration %s)", where, pu, time.Since(at), aliveTO)
							}
							delete(provisionalAt, pu)
							gone[pu] = true
							lbl["provisional-expired"] = true
						}
					}
				}
			}
		}
		if !muxClosed {
			// timed: let provisional connections expire and verify
			if timed && len(provisionalAt) > 0 {
				time.Sleep(3 * aliveTO)
				for pu := range provisionalAt {
					ok := waitFor(func() bool {
						mux.mu.Lock()
						defer mux.mu.Unlock()
						_, has := mux.getConn(pu, false, localIP)

						return !has
					}, max(25*aliveTO, 10*time.Second))
					if !ok {
						fail("C15/provisional/not-expired", "provisional connection for unknown ufrag %s did not expire (alive duration %s)", pu, aliveTO)
					}
					lbl["provisional-expired"] = true
				}
			}
			done := make(chan struct{})
			go func() { _ = mux.Close(); close(done) }()
			select {
			case <-done:
			case <-time.After(30 * time.Second):
				dead, dump := vfStuck("TCPMuxDefault")
				if dead {
					fail("C15/close/never-returns", "mux.Close did not return\n%s", dump)
				}
				st.Inconclusive()
				rt.Fatalf("VERIF-INCONCLUSIVE: mux.Close still running after 30 s")
			}
			muxClosed = true
		}
		// after Close: listener closed, every client connection closed, GetConnByUfrag fails, no goroutines left
		if !ln.isClosed() {
			fail("C15/close/listener-open", "listener still open after mux.Close")
		}
		for _, c := range clients {
			if !c.closedByPeer(20 * time.Second) {
				fail("C15/close/client-conn-left-open", "client %s (%s) still open after mux.Close returned", c.remote, c.kind)
			}
		}
		if _, err := mux.GetConnByUfrag("late", false, localIP); !errors.Is(err, io.ErrClosedPipe) {
			fail("C15/close/getconn-after-close", "GetConnByUfrag after Close returned %v", err)
		}
		for _, hs := range handles {
			for _, h := range hs {
				_ = h.Close()
			}
		}
		if !waitFor(func() bool { n, _ := c15CountGoroutines(); return n == 0 }, 5*time.Second) {
			n, sample := c15CountGoroutines()
			fail("C15/close/goroutines-left", "%d mux goroutine(s) still running after Close returned, e.g.\n%s", n, sample)
		}
		var labels []string
		for l := range lbl {
			labels = append(labels, l)
		}
		if timed {
			labels = append(labels, "timed")
		}
		desc := fmt.Sprintf("timed=%v writeBuf=%d %s", timed, writeBuf, strings.Join(ops, "; "))
		nontrivial := (lbl["valid-client"] && lbl["hostile-client"]) || lbl["removal"]
		st.Record(vfHashStr(desc), nontrivial, labels...)
		if nontrivial && st.WantSample() {
			st.Sample(func() string { return desc })
		}
	})
}


// A provisional connection (created for an unknown ufrag) that has been claimed with GetConnByUfrag never
// expires, whatever attaches to it later.
func TestVerif_C15_ClaimedProvisionalSurvives(t *testing.T) {
	st := vfNewStats(t)
	lf := logging.NewDefaultLoggerFactory()
	lf.DefaultLogLevel = logging.LogLevelDisabled
	rapid.Check(t, func(rt *rapid.T) {
		alive := time.Duration(rapid.IntRange(150, 300).Draw(rt, "aliveMs")) * time.Millisecond
		later := rapid.IntRange(0, 3).Draw(rt, "laterClients")
		writeBuf := rapid.SampledFrom([]int{0, 1 << 20}).Draw(rt, "writeBuffer")
		ln := newC15Listener()
		mux := NewTCPMuxDefault(TCPMuxParams{Listener: ln, Logger: lf.NewLogger("verif"), ReadBufferSize: 64, WriteBufferSize: writeBuf, FirstStunBindTimeout: time.Hour, AliveDurationForConnFromStun: alive})
		var clients []*c15Client
		defer func() {
			for _, c := range clients {
				_ = c.conn.Close()
			}
			done := make(chan struct{})
			go func() { _ = mux.Close(); close(done) }()
			select {
			case <-done:
			case <-time.After(10 * time.Second):
			}
		}()
		localIP := net.IPv4(10, 0, 0, 1)
		port := 30000
		connect := func() *c15Client {
			a, b := net.Pipe()
			port++
			remote := &net.TCPAddr{IP: net.IPv4(198, 51, 100, 9), Port: port}
			cl := &c15Client{id: len(clients), conn: a, remote: remote, kind: "valid", ufrag: "uz", done: make(chan struct{})}
			go cl.reader()
			clients = append(clients, cl)
			ln.ch <- &c15Conn{Conn: b, local: &net.TCPAddr{IP: localIP, Port: 8443}, remote: remote}
			_ = cl.conn.SetWriteDeadline(time.Now().Add(20 * time.Second))
			_, _ = cl.conn.Write(c15Frame(c15StunBinding("uz:peer", true, stun.MethodBinding)))

			return cl
		}
		attached := func(remote *net.TCPAddr) bool {
			mux.mu.Lock()
			pc, ok := mux.getConn("uz", false, localIP)
			mux.mu.Unlock()
			if !ok {
				return false
			}
			pc.mu.Lock()
			defer pc.mu.Unlock()
			_, has := pc.conns[remote.String()]

			return has
		}
		t0 := time.Now()
		first := connect()
		for d := time.Now().Add(20 * time.Second); !attached(first.remote) && time.Now().Before(d); {
			time.Sleep(50 * time.Microsecond)
		}
		h, err := mux.GetConnByUfrag("uz", false, localIP)
		if err != nil || time.Since(t0) > alive/3 {
			st.Inconclusive()

			return // the claim came too late to be sure it preceded the expiry: not judged
		}
		defer h.Close() //nolint:errcheck
		for i := 0; i < later; i++ {
			c11Jitter(rapid.IntRange(0, 30).Draw(rt, "jitter"))
			connect()
		}
		time.Sleep(3 * alive)
		desc := fmt.Sprintf("alive=%s laterClients=%d writeBuffer=%d", alive, later, writeBuf)
		st.Record(vfHashStr(desc), later > 0, fmt.Sprintf("later:%d", later))
		if st.WantSample() {
			st.Sample(func() string { return desc })
		}
		if !attached(first.remote) {
			st.Fail(rt, "C15/provisional/claimed-connection-expired", "%s: the claimed packet connection is gone %s after creation", desc, time.Since(t0))
		}
		// still usable in both directions
		_ = first.conn.SetWriteDeadline(time.Now().Add(20 * time.Second))
		if _, err := first.conn.Write(c15Frame([]byte("late packet"))); err != nil {
			st.Fail(rt, "C15/provisional/claimed-connection-expired", "%s: client can no longer write: %v", desc, err)
		}
		seen := false
		for i := 0; i < 2+later && !seen; i++ {
			_ = h.SetReadDeadline(time.Now().Add(20 * time.Second))
			buf := make([]byte, 2000)
			n, _, err := h.ReadFrom(buf)
			if err != nil {
				st.Fail(rt, "C15/provisional/claimed-connection-expired", "%s: reader of the claimed connection failed: %v", desc, err)

				break
			}
			seen = string(buf[:n]) == "late packet"
		}
		if _, err := h.WriteTo([]byte("reply"), first.remote); err != nil {
			st.Fail(rt, "C15/provisional/claimed-connection-expired", "%s: reply over the claimed connection failed: %v", desc, err)
		}
	})
}

// TestVerif_C15_TwoLocalAddresses: a wildcard / multi-homed listener with the same ufrag registered on two
// local addresses.  Closing (and re-opening) the handle of one address never disturbs the other: a client that
// connects to the still-held (ufrag, address) reaches that very packet connection and gets its reply.
func TestVerif_C15_TwoLocalAddresses(t *testing.T) {
	st := vfNewStats(t)
	lf := logging.NewDefaultLoggerFactory()
	lf.DefaultLogLevel = logging.LogLevelDisabled
	rapid.Check(t, func(rt *rapid.T) {
		ln := newC15Listener()
		mux := NewTCPMuxDefault(TCPMuxParams{Listener: ln, Logger: lf.NewLogger("verif"), ReadBufferSize: 64, FirstStunBindTimeout: time.Hour, AliveDurationForConnFromStun: time.Hour})
		var clients []*c15Client
		defer func() {
			for _, c := range clients {
				_ = c.conn.Close()
			}
			done := make(chan struct{})
			go func() { _ = mux.Close(); close(done) }()
			select {
			case <-done:
			case <-time.After(10 * time.Second):
			}
		}()
		// two IPv4 addresses and one IPv6 address: the family of a connection is that of the client's address
		locals := []net.IP{net.IPv4(10, 0, 0, 1), net.IPv4(10, 0, 0, 2), net.ParseIP("fd00::1")}
		v6 := func(l int) bool { return locals[l].To4() == nil }
		ufrags := []string{"ua", "ub"}[:rapid.IntRange(1, 2).Draw(rt, "ufrags")]
		type key struct {
			u string
			l int
		}
		handles := map[key]net.PacketConn{}
		under := map[key]*tcpPacketConn{}
		for _, u := range ufrags {
			for l := range locals {
				h, err := mux.GetConnByUfrag(u, v6(l), locals[l])
				if err != nil {
					rt.Fatalf("harness: %v", err)
				}
				handles[key{u, l}] = h
				mux.mu.Lock()
				under[key{u, l}], _ = mux.getConn(u, v6(l), locals[l])
				mux.mu.Unlock()
			}
		}
		port := 31000
		var hist []string
		closedOne, usedV6 := false, false
		nOps := rapid.IntRange(2, 12).Draw(rt, "nOps")
		for i := 0; i < nOps; i++ {
			u := ufrags[rapid.IntRange(0, len(ufrags)-1).Draw(rt, "ufrag")]
			l := rapid.IntRange(0, len(locals)-1).Draw(rt, "local")
			k := key{u, l}
			switch rapid.SampledFrom([]string{"connect", "connect", "close", "reopen", "removeAndReopen"}).Draw(rt, "op") {
			case "removeAndReopen":
				// what an agent restarted with the same ufrag does: remove by ufrag, then ask for connections again
				mux.RemoveConnByUfrag(u)
				for ll := range locals {
					kk := key{u, ll}
					if handles[kk] != nil && under[kk] != nil && !under[kk].isClosed() {
						st.Fail(rt, "C15/two-locals/remove-left-a-connection", "after RemoveConnByUfrag(%s) the packet connection of %s@%s is still open (%s)", u, u, locals[ll], strings.Join(hist, "; "))
					}
					if handles[kk] != nil {
						_ = handles[kk].Close()
					}
					h, err := mux.GetConnByUfrag(u, v6(ll), locals[ll])
					if err != nil {
						st.Fail(rt, "C15/two-locals/reopen-failed", "GetConnByUfrag(%s, %s) right after RemoveConnByUfrag: %v (%s)", u, locals[ll], err, strings.Join(hist, "; "))

						continue
					}
					handles[kk] = h
					mux.mu.Lock()
					under[kk], _ = mux.getConn(u, v6(ll), locals[ll])
					mux.mu.Unlock()
				}
				closedOne = true
				hist = append(hist, fmt.Sprintf("removeAndReopen(%s)", u))
				c11Jitter(rapid.IntRange(0, 40).Draw(rt, "jitterAfterReopen")) // the stale watchers get their chance
			case "close":
				if handles[k] == nil {
					continue
				}
				_ = handles[k].Close()
				handles[k] = nil
				closedOne = true
				hist = append(hist, fmt.Sprintf("close(%s@%s)", u, locals[l]))
				// (no waiting for the mux's close watcher: a handle may be re-opened at once)
			case "reopen":
				if handles[k] != nil {
					continue
				}
				h, err := mux.GetConnByUfrag(u, v6(l), locals[l])
				if err != nil {
					st.Fail(rt, "C15/two-locals/reopen-failed", "GetConnByUfrag(%s, %s) after an earlier close: %v (%s)", u, locals[l], err, strings.Join(hist, "; "))

					continue
				}
				handles[k] = h
				mux.mu.Lock()
				under[k], _ = mux.getConn(u, v6(l), locals[l])
				mux.mu.Unlock()
				hist = append(hist, fmt.Sprintf("reopen(%s@%s)", u, locals[l]))
			case "connect":
				if handles[k] == nil {
					continue // (clients of an unregistered ufrag get a provisional connection: the main test's business)
				}
				mux.mu.Lock()
				cur, ok := mux.getConn(u, v6(l), locals[l])
				mux.mu.Unlock()
				if !ok || cur != under[k] {
					st.Fail(rt, "C15/two-locals/held-connection-replaced", "the packet connection of %s@%s is no longer the one its open handle was given (registered=%v) (%s)", u, locals[l], ok, strings.Join(hist, "; "))

					continue
				}
				a, b := net.Pipe()
				port++
				remote := &net.TCPAddr{IP: net.IPv4(198, 51, 100, 9), Port: port}
				if v6(l) {
					remote = &net.TCPAddr{IP: net.ParseIP("2001:db8::9"), Port: port}
					usedV6 = true
				}
				cl := &c15Client{id: len(clients), conn: a, remote: remote, kind: "valid", ufrag: u, done: make(chan struct{})}
				go cl.reader()
				clients = append(clients, cl)
				ln.ch <- &c15Conn{Conn: b, local: &net.TCPAddr{IP: locals[l], Port: 8443}, remote: remote}
				msg := c15StunBinding(u+":peer", true, stun.MethodBinding)
				_ = cl.conn.SetWriteDeadline(time.Now().Add(20 * time.Second))
				_, _ = cl.conn.Write(c15Frame(msg))
				hist = append(hist, fmt.Sprintf("connect(%s@%s from %s)", u, locals[l], remote))
				_ = handles[k].SetReadDeadline(time.Now().Add(5 * time.Second))
				buf := make([]byte, 2000)
				n, from, err := handles[k].ReadFrom(buf)
				if err != nil || from.String() != remote.String() || !bytes.Equal(buf[:n], msg) {
					st.Fail(rt, "C15/two-locals/first-message-not-delivered", "client of %s@%s: the held handle read n=%d from=%v err=%v, want the client's first message from %s (%s)",
						u, locals[l], n, from, err, remote, strings.Join(hist, "; "))

					continue
				}
				if _, err := handles[k].WriteTo([]byte("reply"), remote); err != nil {
					st.Fail(rt, "C15/two-locals/reply-failed", "reply to %s over %s@%s: %v (%s)", remote, u, locals[l], err, strings.Join(hist, "; "))
				}
			}
		}
		// Close closes every packet connection it still owns, of both families, and every TCP connection
		closeDone := make(chan struct{})
		go func() { _ = mux.Close(); close(closeDone) }()
		select {
		case <-closeDone:
			for kk, h := range handles {
				if h != nil && under[kk] != nil && !under[kk].isClosed() {
					st.Fail(rt, "C15/two-locals/close-left-a-connection", "after Close of the mux the packet connection of %s@%s is still open (%s)", kk.u, locals[kk.l], strings.Join(hist, "; "))
				}
			}
			for _, c := range clients {
				if !c.closedByPeer(5 * time.Second) {
					st.Fail(rt, "C15/two-locals/close-left-a-tcp-connection", "after Close of the mux the TCP connection of client %s is still open (%s)", c.remote, strings.Join(hist, "; "))
				}
			}
		case <-time.After(20 * time.Second):
			st.Fail(rt, "C15/two-locals/close-hangs", "Close of the mux did not return within 20 s (%s)", strings.Join(hist, "; "))
		}
		desc := strings.Join(hist, "; ")
		st.Record(vfHashStr(desc), closedOne, fmt.Sprintf("closed-one-address:%v", closedOne), fmt.Sprintf("ipv6-client:%v", usedV6))
		if closedOne && st.WantSample() {
			st.Sample(func() string { return desc })
		}
	})
}

// TestVerif_C15_CloseWithSilentClients: clients that have connected but not (or only partly) sent their first
// frame, and a first-frame timeout that is long or disabled: Close closes them and returns in bounded time.
func TestVerif_C15_CloseWithSilentClients(t *testing.T) {
	st := vfNewStats(t)
	lf := logging.NewDefaultLoggerFactory()
	lf.DefaultLogLevel = logging.LogLevelDisabled
	rapid.Check(t, func(rt *rapid.T) {
		firstTO := rapid.SampledFrom([]time.Duration{time.Hour, -1, 10 * time.Minute}).Draw(rt, "firstStunBindTimeout")
		nSilent := rapid.IntRange(1, 4).Draw(rt, "silentClients")
		partial := rapid.Bool().Draw(rt, "someSendAPartialFrame")
		withValid := rapid.Bool().Draw(rt, "alsoAValidClient")
		ln := newC15Listener()
		mux := NewTCPMuxDefault(TCPMuxParams{Listener: ln, Logger: lf.NewLogger("verif"), ReadBufferSize: 8, FirstStunBindTimeout: firstTO, AliveDurationForConnFromStun: time.Hour})
		localIP := net.IPv4(10, 0, 0, 1)
		var clients []*c15Client
		defer func() {
			for _, c := range clients {
				_ = c.conn.Close()
			}
		}()
		connect := func(i int) *c15Client {
			a, b := net.Pipe()
			remote := &net.TCPAddr{IP: net.IPv4(198, 51, 100, 9), Port: 42000 + i}
			cl := &c15Client{id: i, conn: a, remote: remote, kind: "silent", ufrag: "uq", done: make(chan struct{})}
			go cl.reader()
			clients = append(clients, cl)
			ln.ch <- &c15Conn{Conn: b, local: &net.TCPAddr{IP: localIP, Port: 8443}, remote: remote}

			return cl
		}
		for i := 0; i < nSilent; i++ {
			cl := connect(i)
			if partial && i%2 == 0 {
				go func() {
					_ = cl.conn.SetWriteDeadline(time.Now().Add(5 * time.Second))
					_, _ = cl.conn.Write([]byte{0x00})
				}()
			}
		}
		if withValid {
			h, err := mux.GetConnByUfrag("uq", false, localIP)
			if err == nil {
				defer h.Close() //nolint:errcheck
			}
			cl := connect(100)
			_ = cl.conn.SetWriteDeadline(time.Now().Add(20 * time.Second))
			_, _ = cl.conn.Write(c15Frame(c15StunBinding("uq:peer", true, stun.MethodBinding)))
		}
		c11Jitter(rapid.IntRange(0, 40).Draw(rt, "jitter"))
		done := make(chan struct{})
		t0 := time.Now()
		go func() { _ = mux.Close(); close(done) }()
		desc := fmt.Sprintf("firstStunBindTimeout=%s silent=%d partial=%v valid=%v", firstTO, nSilent, partial, withValid)
		st.Record(vfHashStr(desc), true, fmt.Sprintf("timeout:%s", firstTO))
		if st.WantSample() {
			st.Sample(func() string { return desc })
		}
		select {
		case <-done:
		case <-time.After(10 * time.Second):
			dead, dump := vfStuck("TCPMuxDefault")
			// free the mux before failing: the clients hang up
			for _, c := range clients {
				_ = c.conn.Close()
			}
			if dead {
				st.Fail(rt, "C15/close/waits-for-silent-clients", "Close has not returned after 10 s with %d connected client(s) that never completed a first frame (%s)\n%s", nSilent, desc, dump)
			}
			st.Inconclusive()
			rt.Fatalf("VERIF-INCONCLUSIVE: Close still running after 10 s (%s)", desc)
		}
		_ = t0
		for _, c := range clients {
			if !c.closedByPeer(5 * time.Second) {
				st.Fail(rt, "C15/close/client-connection-left-open", "client %s is still connected after Close returned (%s)", c.remote, desc)
			}
		}
	})
}

// c15GateLogger holds the mux's "close tcp packet conn by alive timeout" warning until the checker lets it pass:
// the expiry callback is then known to be running, between the timer firing and the close.
type c15GateLogger struct {
	logging.LeveledLogger
	entered chan struct{}
	release chan struct{}
}

func (l *c15GateLogger) Warn(msg string) {
	if strings.Contains(msg, "alive timeout") {
		select {
		case l.entered <- struct{}{}:
		default:
		}
		<-l.release
	}
}

// TestVerif_C15_ClaimRacesExpiry: a provisional connection (client first, unknown ufrag) whose expiry timer has
// fired but whose expiry callback has not closed it yet is claimed by GetConnByUfrag. A claim that succeeded
// stands: the connection and its client stay attached and usable.
func TestVerif_C15_ClaimRacesExpiry(t *testing.T) {
	st := vfNewStats(t)
	lf := logging.NewDefaultLoggerFactory()
	lf.DefaultLogLevel = logging.LogLevelDisabled
	rapid.Check(t, func(rt *rapid.T) {
		alive := time.Duration(rapid.IntRange(1, 20).Draw(rt, "aliveMs")) * time.Millisecond
		writeBuf := rapid.SampledFrom([]int{0, 1 << 20}).Draw(rt, "writeBuffer")
		gl := &c15GateLogger{LeveledLogger: lf.NewLogger("verif"), entered: make(chan struct{}, 1), release: make(chan struct{})}
		ln := newC15Listener()
		mux := NewTCPMuxDefault(TCPMuxParams{Listener: ln, Logger: gl, ReadBufferSize: 64, WriteBufferSize: writeBuf, FirstStunBindTimeout: time.Hour, AliveDurationForConnFromStun: alive})
		released := false
		a, b := net.Pipe()
		remote := &net.TCPAddr{IP: net.IPv4(198, 51, 100, 9), Port: 30001}
		cl := &c15Client{id: 0, conn: a, remote: remote, kind: "valid", ufrag: "uz", done: make(chan struct{})}
		go cl.reader()
		defer func() {
			if !released {
				close(gl.release)
			}
			_ = a.Close()
			done := make(chan struct{})
			go func() { _ = mux.Close(); close(done) }()
			select {
			case <-done:
			case <-time.After(10 * time.Second):
			}
		}()
		localIP := net.IPv4(10, 0, 0, 1)
		ln.ch <- &c15Conn{Conn: b, local: &net.TCPAddr{IP: localIP, Port: 8443}, remote: remote}
		_ = a.SetWriteDeadline(time.Now().Add(20 * time.Second))
		_, _ = a.Write(c15Frame(c15StunBinding("uz:peer", true, stun.MethodBinding)))
		select {
		case <-gl.entered: // the expiry callback is running, it has not closed anything yet
		case <-time.After(20 * time.Second):
			st.Inconclusive()
			rt.Fatalf("VERIF-INCONCLUSIVE: the provisional connection's timer did not fire")
		}
		h, err := mux.GetConnByUfrag("uz", false, localIP)
		released = true
		close(gl.release)
		desc := fmt.Sprintf("alive=%s writeBuffer=%d claim=%v", alive, writeBuf, err)
		st.Record(vfHashStr(desc), err == nil, fmt.Sprintf("claimed:%v", err == nil))
		if st.WantSample() {
			st.Sample(func() string { return desc })
		}
		if err != nil {
			return // the mux refused the claim: nothing to keep
		}
		defer h.Close() //nolint:errcheck
		time.Sleep(5 * time.Millisecond)
		for k := 0; k < 50; k++ {
			runtime.Gosched()
		}
		mux.mu.Lock()
		pc, ok := mux.getConn("uz", false, localIP)
		mux.mu.Unlock()
		has := false
		if ok {
			pc.mu.Lock()
			_, has = pc.conns[remote.String()]
			pc.mu.Unlock()
		}
		if !ok || !has || pc.isClosed() {
			st.Fail(rt, "C15/provisional/claimed-connection-expired", "%s: GetConnByUfrag succeeded while the expiry callback was already running; afterwards the claimed connection is registered=%v, client attached=%v", desc, ok, has)
		}
		if _, werr := h.WriteTo([]byte("reply"), remote); werr != nil {
			st.Fail(rt, "C15/provisional/claimed-connection-expired", "%s: writing on the claimed connection: %v", desc, werr)
		}
	})
}


// TestVerif_C15_AcceptErrors: a listener under pressure returns temporary errors from Accept (EMFILE while a burst
// of hostile connections holds the descriptors, ECONNABORTED for a client that gave up). Connections accepted
// afterwards are attached as usual; the mux keeps serving until it is closed.
func TestVerif_C15_AcceptErrors(t *testing.T) {
	st := vfNewStats(t)
	lf := logging.NewDefaultLoggerFactory()
	lf.DefaultLogLevel = logging.LogLevelDisabled
	rapid.Check(t, func(rt *rapid.T) {
		script := rapid.SliceOfN(rapid.SampledFrom([]string{"client", "client", "EMFILE", "ECONNABORTED"}), 2, 8).Draw(rt, "script")
		ln := newC15Listener()
		mux := NewTCPMuxDefault(TCPMuxParams{Listener: ln, Logger: lf.NewLogger("verif"), ReadBufferSize: 64, FirstStunBindTimeout: time.Hour})
		localIP := net.IPv4(10, 0, 0, 1)
		h, err := mux.GetConnByUfrag("ue", false, localIP)
		if err != nil {
			rt.Fatalf("harness: %v", err)
		}
		var clients []*c15Client
		defer func() {
			for _, c := range clients {
				_ = c.conn.Close()
			}
			_ = h.Close()
			done := make(chan struct{})
			go func() { _ = mux.Close(); close(done) }()
			select {
			case <-done:
			case <-time.After(10 * time.Second):
			}
		}()
		errsBefore := 0
		clientsAfterError := 0
		for i, step := range script {
			switch step {
			case "EMFILE":
				ln.errs <- &net.OpError{Op: "accept", Net: "tcp", Err: syscall.EMFILE}
				errsBefore++
			case "ECONNABORTED":
				ln.errs <- &net.OpError{Op: "accept", Net: "tcp", Err: syscall.ECONNABORTED}
				errsBefore++
			case "client":
				a, b := net.Pipe()
				remote := &net.TCPAddr{IP: net.IPv4(198, 51, 100, 9), Port: 31000 + i}
				cl := &c15Client{id: len(clients), conn: a, remote: remote, kind: "valid", ufrag: "ue", done: make(chan struct{})}
				go cl.reader()
				clients = append(clients, cl)
				select {
				case ln.ch <- &c15Conn{Conn: b, local: &net.TCPAddr{IP: localIP, Port: 8443}, remote: remote}:
				default:
				}
				_ = a.SetWriteDeadline(time.Now().Add(20 * time.Second))
				go func() { _, _ = a.Write(c15Frame(c15StunBinding("ue:peer", true, stun.MethodBinding))) }()
				if errsBefore > 0 {
					clientsAfterError++
				}
			}
		}
		desc := fmt.Sprintf("script=%v", script)
		st.Record(vfHashStr(desc), clientsAfterError > 0, fmt.Sprintf("clients-after-an-error:%d", min(clientsAfterError, 3)))
		if clientsAfterError > 0 && st.WantSample() {
			st.Sample(func() string { return desc })
		}
		// every injected error has been returned by Accept …
		for d := time.Now().Add(5 * time.Second); len(ln.errs) > 0 && time.Now().Before(d); {
			time.Sleep(100 * time.Microsecond)
		}
		time.Sleep(2 * time.Millisecond)
		// … and the accept loop is still there (the mux has not been closed)
		buf := make([]byte, 1<<20)
		if stack := string(buf[:runtime.Stack(buf, true)]); errsBefore > 0 && len(ln.errs) == 0 && !strings.Contains(stack, "TCPMuxDefault).start") {
			st.Fail(rt, "C15/accept/mux-stops-accepting-after-a-temporary-error", "the accept loop of the mux has ended after a temporary Accept error although the mux was not closed: later clients are accepted by nobody (%s)", desc)
		}
		mux.mu.Lock()
		pc, _ := mux.getConn("ue", false, localIP)
		mux.mu.Unlock()
		deadline := time.Now().Add(5 * time.Second)
		for _, cl := range clients {
			for {
				pc.mu.Lock()
				_, has := pc.conns[cl.remote.String()]
				pc.mu.Unlock()
				if has {
					break
				}
				if time.Now().After(deadline) {
					st.Inconclusive()
					rt.Fatalf("VERIF-INCONCLUSIVE: client not attached after 5 s")
				}
				time.Sleep(100 * time.Microsecond)
			}
		}
	})
}

// TestVerif_C15_HostileBesideWellBehaved: "for all mixes of well-behaved and hostile clients" at the level where it
// matters — an agent whose passive TCP candidate sits on the mux. A well-behaved peer is connected and gets its
// checks answered; a second client attaches under the same ufrag (it travels in the clear), misbehaves in a drawn way
// (oversized length header, garbage, reset) and the well-behaved peer's next authenticated check must still be
// answered: the bad stream is closed, the others are served.
func TestVerif_C15_HostileBesideWellBehaved(t *testing.T) {
	st := vfNewStats(t)
	lf := logging.NewDefaultLoggerFactory()
	lf.DefaultLogLevel = logging.LogLevelDisabled
	rapid.Check(t, func(rt *rapid.T) {
		hostile := rapid.SampledFrom([]string{"oversize-header", "garbage-frame", "reset", "truncated-frame-then-close"}).Draw(rt, "hostile")
		readBuf := rapid.SampledFrom([]int{0, 8, 64}).Draw(rt, "readBuffer")
		ln := newC15Listener()
		mux := NewTCPMuxDefault(TCPMuxParams{Listener: ln, Logger: lf.NewLogger("mux"), ReadBufferSize: readBuf, FirstStunBindTimeout: time.Hour})
		fn := newFakeNet([]fnIface{{Name: "eth0", Up: true, Addrs: []string{"10.0.0.1"}}})
		a, err := NewAgentWithOptions(WithNet(fn), WithLoggerFactory(lf), WithMulticastDNSMode(MulticastDNSModeDisabled),
			WithCandidateTypes([]CandidateType{CandidateTypeHost}), WithNetworkTypes([]NetworkType{NetworkTypeTCP4}), WithTCPMux(mux),
			WithCheckInterval(time.Hour), WithKeepaliveInterval(time.Hour), WithDisconnectedTimeout(time.Hour), WithFailedTimeout(time.Hour), WithDisableActiveTCP())
		if err != nil {
			rt.Fatalf("harness: %v", err)
		}
		var clients []*c15Client
		defer func() {
			for _, c := range clients {
				_ = c.conn.Close()
			}
			done := make(chan struct{})
			go func() { _ = a.Close(); _ = mux.Close(); close(done) }()
			select {
			case <-done:
			case <-time.After(10 * time.Second):
			}
		}()
		gathered := make(chan struct{}, 1)
		_ = a.OnCandidate(func(c Candidate) {
			if c == nil {
				select {
				case gathered <- struct{}{}:
				default:
				}
			}
		})
		if err := a.GatherCandidates(); err != nil {
			rt.Fatalf("harness: %v", err)
		}
		select {
		case <-gathered:
		case <-time.After(20 * time.Second):
			st.Inconclusive()
			rt.Fatalf("VERIF-INCONCLUSIVE: gathering did not complete")
		}
		if lc, _ := a.GetLocalCandidates(); len(lc) == 0 {
			rt.Fatalf("harness: no passive TCP candidate gathered")
		}
		ufrag, pwd, _ := a.GetLocalUserCredentials()
		const peerUfrag, peerPwd = "peerUfragPeerUfrag", "peerPasswordPeerPasswordPeerPwd"
		if err := a.startConnectivityChecks(false, peerUfrag, peerPwd); err != nil {
			rt.Fatalf("harness: %v", err)
		}
		localIP := net.IPv4(10, 0, 0, 1)
		connect := func(port int) *c15Client {
			ca, cb := net.Pipe()
			remote := &net.TCPAddr{IP: net.IPv4(198, 51, 100, 9), Port: port}
			cl := &c15Client{id: len(clients), conn: ca, remote: remote, kind: "valid", ufrag: ufrag, done: make(chan struct{})}
			go cl.reader()
			clients = append(clients, cl)
			ln.ch <- &c15Conn{Conn: cb, local: &net.TCPAddr{IP: localIP, Port: 8443}, remote: remote}

			return cl
		}
		check := func(cl *c15Client) [stun.TransactionIDSize]byte {
			req := simBuildRequest(simReqOpts{username: ufrag + ":" + peerUfrag, key: pwd, role: "controlling", tiebreaker: 7, priority: 1000, fingerprint: true})
			_ = cl.conn.SetWriteDeadline(time.Now().Add(20 * time.Second))
			_, _ = cl.conn.Write(c15Frame(req.Raw))

			return req.TransactionID
		}
		answered := func(cl *c15Client, txid [stun.TransactionIDSize]byte, wait time.Duration) bool {
			for d := time.Now().Add(wait); time.Now().Before(d); {
				rx := cl.received()
				for off := 0; off+2 <= len(rx); {
					n := int(binary.BigEndian.Uint16(rx[off:]))
					if off+2+n > len(rx) {
						break
					}
					m := &stun.Message{Raw: append([]byte{}, rx[off+2:off+2+n]...)}
					if m.Decode() == nil && m.TransactionID == txid && m.Type.Class == stun.ClassSuccessResponse {
						return true
					}
					off += 2 + n
				}
				time.Sleep(200 * time.Microsecond)
			}

			return false
		}
		good := connect(40001)
		if !answered(good, check(good), 20*time.Second) {
			st.Inconclusive()
			rt.Fatalf("VERIF-INCONCLUSIVE: the well-behaved peer's first check was not answered within 20 s")
		}
		bad := connect(40002)
		if !answered(bad, check(bad), 20*time.Second) { // attached like anybody who has seen the ufrag
			st.Inconclusive()
			rt.Fatalf("VERIF-INCONCLUSIVE: the second client's first check was not answered within 20 s")
		}
		_ = bad.conn.SetWriteDeadline(time.Now().Add(2 * time.Second))
		switch hostile {
		case "oversize-header":
			_, _ = bad.conn.Write([]byte{0xff, 0xff, 1, 2, 3})
		case "garbage-frame":
			_, _ = bad.conn.Write(c15Frame([]byte("GET / HTTP/1.1\r\n\r\n")))
			_, _ = bad.conn.Write([]byte{0xff, 0xff})
		case "reset":
			_ = bad.conn.Close()
		case "truncated-frame-then-close":
			_, _ = bad.conn.Write([]byte{0x00, 0x40, 1, 2, 3})
			_ = bad.conn.Close()
		}
		time.Sleep(2 * time.Millisecond)
		desc := fmt.Sprintf("hostile=%s readBuffer=%d", hostile, readBuf)
		st.Record(vfHashStr(desc), true, "hostile:"+hostile)
		if st.WantSample() {
			st.Sample(func() string { return desc })
		}
		if !answered(good, check(good), 3*time.Second) {
			if stuck, dump := vfStuck("pion/ice/v4"); stuck {
				st.Fail(rt, "C15/deliver/well-behaved-client-starved-by-a-hostile-one", "after a second client of the same ufrag misbehaved (%s) the well-behaved peer's authenticated check is no longer answered: its packets are delivered to nobody\n%s", desc, dump)
			}
			st.Inconclusive()
			rt.Fatalf("VERIF-INCONCLUSIVE: check not answered within 3 s but not stably blocked")
		}
	})
}
