//go:build verif

package ice

// C03 — only validated and nominated pairs are ever selected.
// Oracle: history invariant evaluated on the harness's own log of the datagrams it carried.

import (
	"context"
	"errors"
	"fmt"
	"math/big"
	"net/netip"
	"runtime"
	"strings"
	"sync"
	"testing"
	"time"

	"github.com/pion/stun/v3"
	"pgregory.net/rapid"
)

// selMonitor watches one agent's selected pair across steps.
type selMonitor struct {
	w        *simWorld
	ag       *simAgent
	peerCred func() (ufrag, pwd string)
	last     *CandidatePair
	lastKey  string
	logFrom  int // index into w.log where the current generation started
	changes  int
	hasHandler bool
	// firstPrio: pair id -> priority computed by the harness (RFC formula over the two candidates'
	// priorities) when the pair was first seen. A pair whose peer-reflexive remote is later superseded by a
	// signalled candidate keeps its id and, as documented (C06), its priority.
	firstPrio map[uint64]*big.Int
	firstGD   map[uint64][2]uint32
	// roleSwitched: the agent has changed its role at least once in this history
	roleSwitched bool
}

// observe records the reference priority of pairs seen for the first time.
func (m *selMonitor) observe() {
	if m.firstPrio == nil {
		m.firstPrio = map[uint64]*big.Int{}
	}
	_ = m.ag.a.loop.Run(m.ag.a.loop, func(context.Context) {
		for _, p := range m.ag.a.checklist {
			if _, ok := m.firstPrio[p.id]; !ok {
				m.firstPrio[p.id] = refPairPriority(p, p.iceRoleControlling)
				if m.firstGD == nil {
					m.firstGD = map[uint64][2]uint32{}
				}
				m.firstGD[p.id] = [2]uint32{p.Local.Priority(), p.Remote.Priority()}
			}
		}
	})
}

func (m *selMonitor) prioOf(p *CandidatePair) *big.Int {
	// (a role switch re-ranks every pair: the candidates' priorities seen first, under the agent's current role)
	if gd, ok := m.firstGD[p.id]; ok {
		if m.ag.a.isControlling.Load() {
			return c17RefPair(gd[0], gd[1])
		}

		return c17RefPair(gd[1], gd[0])
	}
	if v, ok := m.firstPrio[p.id]; ok {
		return v
	}

	return refPairPriority(p, p.iceRoleControlling)
}

func pairKey(p *CandidatePair) string {
	if p == nil {
		return ""
	}

	return fmt.Sprintf("%s:%d|%s:%d", p.Local.Address(), p.Local.Port(), p.Remote.Address(), p.Remote.Port())
}

func refPairPriority(p *CandidatePair, controlling bool) *big.Int {
	g, d := p.Local.Priority(), p.Remote.Priority()
	if !controlling {
		g, d = d, g
	}

	return c17RefPair(g, d)
}

// authRequest: does the (decoded) request datagram authenticate as a request to agent ag under its current credentials?
func (m *selMonitor) authRequest(d *simDgram) bool {
	pu, _ := m.peerCred()
	if d.msg == nil || d.msg.class != stun.ClassRequest || d.msg.method != stun.MethodBinding {
		return false
	}
	if d.msg.username != m.ag.ufrag+":"+pu {
		return false
	}
	msg := &stun.Message{Raw: append([]byte{}, d.data...)}
	if msg.Decode() != nil {
		return false
	}

	return stun.MessageIntegrity([]byte(m.ag.pwd)).Check(msg) == nil
}

func (m *selMonitor) authResponse(d *simDgram) bool {
	_, pp := m.peerCred()
	if d.msg == nil || d.msg.class != stun.ClassSuccessResponse || d.msg.method != stun.MethodBinding {
		return false
	}
	msg := &stun.Message{Raw: append([]byte{}, d.data...)}
	if msg.Decode() != nil {
		return false
	}

	return stun.MessageIntegrity([]byte(pp)).Check(msg) == nil
}

// check runs after every step; returns (signature, message) on violation.
func (m *selMonitor) check(where string) (string, string) {
	m.observe()
	cur := m.ag.selectedPair()
	key := pairKey(cur)
	if key == m.lastKey {
		m.last = cur

		return "", ""
	}
	prev := m.last
	m.last, m.lastKey = cur, key
	if cur == nil {
		return "", "" // deselection (Restart / Failed) is not judged here
	}
	m.changes++
	s := m.ag.sockByLocal(cur.Local)
	if s == nil {
		return "C03/selected/unknown-local", fmt.Sprintf("%s: selected local %s is not a harness socket", where, cur.Local)
	}
	raddr := cur.Remote.addrPort()
	controlling := m.ag.a.isControlling.Load()
	m.w.mu.Lock()
	log := m.w.log[m.logFrom:]
	m.w.mu.Unlock()
	// what did the harness see?
	type reqInfo struct {
		useCand bool
	}
	sent := map[[stun.TransactionIDSize]byte]reqInfo{}
	sentElsewhere := map[[stun.TransactionIDSize]byte]reqInfo{} // to the same remote address from another local socket
	validated, validatedWithUse, nominatedHere := false, false, false
	crossValidated, crossValidatedWithUse := false, false
	trailingNomination := false // an authentic request on this pair had USE-CANDIDATE / a nomination value appended behind MESSAGE-INTEGRITY
	for _, e := range log {
		switch {
		case e.kind == "emit" && e.side == m.ag.side && e.d.msg != nil && e.d.msg.class == stun.ClassRequest && e.d.src == s && e.d.dst == raddr:
			sent[e.d.msg.txid] = reqInfo{useCand: e.d.msg.useCand}
		case e.kind == "emit" && e.side == m.ag.side && e.d.msg != nil && e.d.msg.class == stun.ClassRequest && e.d.src != s && e.d.dst == raddr:
			sentElsewhere[e.d.msg.txid] = reqInfo{useCand: e.d.msg.useCand}
		case e.kind == "deliver" && e.to == s && e.d.srcAt == raddr && e.d.msg != nil:
			if e.d.msg.class == stun.ClassSuccessResponse && m.authResponse(e.d) {
				if ri, ok := sent[e.d.msg.txid]; ok {
					validated = true
					if ri.useCand {
						validatedWithUse = true
					}
				}
				if ri, ok := sentElsewhere[e.d.msg.txid]; ok {
					crossValidated = true
					if ri.useCand {
						crossValidatedWithUse = true
					}
				}
			}
			if e.d.msg.class == stun.ClassRequest && (e.d.msg.useCand || e.d.msg.nomination != nil) && m.authRequest(e.d) {
				nominatedHere = true
			}
			if e.d.msg.class == stun.ClassRequest && e.d.msg.trailingUse && m.authRequest(e.d) {
				trailingNomination = true
			}
		}
	}
	desc := fmt.Sprintf("%s: agent %c (controlling=%v lite=%v) selected %s", where, 'A'+m.ag.side, controlling, m.ag.lite, key)
	if m.hasHandler {
		return "", ""
	}
	switch {
	case !controlling && !nominatedHere && trailingNomination:
		// D43 (known finding): attributes behind MESSAGE-INTEGRITY are honoured
		return "C03/selected/use-candidate-behind-message-integrity", desc + " on a USE-CANDIDATE (or nomination value) that was appended behind MESSAGE-INTEGRITY of an authentic ordinary check — the nomination itself is not authenticated"
	case m.ag.lite && !controlling:
		if !nominatedHere {
			return "C03/lite/selected-without-authenticated-nomination", desc + " but no authenticated nomination was delivered on that pair"
		}
	case controlling && ((!validated && crossValidated) || (!validatedWithUse && crossValidatedWithUse)):
		// D20: the answer to a check sent from another local candidate was delivered to this one
		return "C03/selected/answer-delivered-to-other-local-candidate", desc + " on an authenticated answer whose transaction belongs to a check sent from another local candidate to the same remote address"
	case !controlling && !validated && crossValidated:
		return "C03/selected/answer-delivered-to-other-local-candidate", desc + " on an authenticated answer whose transaction belongs to a check sent from another local candidate to the same remote address"
	case controlling:
		if !validated {
			return "C03/controlling/selected-unvalidated-pair", desc + " but no authenticated, transaction-matched success response was delivered on that pair"
		}
		if !validatedWithUse {
			return "C03/controlling/selected-without-use-candidate", desc + " but none of the answered requests on that pair carried USE-CANDIDATE"
		}
	default:
		if !validated {
			return "C03/controlled/selected-unvalidated-pair", desc + " but no authenticated, transaction-matched success response to a check of its own was delivered on that pair"
		}
		if !nominatedHere {
			return "C03/controlled/selected-unnominated-pair", desc + " but no authenticated request with USE-CANDIDATE/nomination was received on that pair"
		}
	}
	// plain nomination never lowers the priority (full agents, or lite configured to check)
	if prev != nil && (!m.ag.lite || m.ag.a.enableUseCandidateCheckPriority) {
		// was any valued nomination involved on the new pair? then C20 applies instead
		valued := false
		for _, e := range log {
			if e.kind == "deliver" && e.to == s && e.d.srcAt == raddr && e.d.msg != nil && e.d.msg.nomination != nil {
				valued = true
			}
			if e.kind == "emit" && e.side == m.ag.side && e.d.msg != nil && e.d.msg.nomination != nil {
				valued = true
			}
		}
		if !valued {
			po, pn := m.prioOf(prev), m.prioOf(cur)
			if m.roleSwitched {
				// after a role switch the clause is not judged: pairs whose peer-reflexive remote was superseded keep
				// their priority (C06) as frozen under the role of that moment, the others are re-ranked (set aside in
				// §10.5, not claimed either way), so "lower" has no single reference; role switches and priorities
				// are the business of C05 and C17
				return "", ""
			}
			if pn.Cmp(po) < 0 && trailingNomination {
				// D43 (known finding): a nomination value behind MESSAGE-INTEGRITY is taken for a renomination
				return "C03/selected/use-candidate-behind-message-integrity", fmt.Sprintf("%s on a nomination that was appended behind MESSAGE-INTEGRITY of an authentic ordinary check; previous %s had priority %s, new one %s", desc, pairKey(prev), po, pn)
			}
			if pn.Cmp(po) < 0 {
				return "C03/plain-nomination/moved-to-lower-priority", fmt.Sprintf("%s; previous %s had priority %s, new one %s", desc, pairKey(prev), po, pn)
			}
		}
	}

	return "", ""
}

// emitInvariant: a controlled agent never sends USE-CANDIDATE; a lite agent never originates requests.
func (m *selMonitor) emitInvariant() (string, string) {
	m.w.mu.Lock()
	log := m.w.log[m.logFrom:]
	m.w.mu.Unlock()
	for _, e := range log {
		if e.kind != "emit" || e.side != m.ag.side || e.d.msg == nil || e.d.msg.class != stun.ClassRequest {
			continue
		}
		if e.d.msg.role == "controlled" && e.d.msg.useCand {
			return "C03/controlled/sent-use-candidate", fmt.Sprintf("agent %c emitted %s with ICE-CONTROLLED and USE-CANDIDATE", 'A'+m.ag.side, e.d)
		}
		if m.ag.lite && e.d.msg.role == "controlled" {
			return "C03/lite/originated-request", fmt.Sprintf("lite agent %c emitted %s", 'A'+m.ag.side, e.d)
		}
	}

	return "", ""
}

// ---- solo world: one real agent, the checker plays an authenticated but misbehaving peer

type soloSim struct {
	w    *simWorld
	ag   *simAgent
	peer *simAgent // side 1, sockets without candidates; credentials known
	eps  []*simSock
	ops  []string
}

type soloEpSpec struct {
	V6   bool
	Typ  CandidateType
	Prio uint32
	Text int // how the address is written when signalled: 0 canonical, 1 expanded (IPv6), 2 upper case (IPv6)
}

func newSoloSim(cfg simAgentConfig, locals []duoSockSpec, eps []soloEpSpec) (*soloSim, error) {
	w := newSimWorld()
	ag, err := w.newAgent(0, cfg)
	if err != nil {
		return nil, err
	}
	peer := &simAgent{w: w, side: 1, ufrag: "peerUfragXY", pwd: "peerPasswordPeerPassword0123", signalled: map[int]bool{}}
	w.agents[1] = peer
	s := &soloSim{w: w, ag: ag, peer: peer}
	for i, l := range locals {
		if _, err := ag.addLocal(i, l.V6, l.Kind, true); err != nil {
			ag.close()

			return nil, err
		}
	}
	for i, e := range eps {
		priv, _ := simAddrs(1, i, 0, e.V6, false, true)
		sk := &simSock{w: w, side: 1, idx: i, priv: priv, pub: priv, done: make(chan struct{})}
		peer.socks = append(peer.socks, sk)
		s.eps = append(s.eps, sk)
	}

	return s, nil
}

func (s *soloSim) close() { s.ag.close() }

func (s *soloSim) epCandidate(i int, spec soloEpSpec) Candidate {
	ap := s.eps[i].pub
	addrText := ap.Addr().String()
	if ap.Addr().Is6() {
		switch spec.Text {
		case 1:
			addrText = ap.Addr().StringExpanded()
		case 2:
			addrText = strings.ToUpper(addrText)
		}
	}
	var (
		c   Candidate
		err error
	)
	switch spec.Typ {
	case CandidateTypeServerReflexive:
		c, err = NewCandidateServerReflexive(&CandidateServerReflexiveConfig{Network: "udp", Address: addrText, Port: int(ap.Port()), Component: 1, Priority: spec.Prio, RelAddr: "0.0.0.0", RelPort: 9})
	case CandidateTypeRelay:
		c, err = NewCandidateRelay(&CandidateRelayConfig{Network: "udp", Address: addrText, Port: int(ap.Port()), Component: 1, Priority: spec.Prio, RelAddr: "192.0.2.9", RelPort: 9})
	case CandidateTypePeerReflexive:
		c, err = NewCandidatePeerReflexive(&CandidatePeerReflexiveConfig{Network: "udp", Address: addrText, Port: int(ap.Port()), Component: 1, Priority: spec.Prio, RelAddr: "0.0.0.0", RelPort: 9})
	default:
		c, err = NewCandidateHost(&CandidateHostConfig{Network: "udp", Address: addrText, Port: int(ap.Port()), Component: 1, Priority: spec.Prio})
	}
	if err != nil {
		panic(err)
	}

	return c
}

// inject delivers raw bytes from peer endpoint ep to the agent's socket to (synchronously).
func (s *soloSim) inject(ep *simSock, to *simSock, raw []byte) {
	s.injectFrom(ep, ep.pub, to, raw)
}

func (s *soloSim) injectFrom(ep *simSock, srcAt netip.AddrPort, to *simSock, raw []byte) {
	s.w.mu.Lock()
	s.w.nextID++
	d := &simDgram{id: s.w.nextID, src: ep, srcAt: srcAt, dst: to.pub, data: append([]byte{}, raw...)}
	s.w.mu.Unlock()
	d.msg = simDecode(raw, s.w.nomAttr)
	if to.isClosed() || to.cand == nil {
		s.w.logEvent(simEvent{kind: "closed", side: 1, d: d, to: to})

		return
	}
	s.w.logEvent(simEvent{kind: "deliver", side: 1, d: d, to: to})
	simBase(to.cand).handleInboundPacket(d.data, d.srcAt)
	s.w.settle()
}

// agentRequests lists the in-flight Binding requests emitted by the agent.
func (s *soloSim) agentRequests() []*simDgram {
	s.w.mu.Lock()
	defer s.w.mu.Unlock()
	var out []*simDgram
	for _, d := range s.w.inflight {
		if d.src.side == 0 && d.msg != nil && d.msg.class == stun.ClassRequest {
			out = append(out, d)
		}
	}

	return out
}

func (s *soloSim) removeInflight(d *simDgram) {
	s.w.mu.Lock()
	defer s.w.mu.Unlock()
	for i, x := range s.w.inflight {
		if x == d {
			s.w.inflight = append(s.w.inflight[:i], s.w.inflight[i+1:]...)

			return
		}
	}
}

// purgeNonRequests drops everything in flight that is not an agent request (responses to the peer, data).
func (s *soloSim) purgeNonRequests() {
	s.w.mu.Lock()
	defer s.w.mu.Unlock()
	out := s.w.inflight[:0]
	for _, d := range s.w.inflight {
		if d.src.side == 0 && d.msg != nil && d.msg.class == stun.ClassRequest {
			out = append(out, d)
		}
	}
	s.w.inflight = out
}

func (s *soloSim) epByAddr(ap netip.AddrPort) *simSock {
	for _, e := range s.eps {
		if e.pub == ap {
			return e
		}
	}

	return nil
}

// answer sends the authentic success response for agent request d from the endpoint it was sent to.
func (s *soloSim) answer(d *simDgram, from *simSock) {
	resp := simBuildSuccess(d.msg.txid, d.src.pub, s.peer.pwd, true)
	s.inject(from, d.src, resp.Raw)
}

// peerRequest sends an authentic Binding request from endpoint ep to agent socket to.
func (s *soloSim) peerRequest(ep, to *simSock, useCand bool, nomination *uint32, prio uint32, role string, tiebreaker uint64) {
	s.peerRequestTrailing(ep, to, useCand, nomination, prio, role, tiebreaker, nil)
}

// peerRequestTrailing: the same authentic request with attributes appended behind MESSAGE-INTEGRITY (by anybody
// on the path: no password is needed), FINGERPRINT recomputed.
func (s *soloSim) peerRequestTrailing(ep, to *simSock, useCand bool, nomination *uint32, prio uint32, role string, tiebreaker uint64, trailing []stun.Setter) {
	req := simBuildRequest(simReqOpts{
		username: s.ag.ufrag + ":" + s.peer.ufrag, key: s.ag.pwd, role: role, tiebreaker: tiebreaker,
		useCand: useCand, nomination: nomination, priority: prio, fingerprint: true, trailing: trailing,
	})
	s.inject(ep, to, req.Raw)
}

func TestVerif_C03_MisbehavingPeer(t *testing.T) {
	st := vfNewStats(t)
	rapid.Check(t, func(rt *rapid.T) {
		controlling := rapid.Bool().Draw(rt, "controlling")
		lite := !controlling && rapid.IntRange(0, 2).Draw(rt, "lite") == 0
		checkPrio := rapid.Bool().Draw(rt, "checkPriority")
		nLocal := rapid.IntRange(1, 3).Draw(rt, "nLocal")
		nEp := rapid.IntRange(1, 3).Draw(rt, "nEp")
		var locals []duoSockSpec
		for i := 0; i < nLocal; i++ {
			k := rapid.SampledFrom([]int{simKindHost, simKindSrflx, simKindRelayish}).Draw(rt, "lkind")
			if lite {
				k = simKindHost
			}
			locals = append(locals, duoSockSpec{Kind: k})
		}
		var eps []soloEpSpec
		for i := 0; i < nEp; i++ {
			eps = append(eps, soloEpSpec{
				Typ:  rapid.SampledFrom([]CandidateType{CandidateTypeHost, CandidateTypeServerReflexive, CandidateTypeRelay}).Draw(rt, "etype"),
				Prio: rapid.SampledFrom([]uint32{0, 0, 1, 1000, 2130706431, 1694498815, 16777215}).Draw(rt, "eprio"),
			})
		}
		cfg := simAgentConfig{
			controlling: controlling, lite: lite, checkPriority: checkPrio, maxBinding: 7,
			disconnected: time.Hour, failed: 0, keepalive: 2 * time.Second, explicitTimeout: true,
		}
		s, err := newSoloSim(cfg, locals, eps)
		if err != nil {
			rt.Fatalf("harness: %v", err)
		}
		defer s.close()
		if err := s.ag.start(s.peer.ufrag, s.peer.pwd); err != nil {
			rt.Fatalf("harness: %v", err)
		}
		mon := &selMonitor{w: s.w, ag: s.ag, peerCred: func() (string, string) { return s.peer.ufrag, s.peer.pwd }}
		lbl := map[string]bool{}
		nOps := rapid.IntRange(1, 40).Draw(rt, "nOps")
		peerRole := "controlled"
		if !controlling {
			peerRole = "controlling"
		}
		ownSucceeded := map[string]bool{} // pairs on which the agent's own check was answered
		useDelivered := map[string]int{}
		var oldReqs []*simDgram // unanswered checks of generations ended by Restart
		for i := 0; i < nOps; i++ {
			op := rapid.SampledFrom([]string{"tick", "tick", "peerRequest", "peerRequest", "peerRequest", "answer", "answer", "answer", "answer", "answerFromElsewhere", "answerToOtherLocal", "answerWithError", "dropRequest", "signal", "signal", "dupAnswer", "restart", "answerOld", "answerOld", "roleConflictLost"}).Draw(rt, "op")
			arg := rapid.IntRange(0, 11).Draw(rt, "arg")
			s.purgeNonRequests()
			switch op {
			case "restart":
				// the agent restarts; the peer keeps its credentials and addresses (one-sided restart as seen by
				// the agent); checks of the ended generation stay unanswered and may be answered later
				if rapid.IntRange(0, 2).Draw(rt, "really") != 0 {
					continue
				}
				oldReqs = append(oldReqs, s.agentRequests()...)
				if err := s.ag.restart(); err != nil {
					rt.Fatalf("harness: restart: %v", err)
				}
				s.w.mu.Lock()
				s.w.inflight = nil
				s.w.mu.Unlock()
				for i, l := range locals {
					if _, err := s.ag.addLocal(i, l.V6, l.Kind, true); err != nil {
						rt.Fatalf("harness: %v", err)
					}
				}
				_ = s.ag.a.SetRemoteCredentials(s.peer.ufrag, s.peer.pwd)
				mon.logFrom = s.w.logLen()
				mon.last, mon.lastKey, mon.firstPrio, mon.firstGD = nil, pairKey(nil), nil, nil
				ownSucceeded, useDelivered = map[string]bool{}, map[string]int{}
				lbl["restart"] = true
				s.ops = append(s.ops, "restart")
			case "answerOld":
				if len(oldReqs) == 0 {
					continue
				}
				d := oldReqs[arg%len(oldReqs)]
				ep := s.epByAddr(d.dst)
				var to *simSock
				for _, sk := range s.ag.socks {
					if sk.idx == d.src.idx {
						to = sk
					}
				}
				if ep == nil || to == nil {
					continue
				}
				s.inject(ep, to, simBuildSuccess(d.msg.txid, to.pub, s.peer.pwd, true).Raw)
				lbl["answer-to-check-of-ended-generation"] = true
				s.ops = append(s.ops, fmt.Sprintf("answerOld(%s)", d))
			case "tick":
				s.ag.tick()
				s.ops = append(s.ops, "tick")
			case "roleConflictLost":
				// an authenticated request carrying the agent's own role with a tie-breaker the agent loses against:
				// the agent switches role with checks (ordinary, nominating or triggered) possibly still in flight.
				// What those checks may conclude when their answers arrive is decided by the role the agent has then.
				if lite {
					s.ag.tick()
					s.ops = append(s.ops, "tick")

					break
				}
				was := s.ag.a.isControlling.Load()
				own, tb := "controlled", uint64(0)
				if was {
					own, tb = "controlling", ^uint64(0)
				}
				s.peerRequest(s.eps[arg%len(s.eps)], s.ag.socks[(arg/3)%len(s.ag.socks)], false, nil, 1000, own, tb)
				if s.ag.a.isControlling.Load() != was {
					lbl["role-switched"] = true
					mon.roleSwitched = true
					if len(s.agentRequests()) > 0 {
						lbl["role-switched-with-checks-in-flight"] = true
					}
				}
				peerRole = "controlled"
				if !s.ag.a.isControlling.Load() {
					peerRole = "controlling"
				}
				s.ops = append(s.ops, fmt.Sprintf("roleConflictLost(now controlling=%v)", s.ag.a.isControlling.Load()))
			case "peerRequest":
				ep := s.eps[arg%len(s.eps)]
				to := s.ag.socks[(arg/3)%len(s.ag.socks)]
				use := rapid.Bool().Draw(rt, "useCandidate")
				prio := rapid.SampledFrom([]uint32{1, 1000, 1853824767, 2130706431}).Draw(rt, "prio")
				key := to.name() + "|" + ep.name()
				if use {
					if !ownSucceeded[key] {
						lbl["use-candidate-before-own-check"] = true
					}
					useDelivered[key]++
					if useDelivered[key] >= 2 {
						lbl["use-candidate-repeated"] = true
					}
					if cur := s.ag.selectedPair(); cur != nil {
						lbl["use-candidate-while-selected"] = true
					}
				}
				var trailing []stun.Setter
				if !use && rapid.IntRange(0, 3).Draw(rt, "useCandidateBehindIntegrity") == 0 {
					// an ordinary authentic check to which somebody appended USE-CANDIDATE (or a nomination value)
					// behind MESSAGE-INTEGRITY: it is the ordinary check it authentically is
					trailing = []stun.Setter{UseCandidate()}
					if rapid.Bool().Draw(rt, "withNominationValue") {
						trailing = append(trailing, Nomination(7))
					}
					lbl["use-candidate-behind-integrity"] = true
				}
				// a peer that uses renomination: values in any order (older or equal ones are to be refused,
				// which must not make a lite agent originate anything)
				var nomv *uint32
				if use && rapid.IntRange(0, 3).Draw(rt, "withNomination") == 0 {
					v := rapid.SampledFrom([]uint32{1, 2, 3, 3, 5, 9}).Draw(rt, "nominationValue")
					nomv = &v
					lbl["nomination-values"] = true
				}
				s.peerRequestTrailing(ep, to, use, nomv, prio, peerRole, 12345, trailing)
				s.ops = append(s.ops, fmt.Sprintf("peerRequest(%s→%s use=%v nom=%s prio=%d trailing=%d)", ep.name(), to.name(), use, fmtU32(nomv), prio, len(trailing)))
			case "answer", "dupAnswer":
				reqs := s.agentRequests()
				if len(reqs) == 0 {
					continue
				}
				d := reqs[arg%len(reqs)]
				ep := s.epByAddr(d.dst)
				if ep == nil {
					s.removeInflight(d)

					continue
				}
				if op == "answer" {
					s.removeInflight(d)
				}
				ownSucceeded[d.src.name()+"|"+ep.name()] = true
				s.answer(d, ep)
				s.ops = append(s.ops, fmt.Sprintf("%s(%s)", op, d))
			case "answerFromElsewhere":
				reqs := s.agentRequests()
				if len(reqs) == 0 || len(s.eps) < 2 {
					continue
				}
				d := reqs[arg%len(reqs)]
				ep := s.epByAddr(d.dst)
				other := s.eps[(arg+1)%len(s.eps)]
				if ep == nil || other == ep {
					continue
				}
				s.removeInflight(d)
				s.answer(d, other)
				lbl["response-from-other-address"] = true
				s.ops = append(s.ops, fmt.Sprintf("answerFromElsewhere(%s via %s)", d, other.name()))
			case "answerWithError":
				// the peer refuses a check or a nomination: an authentic, transaction-matched *error* response
				reqs := s.agentRequests()
				if len(reqs) == 0 {
					continue
				}
				d := reqs[arg%len(reqs)]
				ep := s.epByAddr(d.dst)
				s.removeInflight(d)
				if ep == nil || d.src.isClosed() {
					continue
				}
				code := rapid.SampledFrom([]stun.ErrorCode{stun.CodeRoleConflict, stun.CodeBadRequest, stun.CodeUnauthorized, 500}).Draw(rt, "errorCode")
				s.inject(ep, d.src, simBuildError(d.msg.txid, code, s.peer.pwd).Raw)
				lbl["error-response-to-check"] = true
				if d.msg.useCand {
					lbl["error-response-to-nomination"] = true
				}
				s.ops = append(s.ops, fmt.Sprintf("answerWithError(%s code=%d)", d, code))
			case "answerToOtherLocal":
				// the (authenticated) peer sends the answer to a check to another local address of the agent
				reqs := s.agentRequests()
				if len(reqs) == 0 || len(s.ag.socks) < 2 {
					continue
				}
				d := reqs[arg%len(reqs)]
				ep := s.epByAddr(d.dst)
				other := s.ag.socks[(arg/2)%len(s.ag.socks)]
				if ep == nil || other == d.src || other.priv.Addr().Is4() != ep.priv.Addr().Is4() {
					continue
				}
				s.removeInflight(d)
				s.inject(ep, other, simBuildSuccess(d.msg.txid, other.pub, s.peer.pwd, true).Raw)
				lbl["response-to-other-local-address"] = true
				s.ops = append(s.ops, fmt.Sprintf("answerToOtherLocal(%s via %s)", d, other.name()))
			case "dropRequest":
				reqs := s.agentRequests()
				if len(reqs) == 0 {
					continue
				}
				s.removeInflight(reqs[arg%len(reqs)])
				s.ops = append(s.ops, "dropRequest")
			case "signal":
				i := arg % len(s.eps)
				_ = s.ag.addRemoteSync(s.epCandidate(i, eps[i]))
				s.ops = append(s.ops, fmt.Sprintf("signal(%s %s prio=%d)", s.eps[i].name(), eps[i].Typ, eps[i].Prio))
			}
			if sig, msg := mon.check(fmt.Sprintf("step %d (%s)", i, op)); sig != "" {
				if !st.Fail(rt, sig, "%s\nops: %s", msg, strings.Join(s.ops, "; ")) {
					// known finding: counted; the history ends here (what follows would build on that selection)
					lbl["ended-at-known-finding"] = true

					break
				}
			}
			if sig, msg := mon.emitInvariant(); sig != "" {
				st.Fail(rt, sig, "%s\nops: %s", msg, strings.Join(s.ops, "; "))
			}
		}
		if s.w.elapsed() > 2*time.Second {
			st.Inconclusive()

			return
		}
		var labels []string
		for l := range lbl {
			labels = append(labels, l)
		}
		labels = append(labels, fmt.Sprintf("selections:%d", min(mon.changes, 3)), fmt.Sprintf("role:controlling=%v,lite=%v", controlling, lite))
		nontrivial := lbl["use-candidate-before-own-check"] || lbl["use-candidate-repeated"] || lbl["use-candidate-while-selected"] || lbl["answer-to-check-of-ended-generation"] || lbl["error-response-to-nomination"]
		desc := fmt.Sprintf("controlling=%v lite=%v checkPrio=%v locals=%v eps=%v ops=%s", controlling, lite, checkPrio, locals, eps, strings.Join(s.ops, "; "))
		st.Record(vfHashStr(desc), nontrivial && mon.changes > 0, labels...)
		if nontrivial && mon.changes > 0 && st.WantSample() {
			st.Sample(func() string { return desc })
		}
	})
}

// Duo histories (the C01 schedule space) under the same monitor, both agents.
func TestVerif_C03_DuoHistories(t *testing.T) {
	st := vfNewStats(t)
	gen := duoCaseGen(1, true)
	rapid.Check(t, func(rt *rapid.T) {
		c := gen.Draw(rt, "case")
		nOps := rapid.IntRange(0, 50).Draw(rt, "nOps")
		ops := rapid.SliceOfN(duoOpGen(), nOps, nOps).Draw(rt, "ops")
		d, err := newDuoSim(c, nil)
		if err != nil {
			rt.Fatalf("harness: %v", err)
		}
		defer d.close()
		if err := d.addLocals(); err != nil {
			rt.Fatalf("harness: %v", err)
		}
		if err := d.startBoth(); err != nil {
			rt.Fatalf("harness: %v", err)
		}
		var mons [2]*selMonitor
		for side := 0; side < 2; side++ {
			peer := d.ag[1-side]
			mons[side] = &selMonitor{w: d.w, ag: d.ag[side], peerCred: func() (string, string) { return peer.ufrag, peer.pwd }}
		}
		checkAll := func(where string) {
			for side := 0; side < 2; side++ {
				if sig, msg := mons[side].check(where); sig != "" {
					st.Fail(rt, sig, "%s\ncase: %s\nops: %s", msg, c, strings.Join(d.ops, "; "))
				}
			}
		}
		budget := int(c.MaxBinding) - 1
		for i, op := range ops {
			d.applyOp(op, budget)
			checkAll(fmt.Sprintf("prefix op %d", i))
		}
		d.signalAll()
		d.fairSuffix(12, checkAll)
		for side := 0; side < 2; side++ {
			if sig, msg := mons[side].emitInvariant(); sig != "" {
				st.Fail(rt, sig, "%s\ncase: %s", msg, c)
			}
		}
		if d.w.elapsed() > 2*time.Second {
			st.Inconclusive()

			return
		}
		sel := mons[0].changes + mons[1].changes
		st.Record(vfHashStr(c.String()+strings.Join(d.ops, ";")), sel > 0 && (d.lbl["stun-dropped"] || d.lbl["stun-duplicated"] || d.lbl["reordered"]), fmt.Sprintf("selections:%d", min(sel, 4)))
		if sel > 0 && st.WantSample() {
			st.Sample(func() string { return fmt.Sprintf("%s | %d ops | final %s", c, len(d.ops), d.snapshotSel()) })
		}
	})
}

// c03ParkedInRun counts goroutines parked in taskloop.Run on behalf of fn (a substring of a frame).
func c03ParkedInRun(fn string) int {
	buf := make([]byte, 1<<20)
	n := runtime.Stack(buf, true)
	c := 0
	for _, g := range strings.Split(string(buf[:n]), "\n\n") {
		if strings.Contains(g, "taskloop.(*Loop).Run(") && strings.Contains(g, fn) && strings.Contains(g, "[select") {
			c++
		}
	}

	return c
}

// TestVerif_C03_RenominateVsRoleSwitch: application calls to RenominateCandidate queued behind / in front of
// an inbound role-conflicting check (the checker owns the order: the task loop is held busy while the
// participants queue up one by one, then released).  Whatever the order, a request carrying USE-CANDIDATE or
// a nomination value is never emitted while the agent is controlled.
func TestVerif_C03_RenominateVsRoleSwitch(t *testing.T) {
	st := vfNewStats(t)
	rapid.Check(t, func(rt *rapid.T) {
		ties := c05TiePair().Draw(rt, "ties")
		T, Tp := ties[0], ties[1]
		conflictRole := rapid.SampledFrom([]string{"controlling", "controlling", "controlling", "controlled"}).Draw(rt, "peerRoleAttr")
		nRenom := rapid.IntRange(1, 3).Draw(rt, "renominateCalls")
		conflictAt := rapid.IntRange(0, nRenom).Draw(rt, "conflictPosition")
		cfg := simAgentConfig{controlling: true, maxBinding: 7, disconnected: time.Hour, keepalive: 2 * time.Second, explicitTimeout: true, renomination: true}
		s, err := newSoloSim(cfg, []duoSockSpec{{Kind: simKindHost}, {Kind: simKindHost}}, []soloEpSpec{{Typ: CandidateTypeHost}, {Typ: CandidateTypeHost}})
		if err != nil {
			rt.Fatalf("harness: %v", err)
		}
		defer s.close()
		a := s.ag.a
		_ = a.loop.Run(a.loop, func(context.Context) { a.tieBreaker = T })
		if err := s.ag.start(s.peer.ufrag, s.peer.pwd); err != nil {
			rt.Fatalf("harness: %v", err)
		}
		_ = s.ag.addRemoteSync(s.epCandidate(0, soloEpSpec{Typ: CandidateTypeHost}))
		_ = s.ag.addRemoteSync(s.epCandidate(1, soloEpSpec{Typ: CandidateTypeHost}))
		for round := 0; round < 3 && s.ag.selectedPair() == nil; round++ {
			s.ag.tick()
			for _, d := range s.agentRequests() {
				s.removeInflight(d)
				if ep := s.epByAddr(d.dst); ep != nil {
					s.answer(d, ep)
				}
			}
		}
		if s.ag.selectedPair() == nil {
			rt.Fatalf("harness: no selected pair after the handshake")
		}
		var pairs []*CandidatePair
		_ = a.loop.Run(a.loop, func(context.Context) {
			for _, p := range a.checklist {
				if p.state == CandidatePairStateSucceeded {
					pairs = append(pairs, p)
				}
			}
		})
		if len(pairs) == 0 {
			rt.Fatalf("harness: no succeeded pair")
		}
		s.w.mu.Lock()
		s.w.inflight = nil
		s.w.mu.Unlock()
		from := s.w.logLen()
		// hold the loop
		entered, release := make(chan struct{}), make(chan struct{})
		go func() { _ = a.loop.Run(a.loop, func(context.Context) { close(entered); <-release }) }()
		<-entered
		type result struct {
			pair *CandidatePair
			err  error
		}
		results := make([]result, nRenom)
		var wg sync.WaitGroup
		var order []string
		park := func(fn string, want int) {
			for d := time.Now().Add(20 * time.Second); c03ParkedInRun(fn) < want; {
				if time.Now().After(d) {
					close(release)
					st.Inconclusive()
					rt.Fatalf("VERIF-INCONCLUSIVE: participant %s did not reach the task loop", fn)
				}
				runtime.Gosched()
			}
		}
		queueConflict := func() {
			wg.Add(1)
			go func() {
				defer wg.Done()
				s.peerRequest(s.eps[0], s.ag.socks[0], false, nil, 1234, conflictRole, Tp)
			}()
			park("handleInboundPacket", 1)
			order = append(order, fmt.Sprintf("check(ICE-%s tie %d vs own %d)", strings.ToUpper(conflictRole), Tp, T))
		}
		for i := 0; i < nRenom; i++ {
			if i == conflictAt {
				queueConflict()
			}
			p := pairs[rapid.IntRange(0, len(pairs)-1).Draw(rt, "pair")]
			results[i].pair = p
			wg.Add(1)
			go func(i int) {
				defer wg.Done()
				results[i].err = a.RenominateCandidate(p.Local, p.Remote)
			}(i)
			park("RenominateCandidate", i+1)
			order = append(order, "RenominateCandidate("+pairKey(p)+")")
		}
		if conflictAt == nRenom {
			queueConflict()
		}
		close(release)
		doneCh := make(chan struct{})
		go func() { wg.Wait(); close(doneCh) }()
		select {
		case <-doneCh:
		case <-time.After(20 * time.Second):
			dead, dump := vfStuck("pion/ice/v4")
			if dead {
				st.Fail(rt, "C03/renominate/never-returns", "queued calls never returned\n%s", dump)
			}
			st.Inconclusive()
			rt.Fatalf("VERIF-INCONCLUSIVE: queued calls still running after 20 s")
		}
		s.w.settle()
		finalControlling := a.isControlling.Load()
		desc := fmt.Sprintf("queued: %s | final role controlling=%v", strings.Join(order, "; "), finalControlling)
		sentWhileControlled, nominations := 0, 0
		s.w.mu.Lock()
		log := append([]simEvent{}, s.w.log[from:]...)
		s.w.mu.Unlock()
		for _, e := range log {
			if e.kind != "emit" || e.side != 0 || e.d.msg == nil || e.d.msg.class != stun.ClassRequest {
				continue
			}
			if e.d.msg.useCand || e.d.msg.nomination != nil {
				nominations++
				if !e.d.srcControlling {
					sentWhileControlled++
					st.Fail(rt, "C03/controlled/sent-use-candidate", "agent emitted %s while it was controlled\n%s", e.d, desc)
				}
			}
		}
		okCalls := 0
		for i, r := range results {
			switch {
			case r.err == nil:
				okCalls++
			case errors.Is(r.err, ErrOnlyControllingAgentCanRenominate):
				if finalControlling {
					st.Fail(rt, "C03/renominate/refused-while-controlling", "call %d refused with %v although the agent never left the controlling role\n%s", i, r.err, desc)
				}
			default:
				st.Fail(rt, "C03/renominate/unexpected-error", "call %d: %v\n%s", i, r.err, desc)
			}
		}
		if okCalls > nominations {
			st.Fail(rt, "C03/renominate/accepted-but-nothing-sent", "%d calls returned nil but only %d nomination requests were emitted\n%s", okCalls, nominations, desc)
		}
		lost := !finalControlling
		behind := lost && conflictAt < nRenom
		st.Record(vfHashStr(desc), behind, fmt.Sprintf("role-lost:%v", lost), fmt.Sprintf("renominate-queued-behind-lost-conflict:%v", behind))
		if behind && st.WantSample() {
			st.Sample(func() string { return desc })
		}
	})
}
