//go:build verif

package ice

// C01 — two agents converge on the same, working candidate pair (SimNet duo, hook H1).

import (
	"fmt"
	"strings"
	"testing"
	"time"

	"github.com/pion/stun/v3"
	"pgregory.net/rapid"
)

type duoSockSpec struct {
	V6   bool
	Kind int
}

type duoCase struct {
	Socks       [2][]duoSockSpec
	LinkDown    [][2]string // directed links that are down (src name, dst name)
	Controlling int         // side that controls
	Lite        bool        // controlled side is lite
	MaxBinding  uint16
	ReusePorts  bool
	NoSignal    map[string]bool // sockets whose candidate is never signalled
	StartOrder  int
	Renom       bool
}

func (c duoCase) String() string {
	var sb strings.Builder
	for side := 0; side < 2; side++ {
		fmt.Fprintf(&sb, "%c:[", 'A'+side)
		for i, s := range c.Socks[side] {
			fam := "v4"
			if s.V6 {
				fam = "v6"
			}
			kind := []string{"host", "nat-host", "srflx", "relay"}[s.Kind]
			ns := ""
			if c.NoSignal[fmt.Sprintf("%c%d", 'A'+side, i)] {
				ns = "(unsignalled)"
			}
			fmt.Fprintf(&sb, "%s/%s%s ", fam, kind, ns)
		}
		sb.WriteString("] ")
	}
	fmt.Fprintf(&sb, "down=%v controlling=%c lite=%v maxBinding=%d reusePorts=%v", c.LinkDown, 'A'+c.Controlling, c.Lite, c.MaxBinding, c.ReusePorts)

	return sb.String()
}

func duoCaseGen(minSocks int, allowLite bool) *rapid.Generator[duoCase] {
	return rapid.Custom(func(t *rapid.T) duoCase {
		c := duoCase{NoSignal: map[string]bool{}}
		v6Mix := rapid.IntRange(0, 3).Draw(t, "v6mix") // 0: all v4, 1: mix, 2: all v6, 3: mix
		for side := 0; side < 2; side++ {
			n := rapid.IntRange(minSocks, 4).Draw(t, "nSocks")
			for i := 0; i < n; i++ {
				spec := duoSockSpec{}
				switch v6Mix {
				case 0:
				case 2:
					spec.V6 = true
				default:
					spec.V6 = rapid.Bool().Draw(t, "v6")
				}
				spec.Kind = rapid.SampledFrom([]int{simKindHost, simKindHost, simKindNATHost, simKindSrflx, simKindRelayish}).Draw(t, "kind")
				c.Socks[side] = append(c.Socks[side], spec)
			}
		}
		c.Controlling = rapid.IntRange(0, 1).Draw(t, "controlling")
		if allowLite {
			c.Lite = rapid.IntRange(0, 4).Draw(t, "lite") == 3
		}
		if c.Lite {
			// lite agents may only have host candidates (enforced by the constructor)
			ctd := 1 - c.Controlling
			for i := range c.Socks[ctd] {
				if c.Socks[ctd][i].Kind == simKindSrflx || c.Socks[ctd][i].Kind == simKindRelayish {
					c.Socks[ctd][i].Kind = simKindHost
				}
			}
		}
		// links: each directed link is down with a drawn density; one-way links arise naturally
		density := rapid.SampledFrom([]int{0, 10, 25, 45, 70, 100}).Draw(t, "downPercent")
		for side := 0; side < 2; side++ {
			for i := range c.Socks[side] {
				for j := range c.Socks[1-side] {
					if rapid.IntRange(1, 100).Draw(t, "link") <= density {
						c.LinkDown = append(c.LinkDown, [2]string{fmt.Sprintf("%c%d", 'A'+side, i), fmt.Sprintf("%c%d", 'A'+1-side, j)})
					}
				}
			}
		}
		for side := 0; side < 2; side++ {
			for i := range c.Socks[side] {
				if rapid.IntRange(0, 5).Draw(t, "nosignal") == 4 {
					c.NoSignal[fmt.Sprintf("%c%d", 'A'+side, i)] = true
				}
			}
		}
		c.MaxBinding = uint16(rapid.IntRange(3, 9).Draw(t, "maxBinding")) //nolint:gosec
		if rapid.IntRange(0, 7).Draw(t, "hugeBudget") == 0 {
			// the ends of the option's range: a budget that is never exhausted within a case
			c.MaxBinding = rapid.SampledFrom([]uint16{65535, 65534, 32768, 256, 255}).Draw(t, "maxBindingBoundary")
		}
		c.ReusePorts = rapid.Bool().Draw(t, "reusePorts")
		c.StartOrder = rapid.IntRange(0, 1).Draw(t, "startOrder")

		return c
	})
}

type duoSim struct {
	delivered []*simDgram // STUN datagrams already delivered once (candidates for a late duplicate)
	w     *simWorld
	c     duoCase
	ag    [2]*simAgent
	ticks [2]int // ticks used in the current generation's lossy prefix
	lbl   map[string]bool
	ops   []string
}

func newDuoSim(c duoCase, cfgMod func(side int, cfg *simAgentConfig)) (*duoSim, error) {
	w := newSimWorld()
	for _, l := range c.LinkDown {
		w.link[l] = false
	}
	d := &duoSim{w: w, c: c, lbl: map[string]bool{}}
	for side := 0; side < 2; side++ {
		cfg := simAgentConfig{
			controlling: side == c.Controlling, lite: c.Lite && side != c.Controlling, maxBinding: c.MaxBinding,
			disconnected: time.Hour, failed: 0, keepalive: 2 * time.Second, explicitTimeout: true, renomination: c.Renom,
		}
		if cfgMod != nil {
			cfgMod(side, &cfg)
		}
		ag, err := w.newAgent(side, cfg)
		if err != nil {
			return nil, err
		}
		d.ag[side] = ag
	}

	return d, nil
}

func (d *duoSim) close() {
	for _, ag := range d.ag {
		if ag != nil {
			ag.close()
		}
	}
}

func (d *duoSim) addLocals() error {
	for side := 0; side < 2; side++ {
		for i, s := range d.c.Socks[side] {
			if _, err := d.ag[side].addLocal(i, s.V6, s.Kind, d.c.ReusePorts); err != nil {
				return err
			}
		}
	}

	return nil
}

func (d *duoSim) startBoth() error {
	order := []int{0, 1}
	if d.c.StartOrder == 1 {
		order = []int{1, 0}
	}
	for _, side := range order {
		peer := d.ag[1-side]
		if err := d.ag[side].start(peer.ufrag, peer.pwd); err != nil {
			return err
		}
	}

	return nil
}

// signalNext signals the next not-yet-signalled (and signallable) candidate of side to the peer.
func (d *duoSim) signalNext(side int, dupOK bool, pick int) bool {
	ag := d.ag[side]
	var pending, done []*simSock
	for _, s := range ag.socks {
		if d.c.NoSignal[s.name()] {
			continue
		}
		if ag.signalled[s.idx] {
			done = append(done, s)
		} else {
			pending = append(pending, s)
		}
	}
	if dupOK && len(done) > 0 && pick%4 == 3 {
		_ = ag.signalTo(d.ag[1-side], done[pick%len(done)])
		d.lbl["duplicate-signal"] = true

		return true
	}
	if len(pending) == 0 {
		return false
	}
	_ = ag.signalTo(d.ag[1-side], pending[pick%len(pending)])

	return true
}

func (d *duoSim) signalAll() {
	for side := 0; side < 2; side++ {
		for d.signalNext(side, false, 0) {
		}
	}
}

// deliverAll delivers every in-flight datagram (and everything emitted in reaction), FIFO.
func (d *duoSim) deliverAll() {
	for i := 0; i < 5000; i++ {
		dg := d.w.take(0)
		if dg == nil {
			return
		}
		d.w.deliver(dg)
	}
}

// works is the reachability reference: sockets a (side A) and b (side B) form a pair usable in both directions.
func (d *duoSim) reach() (works [][2]*simSock) {
	a, b := d.ag[0], d.ag[1]
	known := [2]map[*simSock]bool{{}, {}} // known[0]: B sockets whose public address A knows; known[1]: A sockets B knows
	sigPub := func(s *simSock) bool {
		// the candidate advertises the routable public address?
		return !d.c.NoSignal[s.name()] && s.kind != simKindNATHost
	}
	for _, s := range b.socks {
		if sigPub(s) {
			known[0][s] = true
		}
	}
	for _, s := range a.socks {
		if sigPub(s) {
			known[1][s] = true
		}
	}
	fam := func(x, y *simSock) bool { return x.priv.Addr().Is4() == y.priv.Addr().Is4() }
	full := [2]bool{!a.lite, !b.lite}
	for changed := true; changed; {
		changed = false
		// a full agent X sends from each local x to every known peer socket y; if the link x→y is up the peer learns pub(x)
		for _, x := range a.socks {
			for y := range known[0] {
				if full[0] && fam(x, y) && d.w.linkUp(x, y) && !known[1][x] {
					known[1][x] = true
					changed = true
				}
			}
		}
		for _, x := range b.socks {
			for y := range known[1] {
				if full[1] && fam(x, y) && d.w.linkUp(x, y) && !known[0][x] {
					known[0][x] = true
					changed = true
				}
			}
		}
	}
	for _, x := range a.socks {
		for _, y := range b.socks {
			if !fam(x, y) || !d.w.linkUp(x, y) || !d.w.linkUp(y, x) {
				continue
			}
			// somebody must originate a check on this pair: A (full, knows y) or B (full, knows x)
			if (full[0] && known[0][y]) || (full[1] && known[1][x]) {
				works = append(works, [2]*simSock{x, y})
			}
		}
	}

	return works
}

type duoOp struct {
	Kind int // 0 tickA 1 tickB 2 deliver 3 drop 4 dup 5 trickleA 6 trickleB 7 deliver-newest
	Arg  int
}

var duoOpNames = []string{"tickA", "tickB", "deliver", "drop", "dup", "trickleA", "trickleB", "deliverLast", "replay"}

func (d *duoSim) applyOp(op duoOp, budget int) {
	switch op.Kind {
	case 0, 1:
		side := op.Kind
		if d.ticks[side] >= budget {
			return
		}
		d.ticks[side]++
		d.ag[side].tick()
		d.ops = append(d.ops, duoOpNames[op.Kind])
	case 2, 7:
		n := d.w.inflightLen()
		if n == 0 {
			return
		}
		i := op.Arg % n
		if op.Kind == 7 {
			i = n - 1
		}
		if i != 0 {
			d.lbl["reordered"] = true
		}
		dg := d.w.take(i)
		res := d.w.deliver(dg)
		if res == "deliver" && dg.msg != nil {
			d.delivered = append(d.delivered, dg)
			if len(d.delivered) > 24 {
				d.delivered = d.delivered[1:]
			}
		}
		d.ops = append(d.ops, fmt.Sprintf("deliver(%s)=%s", dg, res))
	case 8:
		// a late duplicate of a datagram that was already delivered once
		if len(d.delivered) == 0 {
			return
		}
		dg := d.delivered[op.Arg%len(d.delivered)]
		cp := *dg
		cp.dup = true
		d.w.mu.Lock()
		d.w.nextID++
		cp.id = d.w.nextID
		d.w.mu.Unlock()
		res := d.w.deliver(&cp)
		d.lbl["stun-duplicated"] = true
		d.lbl["late-duplicate"] = true
		d.ops = append(d.ops, fmt.Sprintf("replay(%s)=%s", dg, res))
	case 3:
		dg := d.w.take(op.Arg)
		if dg == nil {
			return
		}
		if dg.msg != nil {
			d.lbl["stun-dropped"] = true
		}
		d.w.logEvent(simEvent{kind: "drop", side: dg.src.side, d: dg})
		d.ops = append(d.ops, fmt.Sprintf("drop(%s)", dg))
	case 4:
		dg := d.w.peek(op.Arg)
		if dg == nil {
			return
		}
		cp := *dg
		cp.dup = true
		d.w.mu.Lock()
		d.w.nextID++
		cp.id = d.w.nextID
		d.w.inflight = append(d.w.inflight, &cp)
		d.w.mu.Unlock()
		if dg.msg != nil {
			d.lbl["stun-duplicated"] = true
		}
		d.ops = append(d.ops, fmt.Sprintf("dup(%s)", dg))
	case 5, 6:
		if d.signalNext(op.Kind-5, true, op.Arg) {
			d.ops = append(d.ops, duoOpNames[op.Kind])
		}
	}
}

func duoOpGen() *rapid.Generator[duoOp] {
	return rapid.Custom(func(t *rapid.T) duoOp {
		return duoOp{
			Kind: rapid.SampledFrom([]int{0, 1, 2, 2, 2, 2, 7, 3, 4, 5, 6, 8, 8}).Draw(t, "op"),
			Arg:  rapid.IntRange(0, 15).Draw(t, "arg"),
		}
	})
}

// sessionRestart restarts both agents (order and interleaving with traffic drawn), then re-creates the
// local candidates and re-signals credentials.
func (d *duoSim) sessionRestart(first int, between []duoOp) error {
	if err := d.ag[first].restart(); err != nil {
		return err
	}
	for _, op := range between {
		if op.Kind == 2 || op.Kind == 3 || op.Kind == 4 || op.Kind == 7 || op.Kind == 8 {
			d.applyOp(op, 0)
		}
	}
	if err := d.ag[1-first].restart(); err != nil {
		return err
	}
	d.ticks = [2]int{}
	if err := d.addLocals(); err != nil {
		return err
	}
	for side := 0; side < 2; side++ {
		peer := d.ag[1-side]
		if err := d.ag[side].a.SetRemoteCredentials(peer.ufrag, peer.pwd); err != nil {
			return err
		}
	}
	d.lbl["restart"] = true
	d.ops = append(d.ops, fmt.Sprintf("sessionRestart(first=%c)", 'A'+first))

	return nil
}

// fairSuffix runs loss-free rounds until both sides are stable or maxRounds is reached; after every step
// the invariant check inv (if any) runs.
func (d *duoSim) fairSuffix(maxRounds int, inv func(where string)) int {
	stable := 0
	for r := 0; r < maxRounds; r++ {
		before := d.snapshotSel()
		for side := 0; side < 2; side++ {
			d.ag[side].tick()
			if inv != nil {
				inv(fmt.Sprintf("suffix round %d tick %c", r, 'A'+side))
			}
			d.deliverAll()
			if inv != nil {
				inv(fmt.Sprintf("suffix round %d deliver after %c", r, 'A'+side))
			}
		}
		after := d.snapshotSel()
		if before == after && d.ag[0].selectedPair() != nil && d.ag[1].selectedPair() != nil {
			stable++
			if stable >= 2 {
				return r + 1
			}
		} else {
			stable = 0
		}
	}

	return maxRounds
}

func (d *duoSim) snapshotSel() string {
	out := ""
	for side := 0; side < 2; side++ {
		if p := d.ag[side].selectedPair(); p != nil {
			out += fmt.Sprintf("%s:%d-%s:%d|", p.Local.Address(), p.Local.Port(), p.Remote.Address(), p.Remote.Port())
		} else {
			out += "nil|"
		}
		out += d.ag[side].state().String() + ";"
	}

	return out
}

// mirrorCheck verifies oracle (i): both connected, selected pairs are mirror images through the address
// table and the two sockets work in both directions. Returns "" or a description.
func (d *duoSim) mirrorCheck() (sig, msg string) {
	var sel [2]*CandidatePair
	for side := 0; side < 2; side++ {
		st := d.ag[side].state()
		sel[side] = d.ag[side].selectedPair()
		if st != ConnectionStateConnected || sel[side] == nil {
			return "C01/converge/not-connected", fmt.Sprintf("agent %c: state=%s selected=%v although a pair works in both directions", 'A'+side, st, sel[side])
		}
	}
	sa := d.ag[0].sockByLocal(sel[0].Local)
	sb := d.ag[1].sockByLocal(sel[1].Local)
	if sa == nil || sb == nil {
		return "C01/converge/selected-local-unknown", fmt.Sprintf("selected local candidate not one of the harness sockets: %v / %v", sel[0].Local, sel[1].Local)
	}
	ra := d.w.route(sa, sel[0].Remote.addrPort()) // socket of B that A's selected remote address reaches
	rb := d.w.route(sb, sel[1].Remote.addrPort())
	if ra != sb || rb != sa {
		return "C01/converge/not-mirror-images", fmt.Sprintf("A selected %s→%s (reaches %v), B selected %s→%s (reaches %v)",
			sa.name(), sel[0].Remote.addrPort(), sockName(ra), sb.name(), sel[1].Remote.addrPort(), sockName(rb))
	}
	if !d.w.linkUp(sa, sb) || !d.w.linkUp(sb, sa) {
		return "C01/converge/selected-pair-not-working", fmt.Sprintf("selected %s<->%s but link matrix says it does not work both ways", sa.name(), sb.name())
	}

	return "", ""
}

func sockName(s *simSock) string {
	if s == nil {
		return "nobody"
	}

	return s.name()
}

func TestVerif_C01_Converge(t *testing.T) {
	st := vfNewStats(t)
	gen := duoCaseGen(1, true)
	rapid.Check(t, func(rt *rapid.T) {
		c := gen.Draw(rt, "case")
		nOps := rapid.IntRange(0, 60).Draw(rt, "nOps")
		ops := rapid.SliceOfN(duoOpGen(), nOps, nOps).Draw(rt, "ops")
		restartAt := -1
		if rapid.IntRange(0, 3).Draw(rt, "withRestart") == 0 && nOps > 0 {
			restartAt = rapid.IntRange(0, nOps-1).Draw(rt, "restartAt")
		}
		restartFirst := rapid.IntRange(0, 1).Draw(rt, "restartFirst")
		between := rapid.SliceOfN(duoOpGen(), 0, 4).Draw(rt, "between")

		d, err := newDuoSim(c, nil)
		if err != nil {
			rt.Fatalf("harness: %v", err)
		}
		defer d.close()
		if err := d.addLocals(); err != nil {
			rt.Fatalf("harness: addLocals: %v", err)
		}
		if err := d.startBoth(); err != nil {
			rt.Fatalf("harness: start: %v", err)
		}
		budget := int(c.MaxBinding) - 1
		everSelected := [2]bool{}
		noteSel := func() {
			for side := 0; side < 2; side++ {
				if d.ag[side].selectedPair() != nil {
					everSelected[side] = true
				}
			}
		}
		// oracle (ii) is checked continuously: while no pair works in both directions nobody may connect.
		// (reach() depends only on the static topology of the current generation.)
		checkNever := func(where string) {
			if len(d.ag[0].socks) == 0 || len(d.ag[1].socks) == 0 {
				return
			}
			if len(d.reach()) > 0 {
				return
			}
			for side := 0; side < 2; side++ {
				if p := d.ag[side].selectedPair(); p != nil {
					st.Fail(rt, "C01/unreachable/selected", "%s: agent %c selected %s although no pair is reachable in both directions\ncase: %s\nops: %s",
						where, 'A'+side, p, c, strings.Join(d.ops, "; "))
				}
				if s := d.ag[side].state(); s == ConnectionStateConnected {
					st.Fail(rt, "C01/unreachable/connected", "%s: agent %c reports Connected although no pair is reachable\ncase: %s\nops: %s",
						where, 'A'+side, c, strings.Join(d.ops, "; "))
				}
			}
		}
		for i, op := range ops {
			if i == restartAt {
				if err := d.sessionRestart(restartFirst, between); err != nil {
					rt.Fatalf("harness: restart: %v", err)
				}
			}
			d.applyOp(op, budget)
			noteSel()
			checkNever(fmt.Sprintf("prefix op %d", i))
		}
		d.signalAll()
		rounds := d.fairSuffix(40, checkNever)
		if d.w.elapsed() > 2*time.Second {
			st.Inconclusive()

			return // 4 s transaction expiry could interfere: discard, counted
		}
		works := d.reach()
		// labels and non-triviality
		multi := len(c.Socks[0]) >= 2 || len(c.Socks[1]) >= 2
		oneWay := false
		down := map[[2]string]bool{}
		for _, l := range c.LinkDown {
			down[l] = true
		}
		for _, l := range c.LinkDown {
			if !down[[2]string{l[1], l[0]}] {
				oneWay = true
			}
		}
		prflx := false
		for side := 0; side < 2; side++ {
			rc, _ := d.ag[side].a.GetRemoteCandidates()
			for _, r := range rc {
				if r.Type() == CandidateTypePeerReflexive {
					prflx = true
				}
			}
		}
		if oneWay {
			d.lbl["one-way-link"] = true
		}
		if prflx {
			d.lbl["prflx-discovered"] = true
		}
		if len(works) > 0 {
			d.lbl["reachable"] = true
		} else {
			d.lbl["unreachable"] = true
		}
		if c.Lite {
			d.lbl["lite"] = true
		}
		if rounds >= 40 {
			d.lbl["suffix-hit-bound"] = true
		}
		var labels []string
		for l := range d.lbl {
			labels = append(labels, l)
		}
		nontrivial := multi && (d.lbl["stun-dropped"] || d.lbl["stun-duplicated"] || d.lbl["reordered"] || oneWay || prflx || d.lbl["restart"])
		st.Record(vfHashStr(c.String()+strings.Join(d.ops, ";")), nontrivial, labels...)
		if nontrivial && st.WantSample() {
			st.Sample(func() string {
				o := d.ops
				if len(o) > 25 {
					o = o[:25]
				}

				return fmt.Sprintf("%s | ops(first 25 of %d): %s | works=%d rounds=%d final=%s", c, len(d.ops), strings.Join(o, "; "), len(works), rounds, d.snapshotSel())
			})
		}
		if len(works) == 0 {
			checkNever("end")

			return
		}
		if sig, msg := d.mirrorCheck(); sig != "" {
			wn := []string{}
			for _, p := range works {
				wn = append(wn, p[0].name()+"<->"+p[1].name())
			}
			st.Fail(rt, sig, "%s\nworking pairs: %v\ncase: %s\nops: %s\nfinal: %s", msg, wn, c, strings.Join(d.ops, "; "), d.snapshotSel())
		}
	})
}

// TestVerif_C01_LatencyLoss drives the two agents over a network with per-direction latency (measured in
// check intervals), per-message jitter and a lossy phase that may outlast the whole retry budget.  One
// request per side on one working pair (the k-th, k within the budget) and the answers to those requests
// are exempt from loss — that is the "finite loss within the retry budget" of the property: everything else
// may be lost or late.  Oracle: reachability reference as in TestVerif_C01_Converge.
func TestVerif_C01_LatencyLoss(t *testing.T) {
	st := vfNewStats(t)
	gen := duoCaseGen(1, true)
	rapid.Check(t, func(rt *rapid.T) {
		c := gen.Draw(rt, "case")
		lat := [2]int{rapid.IntRange(0, 3).Draw(rt, "latencyFromA"), rapid.IntRange(0, 3).Draw(rt, "latencyFromB")}
		jitter := rapid.SliceOfN(rapid.SampledFrom([]int{0, 0, 0, 1, 2}), 32, 32).Draw(rt, "jitter")
		lossPct := rapid.SampledFrom([]int{0, 20, 50, 80, 100}).Draw(rt, "lossPercent")
		lossDice := rapid.SliceOfN(rapid.IntRange(0, 99), 64, 64).Draw(rt, "lossDice")
		lossClass := rapid.SampledFrom([]string{"all", "all", "requests", "responses", "use-candidate", "plain-requests"}).Draw(rt, "lossClass")
		if c.MaxBinding > 9 {
			c.MaxBinding = 9 // (this test walks through the whole budget; the huge budgets are left to C01_Converge)
		}
		maxSteps := 2 * (int(c.MaxBinding) + 3)
		nSteps := maxSteps
		if !rapid.Bool().Draw(rt, "lossOutlastsBudget") {
			nSteps = rapid.IntRange(0, maxSteps).Draw(rt, "lossySteps")
		}
		protK := [2]int{rapid.IntRange(0, int(c.MaxBinding)).Draw(rt, "protectedRequestA"), rapid.IntRange(0, int(c.MaxBinding)).Draw(rt, "protectedRequestB")}
		protPick := rapid.IntRange(0, 15).Draw(rt, "protectedPair")

		d, err := newDuoSim(c, nil)
		if err != nil {
			rt.Fatalf("harness: %v", err)
		}
		defer d.close()
		if err := d.addLocals(); err != nil {
			rt.Fatalf("harness: addLocals: %v", err)
		}
		if err := d.startBoth(); err != nil {
			rt.Fatalf("harness: start: %v", err)
		}
		// signalling: up front, except for sockets whose candidate trickles in at a drawn step of the lossy phase
		// (the peer may meanwhile learn the address as peer-reflexive and be superseded later)
		lateAt := map[*simSock]int{}
		for side := 0; side < 2; side++ {
			for _, sk := range d.ag[side].socks {
				if c.NoSignal[sk.name()] {
					continue
				}
				if rapid.IntRange(0, 3).Draw(rt, "signalLate") == 0 {
					lateAt[sk] = rapid.IntRange(0, maxSteps).Draw(rt, "signalAtStep")
					d.lbl["late-signalling"] = true
				} else {
					_ = d.ag[side].signalTo(d.ag[1-side], sk)
				}
			}
		}
		signalDue := func(step int, all bool) {
			for side := 0; side < 2; side++ {
				for _, sk := range d.ag[side].socks {
					if at, ok := lateAt[sk]; ok && (all || at <= step) {
						delete(lateAt, sk)
						_ = d.ag[side].signalTo(d.ag[1-side], sk)
						d.ops = append(d.ops, fmt.Sprintf("s%d signal(%s)", step, sk.name()))
					}
				}
			}
		}
		works := d.reach()
		// the protected pair must be one on which a full agent can originate checks from what was signalled
		// alone (discovery through other pairs would depend on unprotected traffic)
		var direct [][2]*simSock
		for _, p := range works {
			sig := func(s *simSock) bool { return !c.NoSignal[s.name()] && s.kind != simKindNATHost }
			if (!d.ag[0].lite && sig(p[1])) || (!d.ag[1].lite && sig(p[0])) {
				direct = append(direct, p)
			}
		}
		var prot [2]*simSock
		if len(direct) > 0 {
			prot = direct[protPick%len(direct)]
		}
		checkNever := func(where string) {
			if len(works) > 0 {
				return
			}
			for side := 0; side < 2; side++ {
				if p := d.ag[side].selectedPair(); p != nil {
					st.Fail(rt, "C01/unreachable/selected", "%s: agent %c selected %s although no pair is reachable in both directions\ncase: %s\nops: %s",
						where, 'A'+side, p, c, strings.Join(d.ops, "; "))
				}
			}
		}
		type queued struct {
			dg  *simDgram
			due int
		}
		var queue []queued
		step, nMsg := 0, 0
		reqCount := [2]int{}
		protTx := map[[stun.TransactionIDSize]byte]bool{}
		lostSTUN, lateAnswers, protectedSeen := 0, 0, 0
		lossy := true
		// collect moves what the agents have just emitted into the latency queue, deciding loss at send time
		collect := func() {
			for d.w.inflightLen() > 0 {
				dg := d.w.take(0)
				nMsg++
				protected := false
				if dg.msg != nil && prot[0] != nil {
					to := d.w.route(dg.src, dg.dst)
					side := dg.src.side
					if dg.msg.class == stun.ClassRequest && dg.src == prot[side] && to == prot[1-side] {
						if reqCount[side] == protK[side] {
							protected = true
							protTx[dg.msg.txid] = true
							protectedSeen++
						}
						reqCount[side]++
					}
					if dg.msg.class != stun.ClassRequest && protTx[dg.msg.txid] {
						protected = true
					}
				}
				subject := dg.msg != nil
				if subject {
					switch lossClass {
					case "requests":
						subject = dg.msg.class == stun.ClassRequest
					case "responses":
						subject = dg.msg.class != stun.ClassRequest
					case "use-candidate":
						subject = dg.msg.class == stun.ClassRequest && dg.msg.useCand
					case "plain-requests":
						subject = dg.msg.class == stun.ClassRequest && !dg.msg.useCand
					}
				}
				if lossy && subject && !protected && lossDice[nMsg%len(lossDice)] < lossPct {
					lostSTUN++
					d.w.logEvent(simEvent{kind: "drop", side: dg.src.side, d: dg})
					d.ops = append(d.ops, fmt.Sprintf("s%d lose(%s)", step, dg))

					continue
				}
				delay := lat[dg.src.side] + jitter[nMsg%len(jitter)]
				if dg.msg != nil && dg.msg.class != stun.ClassRequest && delay >= 2 {
					lateAnswers++
				}
				queue = append(queue, queued{dg, step + delay})
			}
		}
		deliverDue := func(all bool) {
			for {
				best := -1
				for i, q := range queue {
					if (all || q.due <= step) && (best < 0 || q.due < queue[best].due || (q.due == queue[best].due && q.dg.id < queue[best].dg.id)) {
						best = i
					}
				}
				if best < 0 {
					return
				}
				q := queue[best]
				queue = append(queue[:best], queue[best+1:]...)
				res := d.w.deliver(q.dg)
				d.ops = append(d.ops, fmt.Sprintf("s%d deliver(%s)=%s", step, q.dg, res))
				collect()
				checkNever(fmt.Sprintf("step %d", step))
			}
		}
		for step = 0; step < nSteps; step++ {
			signalDue(step, false)
			side := (step + c.StartOrder) % 2
			d.ag[side].tick()
			d.ops = append(d.ops, fmt.Sprintf("s%d tick%c", step, 'A'+side))
			collect()
			deliverDue(false)
		}
		// the lossy phase is over: latency stays until the queue has drained, then the loss-free suffix runs
		lossy = false
		signalDue(step, true)
		for extra := 0; len(queue) > 0 && extra < 16; extra++ {
			side := (step + c.StartOrder) % 2
			d.ag[side].tick()
			d.ops = append(d.ops, fmt.Sprintf("s%d tick%c", step, 'A'+side))
			collect()
			deliverDue(false)
			step++
		}
		deliverDue(true)
		rounds := d.fairSuffix(40, checkNever)
		if d.w.elapsed() > 2*time.Second {
			st.Inconclusive()

			return
		}
		labels := []string{fmt.Sprintf("loss:%d%%/%s", lossPct, lossClass)}
		if len(works) > 0 {
			labels = append(labels, "reachable")
		} else {
			labels = append(labels, "unreachable")
		}
		if lostSTUN > 0 {
			labels = append(labels, "stun-lost")
		}
		if lateAnswers > 0 {
			labels = append(labels, "answer-later-than-next-check")
		}
		if nSteps == maxSteps {
			labels = append(labels, "loss-outlasts-budget")
		}
		if d.lbl["late-signalling"] {
			labels = append(labels, "late-signalling")
		}
		if len(works) > 0 && prot[0] == nil {
			labels = append(labels, "no-directly-signalled-working-pair")
		}
		if protectedSeen > 0 {
			labels = append(labels, "protected-request-sent")
		}
		nontrivial := len(works) > 0 && (prot[0] != nil || lostSTUN == 0) && (lostSTUN > 0 || lateAnswers > 0)
		st.Record(vfHashStr(c.String()+strings.Join(d.ops, ";")), nontrivial, labels...)
		if nontrivial && st.WantSample() {
			st.Sample(func() string {
				return fmt.Sprintf("%s | latency A→B %d B→A %d steps, loss %d%% of %s for %d steps, protected request #%d/#%d on %s<->%s | lost=%d late answers=%d rounds=%d final=%s",
					c, lat[0], lat[1], lossPct, lossClass, nSteps, protK[0], protK[1], sockName(prot[0]), sockName(prot[1]), lostSTUN, lateAnswers, rounds, d.snapshotSel())
			})
		}
		if len(works) == 0 {
			checkNever("end")

			return
		}
		if prot[0] == nil && lostSTUN > 0 {
			return // no pair whose checks could be exempted from loss: no convergence claim (counted by label)
		}
		if sig, msg := d.mirrorCheck(); sig != "" {
			o := d.ops
			if len(o) > 400 {
				o = o[len(o)-400:]
			}
			st.Fail(rt, sig, "%s\nlatency A→B %d B→A %d steps, loss %d%% of %s for %d steps, protected request #%d (A) #%d (B) on %s<->%s\ncase: %s\nops: %s\nfinal: %s",
				msg, lat[0], lat[1], lossPct, lossClass, nSteps, protK[0], protK[1], sockName(prot[0]), sockName(prot[1]), c, strings.Join(o, "; "), d.snapshotSel())
		}
	})
}

// TestVerif_C01_ControlledLiveness: the controlled agent against a scripted, correctly behaving controlling
// peer that nominates one pair P and — having received the success response to its USE-CANDIDATE — never
// nominates again (it only keeps the pair alive with ordinary checks).  Whatever the order of ordinary checks,
// the nomination, the arrival of the signalled candidate (possibly superseding a peer-reflexive one), answers
// to and losses of the agent's own checks: once P's own check has been answered the agent must have selected P
// and be Connected ("both reach Connected" seen from the controlled side).
func TestVerif_C01_ControlledLiveness(t *testing.T) {
	st := vfNewStats(t)
	rapid.Check(t, func(rt *rapid.T) {
		nLocal := rapid.IntRange(1, 2).Draw(rt, "nLocal")
		lateSignal := rapid.Bool().Draw(rt, "nominatedRemoteSignalledLate")
		locals := []duoSockSpec{{Kind: simKindHost}, {Kind: simKindSrflx}}[:nLocal]
		eps := []soloEpSpec{{Typ: CandidateTypeHost}, {Typ: CandidateTypeRelay}}
		cfg := simAgentConfig{controlling: false, maxBinding: 7, disconnected: time.Hour, keepalive: 2 * time.Second, explicitTimeout: true}
		s, err := newSoloSim(cfg, locals, eps)
		if err != nil {
			rt.Fatalf("harness: %v", err)
		}
		defer s.close()
		if err := s.ag.start(s.peer.ufrag, s.peer.pwd); err != nil {
			rt.Fatalf("harness: %v", err)
		}
		signalled := map[int]bool{}
		signal := func(i int) {
			if !signalled[i] {
				_ = s.ag.addRemoteSync(s.epCandidate(i, eps[i]))
				signalled[i] = true
				s.ops = append(s.ops, fmt.Sprintf("signal(ep%d)", i))
			}
		}
		signal(1)
		if !lateSignal {
			signal(0)
		}
		// P = (local socket pl, endpoint 0)
		pl := s.ag.socks[rapid.IntRange(0, nLocal-1).Draw(rt, "nominatedLocal")]
		nominated, validatedBeforeNomination, supersededBetween := false, false, false
		pValid := false
		nOps := rapid.IntRange(1, 14).Draw(rt, "nOps")
		for i := 0; i < nOps; i++ {
			op := rapid.SampledFrom([]string{"check", "check", "nominate", "signal", "answer", "answer", "drop", "tick"}).Draw(rt, "op")
			s.purgeNonRequests()
			switch op {
			case "check":
				ep := s.eps[rapid.IntRange(0, 1).Draw(rt, "ep")]
				l := s.ag.socks[rapid.IntRange(0, nLocal-1).Draw(rt, "l")]
				s.peerRequest(ep, l, false, nil, 100, "controlling", 77)
				s.ops = append(s.ops, fmt.Sprintf("check(%s→%s)", ep.name(), l.name()))
			case "nominate":
				if !nominated && pValid {
					validatedBeforeNomination = true
				}
				nominated = true
				s.peerRequest(s.eps[0], pl, true, nil, 100, "controlling", 77)
				s.ops = append(s.ops, fmt.Sprintf("nominate(%s→%s)", s.eps[0].name(), pl.name()))
			case "signal":
				if nominated && !pValid && !signalled[0] {
					supersededBetween = true
				}
				signal(0)
			case "answer", "drop":
				reqs := s.agentRequests()
				if len(reqs) == 0 {
					continue
				}
				d := reqs[rapid.IntRange(0, len(reqs)-1).Draw(rt, "which")]
				s.removeInflight(d)
				if ep := s.epByAddr(d.dst); ep != nil && op == "answer" {
					if ep == s.eps[0] && d.src == pl {
						pValid = true
					}
					s.answer(d, ep)
					s.ops = append(s.ops, fmt.Sprintf("answer(%s)", d))
				} else {
					s.ops = append(s.ops, fmt.Sprintf("drop(%s)", d))
				}
			case "tick":
				s.ag.tick()
				s.ops = append(s.ops, "tick")
			}
		}
		if !nominated {
			s.peerRequest(s.eps[0], pl, true, nil, 100, "controlling", 77)
			s.ops = append(s.ops, "nominate(at the end)")
		}
		// from here on the peer is loss-free: it signals what is left, answers every check, keeps P alive with
		// ordinary checks, and does not nominate again
		signal(0)
		for round := 0; round < 10; round++ {
			s.ag.tick()
			for k := 0; k < 20; k++ {
				reqs := s.agentRequests()
				if len(reqs) == 0 {
					break
				}
				for _, d := range reqs {
					s.removeInflight(d)
					if ep := s.epByAddr(d.dst); ep != nil {
						s.answer(d, ep)
					}
				}
			}
			s.peerRequest(s.eps[0], pl, false, nil, 100, "controlling", 77)
			s.purgeNonRequests()
		}
		if s.w.elapsed() > 2*time.Second {
			st.Inconclusive()

			return
		}
		desc := fmt.Sprintf("locals=%d lateSignal=%v P=%s<->%s ops=%s", nLocal, lateSignal, pl.name(), s.eps[0].name(), strings.Join(s.ops, "; "))
		nontrivial := !validatedBeforeNomination
		st.Record(vfHashStr(desc), nontrivial, fmt.Sprintf("nomination-before-validation:%v", !validatedBeforeNomination), fmt.Sprintf("superseded-between-nomination-and-validation:%v", supersededBetween))
		if supersededBetween && st.WantSample() {
			st.Sample(func() string { return desc })
		}
		sel := s.ag.selectedPair()
		want := fmt.Sprintf("%s:%d|%s:%d", pl.pub.Addr(), pl.pub.Port(), s.eps[0].pub.Addr(), s.eps[0].pub.Port())
		if sel == nil || s.ag.state() != ConnectionStateConnected {
			st.Fail(rt, "C01/converge/not-connected", "controlled agent: state=%s selected=%v although the peer nominated %s, got its success response, and every check has been answered since\n%s",
				s.ag.state(), sel, want, desc)
		}
		if got := fmt.Sprintf("%s:%d|%s:%d", sel.Local.Address(), sel.Local.Port(), sel.Remote.Address(), sel.Remote.Port()); got != want && sel.Local.Type() == CandidateTypeHost {
			st.Fail(rt, "C01/converge/not-mirror-images", "controlled agent selected %s, the peer nominated (only) %s\n%s", got, want, desc)
		}
	})
}
