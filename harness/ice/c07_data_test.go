//go:build verif

package ice

// C07 — application data travels only over validated pairs and only from known peers.

import (
	"bytes"
	"encoding/binary"
	"errors"
	"fmt"
	"net"
	"net/netip"
	"strings"
	"testing"
	"time"

	"github.com/pion/stun/v3"
	"pgregory.net/rapid"
)

func c07Payload() *rapid.Generator[[]byte] {
	return rapid.Custom(func(t *rapid.T) []byte {
		n := rapid.OneOf(rapid.SampledFrom([]int{1, 2, 19, 20, 21, 1200, 8191, 8192}), rapid.IntRange(1, 64), rapid.IntRange(1, 8192)).Draw(t, "len")
		b := make([]byte, n)
		seed := rapid.Byte().Draw(t, "seed")
		for i := range b {
			b[i] = byte(i*31) ^ seed
		}
		switch rapid.IntRange(0, 5).Draw(t, "shape") {
		case 0: // STUN-like: first two bits 00 + magic cookie
			if n >= 20 {
				b[0] &= 0x3f
				binary.BigEndian.PutUint16(b[2:], uint16(n-20)) //nolint:gosec
				binary.BigEndian.PutUint32(b[4:], 0x2112A442)
			}
		case 1: // STUN-like with inconsistent length field
			if n >= 20 {
				b[0] = 0
				b[1] = 1
				binary.BigEndian.PutUint16(b[2:], 0xfff0)
				binary.BigEndian.PutUint32(b[4:], 0x2112A442)
			}
		case 2: // near-STUN: cookie off by one bit
			if n >= 20 {
				b[0] = 0
				binary.BigEndian.PutUint32(b[4:], 0x2112A443)
			}
		case 3: // RTP/DTLS-like first byte
			b[0] = rapid.SampledFrom([]byte{0x80, 0x16, 0x17, 0x90}).Draw(t, "first")
		}

		return b
	})
}

func TestVerif_C07_DataSolo(t *testing.T) {
	st := vfNewStats(t)
	rapid.Check(t, func(rt *rapid.T) {
		controlling := rapid.Bool().Draw(rt, "controlling")
		withV6 := rapid.Bool().Draw(rt, "withV6")
		cfg := simAgentConfig{controlling: controlling, maxBinding: 7, disconnected: time.Hour, keepalive: 0, explicitTimeout: true}
		// optionally the application refuses endpoint 2's address (remote IP filter): it can never become a remote
		// candidate, not even a peer-reflexive one, so nothing it sends may reach the reader
		filterEp2 := rapid.IntRange(0, 2).Draw(rt, "remoteIPFilterRejectsEndpoint2") == 0
		if filterEp2 {
			_, rejectedPub := simAddrs(1, 2, 0, false, false, true)
			cfg.remoteIPFilter = func(ip net.IP) bool {
				a, _ := netip.AddrFromSlice(ip)

				return a.Unmap() != rejectedPub.Addr()
			}
		}
		// optionally endpoint 1 is signalled late: until then the agent knows it only as peer-reflexive
		lateSignal := rapid.IntRange(0, 2).Draw(rt, "endpoint1SignalledLate") == 0
		ep1Signalled := !lateSignal
		locals := []duoSockSpec{{Kind: simKindHost}, {Kind: simKindRelayish}}
		eps := []soloEpSpec{{Typ: CandidateTypeHost}, {Typ: CandidateTypeRelay}, {Typ: CandidateTypeHost}}
		if withV6 {
			locals = append(locals, duoSockSpec{V6: true, Kind: simKindHost})
			eps = append(eps, soloEpSpec{V6: true, Typ: CandidateTypeHost})
		}
		s, err := newSoloSim(cfg, locals, eps)
		if err != nil {
			rt.Fatalf("harness: %v", err)
		}
		defer s.close()
		if err := s.ag.start(s.peer.ufrag, s.peer.pwd); err != nil {
			rt.Fatalf("harness: %v", err)
		}
		conn := &Conn{agent: s.ag.a}
		peerRole := "controlled"
		if !controlling {
			peerRole = "controlling"
		}
		signalAll := func() {
			_ = s.ag.addRemoteSync(s.epCandidate(0, eps[0]))
			if ep1Signalled {
				_ = s.ag.addRemoteSync(s.epCandidate(1, eps[1]))
			}
			if withV6 {
				_ = s.ag.addRemoteSync(s.epCandidate(3, eps[3]))
			}
		}
		signalAll() // endpoint 2 stays unknown
		type pk struct{ l, e int }
		valid := map[pk]bool{}
		var (
			expectIn            [][]byte
			sumWrite, sumRead   uint64
			lbl                 = map[string]bool{}
			selKey              string
			selSent, selRecv    uint64 // tallies for the currently selected pair
			selPS, selPR        uint32
			baseBS, baseBR      uint64
			basePS, basePR      uint32
		)
		pairPrio := func(l *simSock, e *simSock) uint64 {
			// reference pair priority from the candidates' own priorities
			var rp uint32
			rc, _ := s.ag.a.GetRemoteCandidates()
			for _, r := range rc {
				if r.addrPort() == e.pub {
					rp = r.Priority()
				}
			}
			g, d := l.cand.Priority(), rp
			if !controlling {
				g, d = d, g
			}

			return c17RefPair(g, d).Uint64()
		}
		resetSelTally := func() {
			selKey = pairKey(s.ag.selectedPair())
			selSent, selRecv, selPS, selPR = 0, 0, 0, 0
			if sp := s.ag.selectedPair(); sp != nil {
				baseBS, baseBR, basePS, basePR = sp.BytesSent(), sp.BytesReceived(), sp.PacketsSent(), sp.PacketsReceived()
			}
		}
		checkSelTally := func(where string) {
			if pairKey(s.ag.selectedPair()) != selKey {
				resetSelTally()
				if selKey != "" {
					lbl["re-selection"] = true
				}

				return
			}
			sp := s.ag.selectedPair()
			if sp == nil {
				return
			}
			stt, ok := s.ag.a.GetSelectedCandidatePairStats()
			if !ok {
				st.Fail(rt, "C07/counters/no-selected-stats", "%s: selected pair exists but GetSelectedCandidatePairStats says none", where)
			}
			if stt.BytesSent-baseBS != selSent || stt.BytesReceived-baseBR != selRecv || stt.PacketsSent-basePS != selPS || stt.PacketsReceived-basePR != selPR {
				st.Fail(rt, "C07/counters/selected-pair", "%s: selected pair counters Δ(sent %d B/%d pkt, received %d B/%d pkt), harness tallies (sent %d/%d, received %d/%d)\nops: %s",
					where, stt.BytesSent-baseBS, stt.PacketsSent-basePS, stt.BytesReceived-baseBR, stt.PacketsReceived-basePR, selSent, selPS, selRecv, selPR, strings.Join(s.ops, "; "))
			}
		}
		drain := func(where string) {
			for s.ag.a.buf.Count() > 0 {
				buf := make([]byte, 9000)
				n, err := conn.Read(buf)
				if err != nil {
					st.Fail(rt, "C07/read/error", "%s: Read: %v", where, err)

					return
				}
				sumRead += uint64(n) //nolint:gosec
				if len(expectIn) == 0 {
					st.Fail(rt, "C07/read/unexpected-datagram", "%s: reader yielded %d bytes (STUN=%v) that no known remote sent\nops: %s", where, n, stun.IsMessage(buf[:n]), strings.Join(s.ops, "; "))

					return
				}
				if !bytes.Equal(buf[:n], expectIn[0]) {
					st.Fail(rt, "C07/read/content", "%s: reader yielded %d bytes, expected datagram of %d bytes", where, n, len(expectIn[0]))
				}
				expectIn = expectIn[1:]
			}
			if len(expectIn) != 0 {
				st.Fail(rt, "C07/read/datagram-lost", "%s: %d accepted datagram(s) never reached the reader\nops: %s", where, len(expectIn), strings.Join(s.ops, "; "))
				expectIn = nil
			}
			if got := conn.BytesReceived(); got != sumRead {
				st.Fail(rt, "C07/counters/conn-bytes-received", "%s: BytesReceived=%d, Σ Read=%d", where, got, sumRead)
			}
		}
		validateOn := func(l, e *simSock, nominate bool) {
			if controlling {
				s.ag.tick()
				for _, d := range s.agentRequests() {
					if ep := s.epByAddr(d.dst); ep == e && d.src == l {
						s.removeInflight(d)
						s.answer(d, ep)
						valid[pk{l.idx, e.idx}] = true
					}
				}
				if nominate {
					s.ag.tick()
					for _, d := range s.agentRequests() {
						if ep := s.epByAddr(d.dst); ep != nil && d.msg.useCand {
							s.removeInflight(d)
							s.answer(d, ep)
							valid[pk{d.src.idx, ep.idx}] = true
						}
					}
				}
			} else {
				s.peerRequest(e, l, nominate, nil, 100, peerRole, 77)
				for _, d := range s.agentRequests() {
					if ep := s.epByAddr(d.dst); ep == e && d.src == l {
						s.removeInflight(d)
						s.answer(d, ep)
						valid[pk{l.idx, e.idx}] = true
					}
				}
			}
			s.purgeNonRequests()
		}
		nOps := rapid.IntRange(1, 30).Draw(rt, "nOps")
		for i := 0; i < nOps; i++ {
			op := rapid.SampledFrom([]string{"validate", "nominate", "write", "write", "writeToPair", "inject", "inject", "inject", "restart", "toggleWriteFault", "checkFromEndpoint2", "signalLate"}).Draw(rt, "op")
			if op == "restart" && rapid.IntRange(0, 2).Draw(rt, "reallyRestart") != 0 {
				op = "write"
			}
			where := fmt.Sprintf("step %d (%s)", i, op)
			if s.w.elapsed() > 2*time.Second {
				break // a stalled case could run into the 4 s transaction expiry: discarded below
			}
			switch op {
			case "validate", "nominate":
				l := s.ag.socks[rapid.IntRange(0, len(s.ag.socks)-1).Draw(rt, "l")]
				e := s.eps[rapid.SampledFrom([]int{0, 1, len(s.eps) - 1}).Draw(rt, "e")]
				if l.priv.Addr().Is4() != e.priv.Addr().Is4() || e.idx == 2 {
					continue
				}
				validateOn(l, e, op == "nominate")
				s.ops = append(s.ops, fmt.Sprintf("%s(%s,%s)", op, l.name(), e.name()))
			case "write":
				p := c07Payload().Draw(rt, "payload")
				from := s.w.logLen()
				n, err := conn.Write(p)
				out := s.w.emittedSince(from, 0)
				isStun := stun.IsMessage(p)
				s.ops = append(s.ops, fmt.Sprintf("write(%d stun=%v)=%d,%v", len(p), isStun, n, err))
				sp := s.ag.selectedPair()
				switch {
				case isStun:
					lbl["stun-like-payload"] = true
					if err == nil || len(out) != 0 {
						st.Fail(rt, "C07/write/stun-accepted", "%s: STUN-parsable payload accepted (n=%d err=%v emitted=%d)", where, n, err, len(out))
					}
				case sp != nil && s.ag.sockByLocal(sp.Local) != nil && s.ag.sockByLocal(sp.Local).failWrites:
					// the socket refuses the datagram: nothing was accepted, so nothing may be counted
					lbl["socket-write-error"] = true
					if n != 0 || len(out) != 0 {
						st.Fail(rt, "C07/write/failed-write-reported-as-sent", "%s: the socket refused the write but Write returned n=%d err=%v (emitted %d)", where, n, err, len(out))
					}
				case sp != nil:
					l := s.ag.sockByLocal(sp.Local)
					if err != nil || n != len(p) || len(out) != 1 || out[0].src != l || out[0].dst != sp.Remote.addrPort() || !bytes.Equal(out[0].data, p) {
						st.Fail(rt, "C07/write/selected-pair", "%s: Write(%d) = %d,%v emitted %v; expected exactly one datagram on the selected pair %s", where, len(p), n, err, out, pairKey(sp))
					}
					sumWrite += uint64(len(p))
					selSent += uint64(len(p))
					selPS++
				default:
					// best validated pair by (reference) priority; ties may resolve either way
					var best uint64
					anyValid := false
					for k := range valid {
						if pr := pairPrio(s.ag.socks[k.l], s.eps[k.e]); !anyValid || pr > best {
							best, anyValid = pr, true
						}
					}
					lbl["write-before-selection"] = true
					anyFaulty := false
					for _, sk := range s.ag.socks {
						if sk.failWrites {
							anyFaulty = true
						}
					}
					if anyFaulty && anyValid {
						if n > 0 {
							sumWrite += uint64(n) //nolint:gosec
						}
					} else if !anyValid {
						if !errors.Is(err, ErrNoCandidatePairs) || len(out) != 0 {
							st.Fail(rt, "C07/write/no-valid-pair", "%s: no validated pair, Write = %d,%v emitted %d (want ErrNoCandidatePairs, nothing)", where, n, err, len(out))
						}
					} else {
						ok := err == nil && len(out) == 1 && bytes.Equal(out[0].data, p)
						if ok {
							ok = false
							for k := range valid {
								l, e := s.ag.socks[k.l], s.eps[k.e]
								if out[0].src == l && out[0].dst == e.pub && pairPrio(l, e) == best {
									ok = true
								}
							}
						}
						if !ok {
							st.Fail(rt, "C07/write/best-valid-pair", "%s: Write = %d,%v emitted %v; expected one datagram on a best validated pair (valid=%v)", where, n, err, out, valid)
						}
						sumWrite += uint64(len(p))
					}
				}
				if got := conn.BytesSent(); got != sumWrite {
					st.Fail(rt, "C07/counters/conn-bytes-sent", "%s: BytesSent=%d, Σ accepted Write=%d", where, got, sumWrite)
				}
			case "writeToPair":
				infos := conn.GetCandidatePairsInfo()
				if len(infos) == 0 {
					continue
				}
				info := infos[rapid.IntRange(0, len(infos)-1).Draw(rt, "pair")]
				p := c07Payload().Draw(rt, "payload")
				if stun.IsMessage(p) {
					continue
				}
				var pl, pr netip.AddrPort
				_ = s.ag.a.loop.Run(s.ag.a.loop, nil2(func() {
					for _, cp := range s.ag.a.checklist {
						if cp.id == info.ID {
							pl, pr = cp.Local.addrPort(), cp.Remote.addrPort()
						}
					}
				}))
				from := s.w.logLen()
				n, err := conn.WriteToPair(info.ID, p)
				out := s.w.emittedSince(from, 0)
				s.ops = append(s.ops, fmt.Sprintf("writeToPair(%d,%d)=%d,%v", info.ID, len(p), n, err))
				faulty := false
				for _, sk := range s.ag.socks {
					if sk.cand != nil && sk.cand.addrPort() == pl && sk.failWrites {
						faulty = true
					}
				}
				if faulty {
					if n != 0 || len(out) != 0 {
						st.Fail(rt, "C07/write/failed-write-reported-as-sent", "%s: the socket refused the write but WriteToPair returned n=%d err=%v", where, n, err)
					}
				} else if info.State == CandidatePairStateSucceeded {
					if err != nil || len(out) != 1 || out[0].dst != pr || out[0].src.cand.addrPort() != pl || !bytes.Equal(out[0].data, p) {
						st.Fail(rt, "C07/writetopair/wrong-route", "%s: WriteToPair(%d) = %d,%v emitted %v, pair is %s→%s", where, info.ID, n, err, out, pl, pr)
					}
					if sp := s.ag.selectedPair(); sp != nil && sp.id == info.ID {
						selSent += uint64(len(p))
						selPS++
					}
					// payload accepted through the connection, whichever pair carried it
					sumWrite += uint64(len(p))
					if got := conn.BytesSent(); got != sumWrite {
						st.Fail(rt, "C07/counters/conn-bytes-sent", "%s: BytesSent=%d, Σ payload accepted by Write and WriteToPair=%d", where, got, sumWrite)
					}
				} else if err == nil || len(out) != 0 {
					st.Fail(rt, "C07/writetopair/unvalidated-pair-used", "%s: pair %d is %s but WriteToPair = %d,%v emitted %d", where, info.ID, info.State, n, err, len(out))
				}
			case "inject":
				to := s.ag.socks[rapid.IntRange(0, len(s.ag.socks)-1).Draw(rt, "to")]
				srcKind := rapid.SampledFrom([]string{"selected", "known", "known", "unknown", "other-family", "known-other-port"}).Draw(rt, "srcKind")
				var srcAt netip.AddrPort
				switch srcKind {
				case "selected":
					sp := s.ag.selectedPair()
					if sp == nil {
						continue
					}
					srcAt = sp.Remote.addrPort()
					to = s.ag.sockByLocal(sp.Local)
				case "known":
					srcAt = s.eps[rapid.IntRange(0, 1).Draw(rt, "which")].pub
				case "unknown":
					srcAt = s.eps[2].pub
				case "other-family":
					if !withV6 {
						continue
					}
					if to.priv.Addr().Is4() {
						srcAt = s.eps[3].pub
					} else {
						srcAt = s.eps[0].pub
					}
				case "known-other-port":
					srcAt = netip.AddrPortFrom(s.eps[0].pub.Addr(), s.eps[0].pub.Port()+7)
				}
				p := c07Payload().Draw(rt, "payload")
				isStun := stun.IsMessage(p)
				// is the source a current remote candidate on the receiving socket's network type?
				accept := false
				rc, _ := s.ag.a.GetRemoteCandidates()
				for _, r := range rc {
					if r.addrPort() == srcAt && r.NetworkType().IsIPv4() == to.priv.Addr().Is4() && !r.NetworkType().IsTCP() {
						accept = true
					}
				}
				if to.priv.Addr().Is4() != srcAt.Addr().Is4() {
					accept = false
				}
				if srcKind == "unknown" || srcKind == "other-family" || srcKind == "known-other-port" {
					lbl["foreign-source"] = true
				}
				if isStun {
					lbl["stun-like-payload"] = true
					accept = false
				}
				if accept {
					expectIn = append(expectIn, p)
					if sp := s.ag.selectedPair(); sp != nil {
						selRecv += uint64(len(p))
						selPR++
					}
				}
				s.injectFrom(s.eps[0], srcAt, to, p)
				s.ops = append(s.ops, fmt.Sprintf("inject(%s from %s to %s, %d bytes stun=%v accept=%v)", srcKind, srcAt, to.name(), len(p), isStun, accept))
				s.purgeNonRequests()
				s.w.mu.Lock()
				s.w.inflight = nil // a STUN-like injection may have been answered; not the subject here
				s.w.mu.Unlock()
			case "checkFromEndpoint2":
				// an authentic connectivity check from the never-signalled endpoint 2 (peer-reflexive discovery,
				// unless the remote IP filter refuses the address)
				to := s.ag.socks[rapid.IntRange(0, 1).Draw(rt, "to")]
				s.peerRequest(s.eps[2], to, false, nil, 100, peerRole, 77)
				s.purgeNonRequests()
				s.w.mu.Lock()
				s.w.inflight = nil
				s.w.mu.Unlock()
				if filterEp2 {
					lbl["authentic-check-from-filtered-address"] = true
				}
				s.ops = append(s.ops, fmt.Sprintf("checkFromEndpoint2(→%s filtered=%v)", to.name(), filterEp2))
			case "signalLate":
				if ep1Signalled {
					continue
				}
				ep1Signalled = true
				if sp := s.ag.selectedPair(); sp != nil && sp.Remote.addrPort() == s.eps[1].pub && sp.Remote.Type() == CandidateTypePeerReflexive {
					lbl["selected-prflx-remote-superseded"] = true
				}
				_ = s.ag.addRemoteSync(s.epCandidate(1, eps[1]))
				s.ops = append(s.ops, "signalLate(ep1)")
			case "toggleWriteFault":
				if sp := s.ag.selectedPair(); sp != nil {
					if l := s.ag.sockByLocal(sp.Local); l != nil {
						l.mu.Lock()
						l.failWrites = !l.failWrites
						l.mu.Unlock()
						s.ops = append(s.ops, fmt.Sprintf("writeFault(%s)=%v", l.name(), l.failWrites))
					}
				}
			case "restart":
				drain(where)
				if err := s.ag.restart(); err != nil {
					rt.Fatalf("harness: %v", err)
				}
				s.w.mu.Lock()
				s.w.inflight = nil
				s.w.mu.Unlock()
				for k, l := range locals {
					if _, err := s.ag.addLocal(k, l.V6, l.Kind, true); err != nil {
						rt.Fatalf("harness: %v", err)
					}
				}
				_ = s.ag.a.SetRemoteCredentials(s.peer.ufrag, s.peer.pwd)
				signalAll()
				valid = map[pk]bool{}
				lbl["restart"] = true
				s.ops = append(s.ops, "restart")
			}
			drain(where)
			checkSelTally(where)
		}
		if s.w.elapsed() > 2*time.Second {
			st.Inconclusive()

			return
		}
		var labels []string
		for l := range lbl {
			labels = append(labels, l)
		}
		nontrivial := lbl["write-before-selection"] || lbl["foreign-source"] || lbl["stun-like-payload"] || lbl["re-selection"] || lbl["selected-prflx-remote-superseded"] || lbl["authentic-check-from-filtered-address"]
		desc := fmt.Sprintf("controlling=%v v6=%v ops=%s", controlling, withV6, strings.Join(s.ops, "; "))
		st.Record(vfHashStr(desc), nontrivial, labels...)
		if nontrivial && st.WantSample() {
			st.Sample(func() string { return desc })
		}
	})
}

// Duo: what A writes arrives at B's reader unmodified, once per delivered datagram.
func TestVerif_C07_DataDuo(t *testing.T) {
	st := vfNewStats(t)
	rapid.Check(t, func(rt *rapid.T) {
		c := duoCase{NoSignal: map[string]bool{}, MaxBinding: 7, ReusePorts: true}
		c.Controlling = rapid.IntRange(0, 1).Draw(rt, "controlling")
		for side := 0; side < 2; side++ {
			n := rapid.IntRange(1, 2).Draw(rt, "nSocks")
			for i := 0; i < n; i++ {
				c.Socks[side] = append(c.Socks[side], duoSockSpec{Kind: rapid.SampledFrom([]int{simKindHost, simKindSrflx, simKindNATHost}).Draw(rt, "kind")})
			}
		}
		d, err := newDuoSim(c, func(_ int, cfg *simAgentConfig) { cfg.keepalive = 0 })
		if err != nil {
			rt.Fatalf("harness: %v", err)
		}
		defer d.close()
		if err := d.addLocals(); err != nil {
			rt.Fatalf("harness: %v", err)
		}
		if err := d.startBoth(); err != nil {
			rt.Fatalf("harness: %v", err)
		}
		d.signalAll()
		d.fairSuffix(10, nil)
		if sig, _ := d.mirrorCheck(); sig != "" {
			st.Record(vfHash(c.String()), false, "not-connected")

			return
		}
		d.deliverAll()
		conns := [2]*Conn{{agent: d.ag[0].a}, {agent: d.ag[1].a}}
		var expect [2][][]byte // expect[side]: FIFO the reader of side must yield
		lbl := map[string]bool{}
		nOps := rapid.IntRange(1, 25).Draw(rt, "nOps")
		var ops []string
		for i := 0; i < nOps; i++ {
			op := rapid.SampledFrom([]string{"writeA", "writeB", "deliver", "deliver", "deliverLast", "dup", "drop"}).Draw(rt, "op")
			arg := rapid.IntRange(0, 7).Draw(rt, "arg")
			switch op {
			case "writeA", "writeB":
				side := 0
				if op == "writeB" {
					side = 1
				}
				p := c07Payload().Draw(rt, "payload")
				n, err := conns[side].Write(p)
				if stun.IsMessage(p) {
					if err == nil {
						st.Fail(rt, "C07/write/stun-accepted", "duo: STUN-parsable payload accepted")
					}

					continue
				}
				if err != nil || n != len(p) {
					st.Fail(rt, "C07/write/selected-pair", "duo: Write = %d,%v", n, err)
				}
				ops = append(ops, fmt.Sprintf("%s(%d)", op, len(p)))
			case "deliver", "deliverLast", "dup", "drop":
				n := d.w.inflightLen()
				if n == 0 {
					continue
				}
				idx := arg % n
				if op == "deliverLast" {
					idx = n - 1
				}
				switch op {
				case "dup":
					dg := d.w.peek(idx)
					cp := *dg
					d.w.mu.Lock()
					d.w.inflight = append(d.w.inflight, &cp)
					d.w.mu.Unlock()
					lbl["duplicate"] = true
				case "drop":
					d.w.take(idx)
					lbl["loss"] = true
				default:
					if idx != 0 {
						lbl["reordered"] = true
					}
					dg := d.w.take(idx)
					if d.w.deliver(dg) == "deliver" && dg.msg == nil {
						expect[1-dg.src.side] = append(expect[1-dg.src.side], dg.data)
					}
				}
				ops = append(ops, op)
			}
			for side := 0; side < 2; side++ {
				for d.ag[side].a.buf.Count() > 0 {
					buf := make([]byte, 9000)
					n, err := conns[side].Read(buf)
					if err != nil || len(expect[side]) == 0 || !bytes.Equal(buf[:n], expect[side][0]) {
						st.Fail(rt, "C07/duo/reader-mismatch", "side %c: Read = %d,%v, expected queue length %d\nops: %s", 'A'+side, n, err, len(expect[side]), strings.Join(ops, "; "))

						break
					}
					expect[side] = expect[side][1:]
				}
				if len(expect[side]) != 0 {
					st.Fail(rt, "C07/duo/datagram-lost", "side %c: %d delivered datagram(s) not readable\nops: %s", 'A'+side, len(expect[side]), strings.Join(ops, "; "))
				}
			}
		}
		if d.w.elapsed() > 2*time.Second {
			st.Inconclusive()

			return
		}
		var labels []string
		for l := range lbl {
			labels = append(labels, l)
		}
		st.Record(vfHashStr(c.String()+strings.Join(ops, ";")), len(lbl) > 0, labels...)
		if len(lbl) > 0 && st.WantSample() {
			st.Sample(func() string { return c.String() + " | " + strings.Join(ops, "; ") })
		}
	})
}
