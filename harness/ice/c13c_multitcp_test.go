//go:build verif

package ice

import (
	"fmt"
	"net"
	"testing"

	"github.com/pion/logging"
	"pgregory.net/rapid"
)

// TestVerif_C13_MultiTCPMuxAllOrNone: GetAllConns of a multi TCP mux is "all or none". When one of its muxes
// (a drawn one, already closed) refuses, the handles already taken from the others must be given back: a
// reference nobody holds keeps the per-ufrag connection of those muxes open for ever (it would be closed "when the
// last handle is closed", and that handle was dropped on the floor).
func TestVerif_C13_MultiTCPMuxAllOrNone(t *testing.T) {
	st := vfNewStats(t)
	lf := logging.NewDefaultLoggerFactory()
	lf.DefaultLogLevel = logging.LogLevelDisabled
	rapid.Check(t, func(rt *rapid.T) {
		n := rapid.IntRange(2, 4).Draw(rt, "muxes")
		dead := rapid.IntRange(0, n-1).Draw(rt, "closedMux")
		userHolds := rapid.Bool().Draw(rt, "aUserAlreadyHoldsAHandle")
		localIP := net.IPv4(10, 0, 0, 1)
		var muxes []*TCPMuxDefault
		var ifs []TCPMux
		for i := 0; i < n; i++ {
			m := NewTCPMuxDefault(TCPMuxParams{Listener: newC15Listener(), Logger: lf.NewLogger("verif"), ReadBufferSize: 8})
			muxes = append(muxes, m)
			ifs = append(ifs, m)
			defer m.Close() //nolint:errcheck
		}
		multi := NewMultiTCPMuxDefault(ifs...)
		var held []net.PacketConn
		if userHolds {
			hs, err := multi.GetAllConns("ufragM", false, localIP)
			if err != nil {
				rt.Fatalf("harness: %v", err)
			}
			held = hs
		}
		_ = muxes[dead].Close()
		hs, err := multi.GetAllConns("ufragM", false, localIP)
		if err == nil {
			// (a closed mux that still hands out connections is not this test's business)
			for _, h := range hs {
				_ = h.Close()
			}
		}
		for _, h := range held {
			_ = h.Close()
		}
		// nobody holds a handle now: no open mux may still have an open connection for the ufrag
		for i, m := range muxes {
			if i == dead {
				continue
			}
			m.mu.Lock()
			c, ok := m.getConn("ufragM", false, localIP)
			m.mu.Unlock()
			if ok && !c.isClosed() {
				st.Fail(rt, "C13/refcount/handle-dropped-by-multi-mux", "mux %d of %d still has an open connection for the ufrag although every handle that was handed out has been closed (mux %d was closed, GetAllConns returned %v, user held handles before: %v)", i, n, dead, err, userHolds)
			}
		}
		st.Record(vfHash(n, dead, userHolds), dead > 0, fmt.Sprintf("closed-mux-first:%v", dead == 0))
		if st.WantSample() {
			st.Sample(func() string { return fmt.Sprintf("%d muxes, mux %d closed, GetAllConns = %v", n, dead, err) })
		}
	})
}

// TestVerif_C15_MultiTCPMuxRemoveAndClose: a multi TCP mux owns what its muxes own. RemoveConnByUfrag must close the
// ufrag's packet connection on every mux (not only on the first one, which GetConnByUfrag uses), leave other ufrags
// alone, and Close must stop every listener and close every connection. A drawn subset of ufrags is taken through
// GetAllConns / GetConnByUfrag, a drawn one removed, then the multi mux is closed.
func TestVerif_C15_MultiTCPMuxRemoveAndClose(t *testing.T) {
	st := vfNewStats(t)
	lf := logging.NewDefaultLoggerFactory()
	lf.DefaultLogLevel = logging.LogLevelDisabled
	rapid.Check(t, func(rt *rapid.T) {
		n := rapid.IntRange(1, 4).Draw(rt, "muxes")
		nu := rapid.IntRange(1, 3).Draw(rt, "ufrags")
		localIP := net.IPv4(10, 0, 0, 1)
		var muxes []*TCPMuxDefault
		var lns []*c15Listener
		var ifs []TCPMux
		for i := 0; i < n; i++ {
			ln := newC15Listener()
			m := NewTCPMuxDefault(TCPMuxParams{Listener: ln, Logger: lf.NewLogger("verif"), ReadBufferSize: 8})
			muxes, lns, ifs = append(muxes, m), append(lns, ln), append(ifs, m)
			defer m.Close() //nolint:errcheck
		}
		multi := NewMultiTCPMuxDefault(ifs...)
		ufrag := func(i int) string { return fmt.Sprintf("ufragR%d", i) }
		viaAll := make([]bool, nu)
		for u := 0; u < nu; u++ {
			viaAll[u] = rapid.Bool().Draw(rt, fmt.Sprintf("viaGetAllConns%d", u))
			if viaAll[u] {
				hs, err := multi.GetAllConns(ufrag(u), false, localIP)
				if err != nil || len(hs) != n {
					st.Fail(rt, "C15/multi/get-all-conns", "GetAllConns(%s) on %d open muxes = %d handles, %v", ufrag(u), n, len(hs), err)
				}
			} else if _, err := multi.GetConnByUfrag(ufrag(u), false, localIP); err != nil {
				st.Fail(rt, "C15/multi/get-conn", "GetConnByUfrag(%s) = %v", ufrag(u), err)
			}
		}
		open := func(i, u int) bool {
			muxes[i].mu.Lock()
			defer muxes[i].mu.Unlock()
			c, ok := muxes[i].getConn(ufrag(u), false, localIP)

			return ok && !c.isClosed()
		}
		before := map[[2]int]bool{}
		for i := range muxes {
			for u := 0; u < nu; u++ {
				before[[2]int{i, u}] = open(i, u)
			}
		}
		rm := rapid.IntRange(0, nu-1).Draw(rt, "removed")
		multi.RemoveConnByUfrag(ufrag(rm))
		for i := range muxes {
			for u := 0; u < nu; u++ {
				switch {
				case u == rm && open(i, u):
					st.Fail(rt, "C15/multi/remove-left-a-connection", "after RemoveConnByUfrag(%s) on the multi mux, mux %d of %d still has an open connection for it (taken through GetAllConns: %v)", ufrag(u), i, n, viaAll[u])
				case u != rm && before[[2]int{i, u}] && !open(i, u):
					st.Fail(rt, "C15/multi/remove-closed-a-bystander", "RemoveConnByUfrag(%s) closed the connection of %s on mux %d", ufrag(rm), ufrag(u), i)
				}
			}
		}
		if err := multi.Close(); err != nil {
			st.Fail(rt, "C15/multi/close-error", "Close of the multi mux: %v", err)
		}
		for i := range muxes {
			if !lns[i].isClosed() {
				st.Fail(rt, "C15/multi/close-left-a-listener", "after Close of the multi mux the listener of mux %d of %d is still open", i, n)
			}
			for u := 0; u < nu; u++ {
				if open(i, u) {
					st.Fail(rt, "C15/multi/close-left-a-connection", "after Close of the multi mux, mux %d still has an open connection for %s", i, ufrag(u))
				}
			}
		}
		st.Record(vfHash(n, nu, rm, fmt.Sprint(viaAll)), n >= 2, fmt.Sprintf("muxes:%d", n))
		if st.WantSample() {
			st.Sample(func() string { return fmt.Sprintf("%d muxes, %d ufrags (via GetAllConns %v), removed %s", n, nu, viaAll, ufrag(rm)) })
		}
	})
}
