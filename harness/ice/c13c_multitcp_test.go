//go:build verif

package ice

import (
	"fmt"
	"net"
	"testing"

	"github.com/pion/logging"
	"pgregory.net/rapid"
)

// TestVerif_C13_MultiTCPMuxAllOrNone: GetAllConns of a multi TCP mux is "all or none". When one of its muxes
// (a drawn one, already closed) refuses, the handles already taken from the others must be given back: a
// reference nobody holds keeps the per-ufrag connection of those muxes open for ever (it would be closed "when the
// last handle is closed", and that handle was dropped on the floor).
func TestVerif_C13_MultiTCPMuxAllOrNone(t *testing.T) {
	st := vfNewStats(t)
	lf := logging.NewDefaultLoggerFactory()
	lf.DefaultLogLevel = logging.LogLevelDisabled
	rapid.Check(t, func(rt *rapid.T) {
		n := rapid.IntRange(2, 4).Draw(rt, "muxes")
		dead := rapid.IntRange(0, n-1).Draw(rt, "closedMux")
		userHolds := rapid.Bool().Draw(rt, "aUserAlreadyHoldsAHandle")
		localIP := net.IPv4(10, 0, 0, 1)
		var muxes []*TCPMuxDefault
		var ifs []TCPMux
		for i := 0; i < n; i++ {
			m := NewTCPMuxDefault(TCPMuxParams{Listener: newC15Listener(), Logger: lf.NewLogger("verif"), ReadBufferSize: 8})
			muxes = append(muxes, m)
			ifs = append(ifs, m)
			defer m.Close() //nolint:errcheck
		}
		multi := NewMultiTCPMuxDefault(ifs...)
		var held []net.PacketConn
		if userHolds {
			hs, err := multi.GetAllConns("ufragM", false, localIP)
			if err != nil {
				rt.Fatalf("harness: %v", err)
			}
			held = hs
		}
		_ = muxes[dead].Close()
		hs, err := multi.GetAllConns("ufragM", false, localIP)
		if err == nil {
			// (a closed mux that still hands out connections is not this test's business)
			for _, h := range hs {
				_ = h.Close()
			}
		}
		for _, h := range held {
			_ = h.Close()
		}
		// nobody holds a handle now: no open mux may still have an open connection for the ufrag
		for i, m := range muxes {
			if i == dead {
				continue
			}
			m.mu.Lock()
			c, ok := m.getConn("ufragM", false, localIP)
			m.mu.Unlock()
			if ok && !c.isClosed() {
				st.Fail(rt, "C13/refcount/handle-dropped-by-multi-mux", "mux %d of %d still has an open connection for the ufrag although every handle that was handed out has been closed (mux %d was closed, GetAllConns returned %v, user held handles before: %v)", i, n, dead, err, userHolds)
			}
		}
		st.Record(vfHash(n, dead, userHolds), dead > 0, fmt.Sprintf("closed-mux-first:%v", dead == 0))
		if st.WantSample() {
			st.Sample(func() string { return fmt.Sprintf("%d muxes, mux %d closed, GetAllConns = %v", n, dead, err) })
		}
	})
}
