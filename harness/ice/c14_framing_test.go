//go:build verif

package ice

// C14 — ICE-TCP framing preserves packet boundaries.

import (
	"strings"
	"runtime"
	"os"
	"bytes"
	"context"
	"encoding/binary"
	"errors"
	"fmt"
	"io"
	"net"
	"net/netip"
	"sync"
	"sync/atomic"
	"testing"
	"time"

	"github.com/pion/logging"
	"pgregory.net/rapid"
)

// c14Conn is an in-memory net.Conn: reads are served from a byte stream cut into the given chunk sizes
// (like TCP segmentation, a Read returns at most one chunk's remaining bytes), writes are captured.
type c14Conn struct {
	stalled   bool // Write blocks while set (a peer that does not read)
	mu        sync.Mutex
	cond      *sync.Cond
	stream    []byte
	chunks    []int // sizes; after they are used up, remaining bytes come in one chunk
	pos       int   // bytes consumed
	chunkLeft int
	chunkIdx  int
	reads     int
	eofAtEnd  bool // true: EOF when the stream is exhausted; false: block until Close
	eofWithData bool // with eofAtEnd: the Read that hands out the last bytes returns io.EOF with them (io.Reader allows it)
	closed    bool
	written   [][]byte
	local     net.Addr
	remote    net.Addr
	// afterWrite (if set) runs after every Write call, outside the lock: another writer gets its turn there
	afterWrite func(nthWrite int)
	// partialAt > 0: the partialAt-th Write call takes only partialKeep bytes and fails (a write deadline that
	// expires in the middle of a frame)
	partialAt, partialKeep int
	writeCalls             int
}

func newC14Conn(stream []byte, chunks []int, eofAtEnd bool) *c14Conn {
	c := &c14Conn{
		stream: stream, chunks: chunks, eofAtEnd: eofAtEnd,
		local:  &net.TCPAddr{IP: net.IPv4(10, 0, 0, 1), Port: 1000},
		remote: &net.TCPAddr{IP: net.IPv4(10, 0, 0, 2), Port: 2000},
	}
	c.cond = sync.NewCond(&c.mu)

	return c
}

func (c *c14Conn) Read(b []byte) (int, error) {
	c.mu.Lock()
	defer c.mu.Unlock()
	c.reads++
	for {
		if c.closed {
			return 0, net.ErrClosed
		}
		if c.pos < len(c.stream) {
			break
		}
		if c.eofAtEnd {
			return 0, io.EOF
		}
		c.cond.Wait()
	}
	if len(b) == 0 {
		return 0, nil
	}
	if c.chunkLeft == 0 {
		if c.chunkIdx < len(c.chunks) {
			c.chunkLeft = c.chunks[c.chunkIdx]
			c.chunkIdx++
		} else {
			c.chunkLeft = len(c.stream) - c.pos
		}
		if c.chunkLeft <= 0 {
			c.chunkLeft = 1
		}
	}
	n := len(b)
	if n > c.chunkLeft {
		n = c.chunkLeft
	}
	if n > len(c.stream)-c.pos {
		n = len(c.stream) - c.pos
	}
	copy(b, c.stream[c.pos:c.pos+n])
	c.pos += n
	c.chunkLeft -= n
	if c.eofWithData && c.eofAtEnd && c.pos == len(c.stream) {
		return n, io.EOF
	}

	return n, nil
}

func (c *c14Conn) Write(b []byte) (int, error) {
	c.mu.Lock()
	defer c.mu.Unlock()
	for c.stalled && !c.closed {
		c.cond.Wait()
	}
	if c.closed {
		return 0, net.ErrClosed
	}
	c.writeCalls++
	if c.partialAt > 0 && c.writeCalls == c.partialAt {
		k := c.partialKeep
		if k > len(b) {
			k = len(b)
		}
		c.written = append(c.written, append([]byte{}, b[:k]...))
		c.cond.Broadcast()

		return k, os.ErrDeadlineExceeded
	}
	c.written = append(c.written, append([]byte{}, b...))
	c.cond.Broadcast()
	if hook, n := c.afterWrite, len(c.written); hook != nil {
		c.mu.Unlock()
		hook(n)
		c.mu.Lock()
	}

	return len(b), nil
}

func (c *c14Conn) writtenBytes() []byte {
	c.mu.Lock()
	defer c.mu.Unlock()

	return bytes.Join(c.written, nil)
}

func (c *c14Conn) Close() error {
	c.mu.Lock()
	c.closed = true
	c.cond.Broadcast()
	c.mu.Unlock()

	return nil
}
func (c *c14Conn) LocalAddr() net.Addr                { return c.local }
func (c *c14Conn) RemoteAddr() net.Addr               { return c.remote }
func (c *c14Conn) SetDeadline(time.Time) error        { return nil }
func (c *c14Conn) SetReadDeadline(time.Time) error    { return nil }
func (c *c14Conn) SetWriteDeadline(time.Time) error   { return nil }
func (c *c14Conn) consumed() int                      { c.mu.Lock(); defer c.mu.Unlock(); return c.pos }
func (c *c14Conn) readCalls() int                     { c.mu.Lock(); defer c.mu.Unlock(); return c.reads }

var c14Lens = []int{0, 1, 2, 3, 255, 256, 257, 511, 512, 513, 8191, 8192, 8193, 65534, 65535}

func c14PacketGen(maxLen int) *rapid.Generator[[]byte] {
	return rapid.Custom(func(t *rapid.T) []byte {
		var n int
		switch rapid.IntRange(0, 3).Draw(t, "lenClass") {
		case 0:
			n = rapid.SampledFrom(c14Lens).Draw(t, "len")
		case 1:
			n = rapid.IntRange(0, 40).Draw(t, "len")
		case 2:
			n = rapid.IntRange(0, 2000).Draw(t, "len")
		default:
			n = rapid.IntRange(0, maxLen).Draw(t, "len")
		}
		if n > maxLen {
			n = maxLen
		}
		fill := rapid.Byte().Draw(t, "fill")
		b := make([]byte, n)
		switch rapid.IntRange(0, 2).Draw(t, "content") {
		case 0: // looks like headers
			for i := range b {
				b[i] = fill
			}
		case 1:
			for i := range b {
				b[i] = byte(i*7) + fill
			}
		default: // embedded fake header of a following frame
			for i := range b {
				b[i] = byte(i) ^ fill
			}
			if n >= 2 {
				binary.BigEndian.PutUint16(b, uint16(n))
			}
		}

		return b
	})
}

func c14ChunksGen(total int) *rapid.Generator[[]int] {
	return rapid.Custom(func(t *rapid.T) []int {
		switch rapid.IntRange(0, 4).Draw(t, "chunkMode") {
		case 0: // one byte at a time (for the first 64 bytes, then small)
			out := make([]int, 0, 64)
			for i := 0; i < 64; i++ {
				out = append(out, 1)
			}

			return out
		case 1: // everything coalesced
			return []int{total + 1}
		case 2:
			return rapid.SliceOfN(rapid.IntRange(1, 3), 0, 200).Draw(t, "chunks")
		case 3:
			return rapid.SliceOfN(rapid.SampledFrom([]int{1, 2, 3, 255, 256, 257, 1448, 8192, 8193, 8194, 65537}), 0, 60).Draw(t, "chunks")
		default:
			return rapid.SliceOfN(rapid.IntRange(1, 9000), 0, 60).Draw(t, "chunks")
		}
	})
}

func c14Frame(pkts [][]byte) []byte {
	var out []byte
	for _, p := range pkts {
		h := make([]byte, 2)
		binary.BigEndian.PutUint16(h, uint16(len(p)))
		out = append(out, h...)
		out = append(out, p...)
	}

	return out
}

// c14ParseFrames re-parses a captured byte stream with an independent parser.
func c14ParseFrames(b []byte) (pkts [][]byte, rest []byte) {
	for len(b) >= 2 {
		n := int(binary.BigEndian.Uint16(b))
		if len(b) < 2+n {
			break
		}
		pkts = append(pkts, b[2:2+n])
		b = b[2+n:]
	}

	return pkts, b
}

func TestVerif_C14_FramingRoundTrip(t *testing.T) {
	st := vfNewStats(t)
	rapid.Check(t, func(rt *rapid.T) {
		pkts := rapid.SliceOfN(c14PacketGen(65535), 0, 8).Draw(rt, "pkts")
		// write side: the real writer, into a capturing conn
		w := newC14Conn(nil, nil, true)
		for i, p := range pkts {
			n, err := writeStreamingPacket(w, p)
			if err != nil || n != len(p) {
				st.Fail(rt, "C14/write/short-or-error", "writeStreamingPacket(packet %d, len %d) = %d, %v", i, len(p), n, err)
			}
		}
		stream := w.writtenBytes()
		if want := c14Frame(pkts); !bytes.Equal(stream, want) {
			st.Fail(rt, "C14/write/stream-content", "written stream differs from RFC 4571 framing of the packets (len %d vs %d)", len(stream), len(want))
		}
		// transit: truncation + segmentation
		full := len(stream)
		cut := full
		if rapid.IntRange(0, 3).Draw(rt, "truncate") == 0 && full > 0 {
			cut = rapid.IntRange(0, full-1).Draw(rt, "cut")
		}
		chunks := c14ChunksGen(full).Draw(rt, "chunks")
		r := newC14Conn(stream[:cut], chunks, true)
		r.eofWithData = rapid.IntRange(0, 2).Draw(rt, "eofTogetherWithTheLastBytes") == 0

		labels := []string{}
		nontrivial := false
		splitHeader := false
		// read side
		off := 0
		for i, p := range pkts {
			capClass := rapid.IntRange(0, 5).Draw(rt, "capClass")
			var bufCap int
			switch capClass {
			case 0:
				bufCap = len(p) - 1
			case 1:
				bufCap = len(p)
			case 2:
				bufCap = len(p) + 1
			case 3:
				bufCap = 65535
			case 4:
				bufCap = 8192
			default:
				bufCap = rapid.IntRange(0, 65535).Draw(rt, "cap")
			}
			if bufCap < 0 {
				bufCap = 0
			}
			bufLen := bufCap
			if rapid.Bool().Draw(rt, "lenBelowCap") {
				bufLen = rapid.IntRange(0, bufCap).Draw(rt, "bufLen")
			}
			buf := make([]byte, bufLen, bufCap)
			before := r.consumed()
			n, err := readStreamingPacket(r, buf)
			used := r.consumed() - before
			frameEnd := off + 2 + len(p)
			switch {
			case frameEnd > cut && !(len(p) > bufLen && off+2 <= cut):
				// truncated inside this frame: must be an error, never a (short) packet
				if err == nil {
					st.Fail(rt, "C14/read/truncated-frame-returned", "stream cut at %d inside frame %d (len %d): returned n=%d without error", cut, i, len(p), n)
				}
				labels = append(labels, "truncated")
				nontrivial = true
				goto done
			case len(p) > bufLen: // the reader's buffer is what it passed: len(buf), whatever spare capacity lies behind it
				if !errors.Is(err, io.ErrShortBuffer) {
					st.Fail(rt, "C14/read/oversize-for-buffer", "frame %d of len %d with buffer len %d cap %d: n=%d err=%v, want io.ErrShortBuffer", i, len(p), bufLen, bufCap, n, err)
				}
				if used != 2 {
					st.Fail(rt, "C14/read/consumed-beyond-header", "short buffer: consumed %d bytes, want 2", used)
				}
				labels = append(labels, "short-buffer")
				goto done
			default:
				if err != nil || n != len(p) {
					st.Fail(rt, "C14/read/wrong-length", "frame %d: n=%d err=%v, want %d (cap %d)", i, n, err, len(p), bufCap)

					goto done
				}
				if n > bufLen {
					st.Fail(rt, "C14/read/overflow", "n=%d > len %d", n, bufLen)
				}
				if !bytes.Equal(buf[:n], p) {
					st.Fail(rt, "C14/read/content", "frame %d content differs", i)
				}
				if used != 2+len(p) {
					st.Fail(rt, "C14/read/consumed", "frame %d: consumed %d bytes, want %d", i, used, 2+len(p))
				}
			}
			off = frameEnd
		}
		// after the last packet: clean EOF / error, no fabricated packet
		{
			buf := make([]byte, 65535)
			n, err := readStreamingPacket(r, buf)
			if err == nil {
				st.Fail(rt, "C14/read/fabricated-packet", "read past the end returned n=%d without error", n)
			}
		}
	done:
		// classify: chunk boundary inside a header or body / coalesced frames / boundary length
		pos := 0
		bounds := map[int]bool{}
		for _, c := range chunks {
			pos += c
			bounds[pos] = true
		}
		o := 0
		coalesced := false
		for _, p := range pkts {
			if bounds[o+1] {
				splitHeader = true
			}
			for b := range bounds {
				if b > o+2 && b < o+2+len(p) {
					nontrivial = true
				}
			}
			o += 2 + len(p)
		}
		if len(pkts) >= 2 {
			prev := 0
			pos = 0
			for _, c := range append(append([]int{}, chunks...), full) {
				pos += c
				// does [prev,pos) span a frame boundary?
				fo := 0
				for _, p := range pkts[:len(pkts)-1] {
					fo += 2 + len(p)
					if prev < fo && fo < pos {
						coalesced = true
					}
				}
				prev = pos
			}
		}
		boundaryLen := false
		for _, p := range pkts {
			for _, l := range c14Lens {
				if len(p) == l {
					boundaryLen = true
				}
			}
		}
		if splitHeader {
			labels = append(labels, "split-header")
		}
		if coalesced {
			labels = append(labels, "coalesced")
		}
		nontrivial = (nontrivial || splitHeader || coalesced || boundaryLen) && len(pkts) >= 1
		lens := make([]int, len(pkts))
		for i, p := range pkts {
			lens[i] = len(p)
		}
		st.Record(vfHash(lens, chunks, cut), nontrivial && len(pkts) >= 2, labels...)
		if nontrivial && len(pkts) >= 2 && st.WantSample() {
			st.Sample(func() string {
				cs := chunks
				if len(cs) > 12 {
					cs = cs[:12]
				}

				return fmt.Sprintf("packet lens=%v chunks(first 12)=%v cut=%d/%d", lens, cs, cut, full)
			})
		}
	})
}

// Packets too long for the 16-bit length field.
func TestVerif_C14_Oversize(t *testing.T) {
	st := vfNewStats(t)
	rapid.Check(t, func(rt *rapid.T) {
		n := rapid.OneOf(rapid.SampledFrom([]int{65536, 65537, 65541, 70000, 131071, 131072}), rapid.IntRange(65536, 140000)).Draw(rt, "len")
		via := rapid.SampledFrom([]string{"writeStreamingPacket", "tcpPacketConn.WriteTo"}).Draw(rt, "via")
		p := make([]byte, n)
		for i := range p {
			p[i] = byte(i * 13)
		}
		w := newC14Conn(nil, nil, false)
		var err error
		if via == "writeStreamingPacket" {
			_, err = writeStreamingPacket(w, p)
		} else {
			pc := newTCPPacketConn(tcpPacketParams{ReadBuffer: 8, LocalAddr: w.local, Logger: logging.NewDefaultLoggerFactory().NewLogger("verif")})
			if aerr := pc.AddConn(w, nil); aerr != nil {
				rt.Fatalf("harness: AddConn: %v", aerr)
			}
			_, err = pc.WriteTo(p, w.remote)
			defer pc.Close() //nolint:errcheck
		}
		st.Record(vfHash(n, via), true, "via:"+via)
		if st.WantSample() {
			st.Sample(func() string { return fmt.Sprintf("len=%d via=%s err=%v wire=%d bytes", n, via, err, len(w.writtenBytes())) })
		}
		wire := w.writtenBytes()
		if err == nil {
			st.Fail(rt, "C14/oversize/accepted", "%s accepted a %d-byte packet (wire: %d bytes, header %x)", via, n, len(wire), wire[:min(2, len(wire))])
		}
		// whatever reached the wire must be self-consistent frames: header == body length
		pk, rest := c14ParseFrames(wire)
		if len(rest) != 0 || len(pk) > 0 {
			st.Fail(rt, "C14/oversize/truncated-header-on-wire", "%s put %d bytes on the wire for a %d-byte packet: %d frame(s) + %d stray bytes", via, len(wire), n, len(pk), len(rest))
		}
		_ = w.Close()
	})
}

// c14StreamOracle: arbitrary byte stream → every successful return is exactly one well-formed frame.
func c14StreamOracle(st *vfStats, t vfFataler, stream []byte, chunks []int, bufCap int) (frames int) {
	r := newC14Conn(stream, chunks, true)
	buf := make([]byte, bufCap)
	off := 0
	for iter := 0; ; iter++ {
		if iter > len(stream)+2 {
			st.Fail(t, "C14/garbage/unbounded", "more read calls than bytes")
		}
		before := r.consumed()
		calls := r.readCalls()
		n, err := readStreamingPacket(r, buf)
		used := r.consumed() - before
		if r.readCalls()-calls > used+2 {
			st.Fail(t, "C14/garbage/unbounded-read", "%d Read calls for %d bytes", r.readCalls()-calls, used)
		}
		if err != nil {
			if errors.Is(err, io.ErrShortBuffer) {
				if used != 2 {
					st.Fail(t, "C14/garbage/consumed-beyond-header", "short buffer consumed %d", used)
				}
			}

			return frames
		}
		if off+2 > len(stream) {
			st.Fail(t, "C14/garbage/fabricated-packet", "success with fewer than 2 bytes left")
		}
		want := int(binary.BigEndian.Uint16(stream[off:]))
		if n != want || used != 2+n || n > bufCap {
			st.Fail(t, "C14/garbage/wrong-frame", "offset %d: n=%d used=%d header says %d cap=%d", off, n, used, want, bufCap)
		}
		if !bytes.Equal(buf[:n], stream[off+2:off+2+n]) {
			st.Fail(t, "C14/garbage/content", "offset %d content differs", off)
		}
		off += used
		frames++
	}
}

func TestVerif_C14_ArbitraryStream(t *testing.T) {
	st := vfNewStats(t)
	rapid.Check(t, func(rt *rapid.T) {
		var stream []byte
		switch rapid.IntRange(0, 2).Draw(rt, "form") {
		case 0:
			stream = rapid.SliceOfN(rapid.Byte(), 0, 600).Draw(rt, "bytes")
		case 1: // small-length-biased garbage so that several frames parse
			n := rapid.IntRange(0, 40).Draw(rt, "n")
			for i := 0; i < n; i++ {
				stream = append(stream, 0, byte(rapid.IntRange(0, 12).Draw(rt, "l")))
				stream = append(stream, rapid.SliceOfN(rapid.Byte(), 0, 12).Draw(rt, "body")...)
			}
		default:
			stream = c14Frame(rapid.SliceOfN(c14PacketGen(300), 0, 6).Draw(rt, "pkts"))
			if len(stream) > 0 {
				i := rapid.IntRange(0, len(stream)-1).Draw(rt, "flip")
				stream[i] ^= byte(rapid.IntRange(1, 255).Draw(rt, "mask"))
			}
		}
		chunks := c14ChunksGen(len(stream)).Draw(rt, "chunks")
		bufCap := rapid.SampledFrom([]int{0, 1, 8, 64, 8192, 65535}).Draw(rt, "cap")
		frames := c14StreamOracle(st, rt, stream, chunks, bufCap)
		st.Record(vfHash(stream, chunks, bufCap), frames >= 1, fmt.Sprintf("frames>=2:%v", frames >= 2))
		if frames >= 2 && st.WantSample() {
			st.Sample(func() string { return fmt.Sprintf("stream=%x chunks=%v cap=%d frames=%d", stream[:min(len(stream), 48)], chunks[:min(len(chunks), 8)], bufCap, frames) })
		}
	})
}

func FuzzVerifC14Stream(f *testing.F) {
	f.Add([]byte{0, 1, 'a', 0, 2, 'b', 'c'}, uint8(1), uint16(8192))
	f.Add([]byte{0xff, 0xff, 1, 2, 3}, uint8(2), uint16(10))
	f.Add([]byte{0, 0, 0, 0, 0x20, 0x01}, uint8(0), uint16(0))
	f.Add(c14Frame([][]byte{bytes.Repeat([]byte{7}, 300), {}, {1}}), uint8(3), uint16(300))
	st := &vfStats{nt: map[uint64]struct{}{}, labels: map[string]int{}, excluded: map[string]int{}, knownHits: map[string]int{}}
	f.Fuzz(func(t *testing.T, stream []byte, chunk uint8, bufCap uint16) {
		var chunks []int
		if chunk > 0 {
			for i := 0; i < 400; i++ {
				chunks = append(chunks, int(chunk))
			}
		}
		c14StreamOracle(st, t, stream, chunks, int(bufCap))
	})
}

// The users of the framing: tcpPacketConn read side (AddConn + ReadFrom) and write side (WriteTo, with
// and without write buffer).
func TestVerif_C14_TCPPacketConn(t *testing.T) {
	st := vfNewStats(t)
	logger := logging.NewDefaultLoggerFactory().NewLogger("verif")
	rapid.Check(t, func(rt *rapid.T) {
		inbound := rapid.SliceOfN(c14PacketGen(receiveMTU), 0, 6).Draw(rt, "inbound")
		outbound := rapid.SliceOfN(c14PacketGen(receiveMTU), 0, 6).Draw(rt, "outbound")
		writeBuf := rapid.SampledFrom([]int{0, 0, 1 << 20, 4 << 20}).Draw(rt, "writeBuffer")
		first := rapid.Bool().Draw(rt, "firstPacket")
		stream := c14Frame(inbound)
		chunks := c14ChunksGen(len(stream)).Draw(rt, "chunks")
		conn := newC14Conn(stream, chunks, false)
		pc := newTCPPacketConn(tcpPacketParams{ReadBuffer: 32, LocalAddr: conn.local, Logger: logger, WriteBuffer: writeBuf})
		defer pc.Close() //nolint:errcheck
		var firstData []byte
		expectIn := inbound
		if first {
			firstData = []byte("first-stun-message")
			expectIn = append([][]byte{firstData}, inbound...)
		}
		if err := pc.AddConn(conn, firstData); err != nil {
			rt.Fatalf("harness: AddConn: %v", err)
		}
		big := false
		shortReads := 0
		for i, want := range expectIn {
			buf := make([]byte, receiveMTU)
			// sometimes the caller's buffer is shorter than the packet although its capacity is not
			if len(want) > 0 && rapid.IntRange(0, 5).Draw(rt, "shortReadBuffer") == 0 {
				l := rapid.IntRange(0, len(want)-1).Draw(rt, "bufLen")
				buf = make([]byte, l, l+rapid.SampledFrom([]int{0, 1, len(want) - l, receiveMTU}).Draw(rt, "bufExtraCap"))
			}
			ctx, cancel := context.WithTimeout(context.Background(), 20*time.Second)
			n, addr, err := pc.readFromContext(ctx, buf)
			cancel()
			if errors.Is(err, context.DeadlineExceeded) {
				st.Inconclusive()
				rt.Fatalf("VERIF-INCONCLUSIVE: ReadFrom did not deliver packet %d within 20 s", i)
			}
			if len(buf) < len(want) {
				// a packet larger than the reader's buffer yields an error, never a truncated packet
				shortReads++
				if err == nil || n != 0 {
					st.Fail(rt, "C14/tcppacketconn/short-buffer-accepted", "packet %d of %d bytes read into a buffer of len %d cap %d: n=%d err=%v (want an error)", i, len(want), len(buf), cap(buf), n, err)
				}

				continue
			}
			if err != nil || n != len(want) || !bytes.Equal(buf[:n], want) {
				st.Fail(rt, "C14/tcppacketconn/read", "packet %d: n=%d err=%v want len %d", i, n, err, len(want))

				break
			}
			if addr == nil || addr.String() != conn.remote.String() {
				st.Fail(rt, "C14/tcppacketconn/read-addr", "packet %d: addr %v want %v", i, addr, conn.remote)
			}
		}
		// write side; a small sentinel marks the end (the buffered writer is asynchronous and FIFO)
		sentinel := []byte("\x00sentinel\x00")
		for i, p := range outbound {
			if len(p) >= receiveMTU-1 {
				big = true
			}
			n, err := pc.WriteTo(p, conn.remote)
			if err != nil || n != len(p) {
				st.Fail(rt, "C14/tcppacketconn/write-result", "WriteTo packet %d len %d: n=%d err=%v", i, len(p), n, err)
			}
		}
		if _, err := pc.WriteTo(sentinel, conn.remote); err != nil {
			st.Fail(rt, "C14/tcppacketconn/write-result", "WriteTo sentinel: %v", err)
		}
		wantWire := c14Frame(append(append([][]byte{}, outbound...), sentinel))
		deadline := time.Now().Add(20 * time.Second)
		for {
			w := conn.writtenBytes()
			if len(w) >= len(sentinel)+2 && bytes.HasSuffix(w, sentinel) {
				break
			}
			if time.Now().After(deadline) {
				st.Inconclusive()
				rt.Fatalf("VERIF-INCONCLUSIVE: sentinel not on the wire after 20 s")
			}
			time.Sleep(50 * time.Microsecond)
		}
		wire := conn.writtenBytes()
		if !bytes.Equal(wire, wantWire) {
			got, rest := c14ParseFrames(wire)
			lens := []int{}
			for _, g := range got {
				lens = append(lens, len(g))
			}
			wl := []int{}
			for _, p := range outbound {
				wl = append(wl, len(p))
			}
			sig := "C14/tcppacketconn/write-stream"
			if writeBuf > 0 && len(got) < len(outbound)+1 && len(rest) == 0 {
				sig = "C14/tcppacketconn/buffered-write-drops-packet"
			}
			st.Fail(rt, sig, "writeBuffer=%d: wire has frames %v (+%d stray bytes), want %v + sentinel", writeBuf, lens, len(rest), wl)
		}
		labels := []string{fmt.Sprintf("writeBuffer:%v", writeBuf > 0), fmt.Sprintf("short-read-buffer:%v", shortReads > 0)}
		if big {
			labels = append(labels, "outbound>=MTU-1")
		}
		il, ol := []int{}, []int{}
		for _, p := range inbound {
			il = append(il, len(p))
		}
		for _, p := range outbound {
			ol = append(ol, len(p))
		}
		nt := len(inbound) >= 2 || len(outbound) >= 2
		st.Record(vfHash(il, ol, chunks, writeBuf, first), nt, labels...)
		if nt && st.WantSample() {
			st.Sample(func() string { return fmt.Sprintf("inbound lens=%v outbound lens=%v writeBuffer=%d first=%v", il, ol, writeBuf, first) })
		}
	})
}

// activeTCPConn against a real loopback listener (thorough tier).
func TestVerif_C14_ActiveTCPLoopback(t *testing.T) {
	st := vfNewStats(t)
	logger := logging.NewDefaultLoggerFactory().NewLogger("verif")
	ln, err := net.Listen("tcp", "127.0.0.1:0")
	if err != nil {
		t.Skipf("no loopback listener: %v", err)
	}
	defer ln.Close() //nolint:errcheck
	rapid.Check(t, func(rt *rapid.T) {
		toPeer := rapid.SliceOfN(c14PacketGen(receiveMTU), 1, 5).Draw(rt, "toPeer")
		fromPeer := rapid.SliceOfN(c14PacketGen(receiveMTU), 1, 5).Draw(rt, "fromPeer")
		split := rapid.IntRange(1, 5000).Draw(rt, "split")
		ctx, cancel := context.WithCancel(context.Background())
		defer cancel()
		ac := newActiveTCPConn(ctx, "127.0.0.1:0", netip.MustParseAddrPort(ln.Addr().String()), logger)
		defer ac.Close() //nolint:errcheck
		_ = ln.(*net.TCPListener).SetDeadline(time.Now().Add(10 * time.Second))
		peer, err := ln.Accept()
		if err != nil {
			st.Inconclusive()
			rt.Fatalf("VERIF-INCONCLUSIVE: accept: %v", err)
		}
		defer peer.Close() //nolint:errcheck
		_ = peer.SetDeadline(time.Now().Add(20 * time.Second))
		// peer → agent, in split writes
		go func() {
			s := c14Frame(fromPeer)
			for len(s) > 0 {
				n := min(split, len(s))
				if _, werr := peer.Write(s[:n]); werr != nil {
					return
				}
				s = s[n:]
			}
		}()
		for i, want := range fromPeer {
			buf := make([]byte, receiveMTU)
			_ = ac.readBuffer.SetReadDeadline(time.Now().Add(20 * time.Second))
			n, _, err := ac.ReadFrom(buf)
			if err != nil && n == 0 && len(want) != 0 {
				var ne net.Error
				if errors.As(err, &ne) && ne.Timeout() {
					st.Inconclusive()
					rt.Fatalf("VERIF-INCONCLUSIVE: read timeout")
				}
			}
			if err != nil || !bytes.Equal(buf[:n], want) {
				st.Fail(rt, "C14/activetcp/read", "packet %d: n=%d err=%v want len %d", i, n, err, len(want))
			}
		}
		for i, p := range toPeer {
			if n, err := ac.WriteTo(p, nil); err != nil || n != len(p) {
				st.Fail(rt, "C14/activetcp/write-result", "packet %d: n=%d err=%v", i, n, err)
			}
		}
		want := c14Frame(toPeer)
		got := make([]byte, len(want))
		if _, err := io.ReadFull(peer, got); err != nil {
			var ne net.Error
			if errors.As(err, &ne) && ne.Timeout() {
				// fewer bytes than expected arrived within 20 s
				st.Fail(rt, "C14/activetcp/write-stream-short", "peer received fewer than %d bytes within 20 s: %v", len(want), err)
			}
			st.Fail(rt, "C14/activetcp/write-stream", "peer read: %v", err)
		}
		if !bytes.Equal(got, want) {
			st.Fail(rt, "C14/activetcp/write-stream", "peer received a different byte stream")
		}
		// a packet too large for the write path (8193..65535 bytes), followed by ordinary ones: the write may be
		// refused or the stream closed, but whatever the peer still receives are whole frames of packets that were
		// written, in order — never a frame nobody wrote (e.g. the first 8192 bytes of the large packet)
		oversize := 0
		if rapid.IntRange(0, 2).Draw(rt, "oversizeWrite") == 0 {
			oversize = rapid.SampledFrom([]int{8193, 8194, 8200, 16384, 20000, 65535}).Draw(rt, "oversizeLen")
			big := bytes.Repeat([]byte{0xAB}, oversize)
			after := rapid.SliceOfN(c14PacketGen(1500), 0, 2).Draw(rt, "afterOversize")
			written := append([][]byte{big}, after...)
			for _, p := range written {
				_, _ = ac.WriteTo(p, nil)
			}
			var rest []byte
			chunk := make([]byte, 70000)
			for {
				_ = peer.SetReadDeadline(time.Now().Add(250 * time.Millisecond))
				n, rerr := peer.Read(chunk)
				rest = append(rest, chunk[:n]...)
				if rerr != nil {
					break
				}
			}
			frames, _ := c14ParseFrames(rest)
			ptr := 0
			for k, f := range frames {
				if ptr == 0 && !bytes.Equal(written[0], f) {
					ptr = 1 // the large packet itself may be missing
				}
				if ptr >= len(written) || !bytes.Equal(written[ptr], f) {
					st.Fail(rt, "C14/activetcp/fabricated-frame-after-oversize-write", "after a WriteTo of %d bytes the peer received frame %d of %d bytes (first %x…) that is not the next packet written (later packets: %d)",
						oversize, k, len(f), f[:min(len(f), 4)], len(after))
				}
				ptr++
			}
		}
		tl, fl := []int{}, []int{}
		for _, p := range toPeer {
			tl = append(tl, len(p))
		}
		for _, p := range fromPeer {
			fl = append(fl, len(p))
		}
		st.Record(vfHash(tl, fl, split, oversize), len(tl)+len(fl) >= 3, fmt.Sprintf("oversize-write:%v", oversize > 0))
		if st.WantSample() {
			st.Sample(func() string { return fmt.Sprintf("toPeer=%v fromPeer=%v split=%d oversizeWrite=%d", tl, fl, split, oversize) })
		}
	})
}


// A small write buffer in front of a peer that does not read: whatever WriteTo accepted must reach the
// wire as whole frames, in order; whatever it refused must leave no trace (no orphan header, no split).
func TestVerif_C14_StalledWriteBuffer(t *testing.T) {
	st := vfNewStats(t)
	logger := logging.NewDefaultLoggerFactory().NewLogger("verif")
	logger.(*logging.DefaultLeveledLogger).SetLevel(logging.LogLevelDisabled) //nolint:forcetypeassert
	rapid.Check(t, func(rt *rapid.T) {
		bufSize := rapid.SampledFrom([]int{24, 64, 200, 1000, 1002, 1004, 2100, 8200}).Draw(rt, "writeBuffer")
		pkts := rapid.SliceOfN(c14PacketGen(1200), 1, 12).Draw(rt, "packets")
		conn := newC14Conn(nil, nil, false)
		conn.stalled = true
		pc := newTCPPacketConn(tcpPacketParams{ReadBuffer: 8, LocalAddr: conn.local, Logger: logger, WriteBuffer: bufSize})
		defer pc.Close() //nolint:errcheck
		if err := pc.AddConn(conn, nil); err != nil {
			rt.Fatalf("harness: %v", err)
		}
		var accepted [][]byte
		refused := 0
		for _, p := range pkts {
			n, err := pc.WriteTo(p, conn.remote)
			if err == nil && n == len(p) {
				accepted = append(accepted, p)
			} else {
				refused++
			}
		}
		if rapid.IntRange(0, 3).Draw(rt, "closeWhileThePeerIsStalled") == 0 {
			// the peer never reads again: closing the packet connection must not wait for the queued frames
			done := make(chan struct{})
			go func() { _ = pc.Close(); close(done) }()
			for waited := 0; ; waited++ {
				select {
				case <-done:
				case <-time.After(5 * time.Second):
					if stuck, dump := vfStuck("pion/ice/v4"); stuck {
						conn.Close() //nolint:errcheck,gosec // (lets the wedged Close and the deferred one finish)
						st.Fail(rt, "C15/close/waits-for-a-peer-that-does-not-read", "Close of the TCP packet connection has not returned: write buffer %d, %d packets accepted, the peer does not read\n%s", bufSize, len(accepted), dump)
					} else if waited < 5 {
						continue
					} else {
						st.Inconclusive()
						rt.Fatalf("VERIF-INCONCLUSIVE: Close still running after 30 s but not stably blocked")
					}
				}

				break
			}
			// "returns only when all goroutines have ended": the writer goroutine of the buffered connection too
			buf := make([]byte, 1<<20)
			if stack := string(buf[:runtime.Stack(buf, true)]); strings.Contains(stack, "bufferedConn).writeProcess") {
				st.Fail(rt, "C15/close/writer-goroutine-outlives-close", "Close of the TCP packet connection has returned while the writer goroutine of a buffered connection is still running (write buffer %d, %d packets accepted)", bufSize, len(accepted))
			}
			st.Record(vfHash("close-stalled", bufSize, len(accepted), refused), len(accepted) > 0, "close-while-stalled")

			return
		}
		sentinel := []byte("\x00end-of-sequence\x00")
		conn.mu.Lock()
		conn.stalled = false
		conn.cond.Broadcast()
		conn.mu.Unlock()
		// the sentinel is written once the buffer has room again (bounded retries, no verdict depends on timing)
		deadline := time.Now().Add(20 * time.Second)
		for {
			if n, err := pc.WriteTo(sentinel, conn.remote); err == nil && n == len(sentinel) {
				break
			}
			if time.Now().After(deadline) {
				st.Inconclusive()
				rt.Fatalf("VERIF-INCONCLUSIVE: sentinel not accepted within 20 s")
			}
			time.Sleep(100 * time.Microsecond)
		}
		for !bytes.HasSuffix(conn.writtenBytes(), sentinel) {
			if time.Now().After(deadline) {
				st.Inconclusive()
				rt.Fatalf("VERIF-INCONCLUSIVE: sentinel not on the wire within 20 s")
			}
			time.Sleep(100 * time.Microsecond)
		}
		wire := conn.writtenBytes()
		got, rest := c14ParseFrames(wire)
		lens := func(pp [][]byte) []int {
			out := []int{}
			for _, p := range pp {
				out = append(out, len(p))
			}

			return out
		}
		want := append(append([][]byte{}, accepted...), sentinel)
		ok := len(rest) == 0 && len(got) == len(want)
		for i := 0; ok && i < len(got); i++ {
			ok = bytes.Equal(got[i], want[i])
		}
		desc := fmt.Sprintf("writeBuffer=%d packets=%v accepted=%d refused=%d", bufSize, lens(pkts), len(accepted), refused)
		st.Record(vfHashStr(desc), refused > 0 && len(accepted) > 0, fmt.Sprintf("refused:%v", refused > 0))
		if refused > 0 && st.WantSample() {
			st.Sample(func() string { return desc })
		}
		if !ok {
			st.Fail(rt, "C14/tcppacketconn/stalled-buffer-corrupts-stream", "%s: wire parses as frames %v + %d stray bytes, accepted were %v + sentinel", desc, lens(got), len(rest), lens(accepted))
		}
	})
}

// A frame larger than the reader's buffer ends the stream: an error or closure, never packets fabricated
// from the inside of the oversized frame.
func TestVerif_C14_OversizeInbound(t *testing.T) {
	st := vfNewStats(t)
	logger := logging.NewDefaultLoggerFactory().NewLogger("verif")
	logger.(*logging.DefaultLeveledLogger).SetLevel(logging.LogLevelDisabled) //nolint:forcetypeassert
	rapid.Check(t, func(rt *rapid.T) {
		before := rapid.SliceOfN(c14PacketGen(2000), 0, 3).Draw(rt, "before")
		bigLen := rapid.OneOf(rapid.SampledFrom([]int{8193, 8194, 9000, 65535}), rapid.IntRange(8193, 65535)).Draw(rt, "oversize")
		// the oversized body looks like a run of small, well-formed frames
		body := make([]byte, 0, bigLen)
		for len(body) < bigLen {
			body = append(body, 0, 4, 'E', 'V', 'I', 'L')
		}
		body = body[:bigLen]
		after := rapid.SliceOfN(c14PacketGen(200), 0, 3).Draw(rt, "after")
		stream := append(append(c14Frame(before), c14Frame([][]byte{body})...), c14Frame(after)...)
		chunks := c14ChunksGen(len(stream)).Draw(rt, "chunks")
		conn := newC14Conn(stream, chunks, false)
		pc := newTCPPacketConn(tcpPacketParams{ReadBuffer: 64, LocalAddr: conn.local, Logger: logger})
		defer pc.Close() //nolint:errcheck
		if err := pc.AddConn(conn, nil); err != nil {
			rt.Fatalf("harness: %v", err)
		}
		desc := fmt.Sprintf("before=%d packets, oversize=%d, after=%d packets", len(before), bigLen, len(after))
		st.Record(vfHashStr(fmt.Sprint(desc, chunks)), true)
		if st.WantSample() {
			st.Sample(func() string { return desc })
		}
		for i := 0; i <= len(before); i++ {
			buf := make([]byte, receiveMTU)
			ctx, cancel := context.WithTimeout(context.Background(), 20*time.Second)
			n, _, err := pc.readFromContext(ctx, buf)
			cancel()
			if errors.Is(err, context.DeadlineExceeded) {
				st.Inconclusive()
				rt.Fatalf("VERIF-INCONCLUSIVE: no result within 20 s")
			}
			if i < len(before) {
				if err != nil || !bytes.Equal(buf[:n], before[i]) {
					st.Fail(rt, "C14/tcppacketconn/read", "%s: packet %d before the oversized frame: n=%d err=%v", desc, i, n, err)
				}

				continue
			}
			if err == nil {
				st.Fail(rt, "C14/oversize-inbound/fabricated-packet", "%s: after the valid packets the reader yielded %q (%d bytes) instead of an error", desc, buf[:min(n, 16)], n)
			}
		}
		// the stream is over: the TCP connection is closed and nothing else is ever delivered
		deadline := time.Now().Add(20 * time.Second)
		for {
			conn.mu.Lock()
			closed := conn.closed
			conn.mu.Unlock()
			if closed {
				break
			}
			if time.Now().After(deadline) {
				st.Fail(rt, "C14/oversize-inbound/stream-not-closed", "%s: the connection that sent an oversized frame is still open", desc)

				break
			}
			time.Sleep(100 * time.Microsecond)
		}
		ctx, cancel := context.WithTimeout(context.Background(), 2*time.Millisecond)
		n, _, err := pc.readFromContext(ctx, make([]byte, receiveMTU))
		cancel()
		if err == nil {
			st.Fail(rt, "C14/oversize-inbound/fabricated-packet", "%s: %d more bytes delivered after the stream error", desc, n)
		}
	})
}

// ---- several TCP connections under one tcpPacketConn, with the checker owning the interleaving of their segments

type c14GatedConn struct {
	mu      sync.Mutex
	cond    *sync.Cond
	avail   []byte
	waiting int // times the reader parked with nothing available (monotonic)
	closed  bool
	local   net.Addr
	remote  net.Addr
}

func newC14GatedConn(i int) *c14GatedConn {
	c := &c14GatedConn{
		local:  &net.TCPAddr{IP: net.IPv4(10, 0, 0, 1), Port: 1000},
		remote: &net.TCPAddr{IP: net.IPv4(10, 0, 0, byte(2+i)), Port: 2000 + i},
	}
	c.cond = sync.NewCond(&c.mu)

	return c
}

func (c *c14GatedConn) Read(b []byte) (int, error) {
	c.mu.Lock()
	defer c.mu.Unlock()
	for len(c.avail) == 0 && !c.closed {
		c.waiting++
		c.cond.Broadcast()
		c.cond.Wait()
	}
	if len(c.avail) == 0 {
		return 0, net.ErrClosed
	}
	n := copy(b, c.avail)
	c.avail = c.avail[n:]

	return n, nil
}

// grant hands the next segment to the connection's reader and returns once it has been consumed entirely and
// the reader is parked again (false: not within 20 s).
func (c *c14GatedConn) grant(seg []byte) bool {
	c.mu.Lock()
	defer c.mu.Unlock()
	w := c.waiting
	c.avail = append(c.avail, seg...)
	c.cond.Broadcast()
	deadline := time.Now().Add(20 * time.Second)
	timer := time.AfterFunc(20*time.Second, func() { c.mu.Lock(); c.cond.Broadcast(); c.mu.Unlock() })
	defer timer.Stop()
	for !(len(c.avail) == 0 && c.waiting > w) && !c.closed {
		if time.Now().After(deadline) {
			return false
		}
		c.cond.Wait()
	}

	return true
}

func (c *c14GatedConn) Write(b []byte) (int, error) { return len(b), nil }
func (c *c14GatedConn) Close() error {
	c.mu.Lock()
	c.closed = true
	c.cond.Broadcast()
	c.mu.Unlock()

	return nil
}
func (c *c14GatedConn) LocalAddr() net.Addr              { return c.local }
func (c *c14GatedConn) RemoteAddr() net.Addr             { return c.remote }
func (c *c14GatedConn) SetDeadline(time.Time) error      { return nil }
func (c *c14GatedConn) SetReadDeadline(time.Time) error  { return nil }
func (c *c14GatedConn) SetWriteDeadline(time.Time) error { return nil }

func TestVerif_C14_TCPPacketConnMulti(t *testing.T) {
	st := vfNewStats(t)
	logger := logging.NewDefaultLoggerFactory().NewLogger("verif")
	small := rapid.Custom(func(t *rapid.T) []byte {
		n := rapid.SampledFrom([]int{1, 2, 3, 20, 255, 256, 257, 1000, 1200, 4000, 8190}).Draw(t, "len")
		fill := rapid.Byte().Draw(t, "fill")

		return bytes.Repeat([]byte{fill}, n)
	})
	rapid.Check(t, func(rt *rapid.T) {
		nConns := rapid.IntRange(2, 3).Draw(rt, "connections")
		pkts := make([][][]byte, nConns)
		segs := make([][][]byte, nConns) // per connection: its byte stream cut into segments
		total := 0
		for i := 0; i < nConns; i++ {
			pkts[i] = rapid.SliceOfN(small, 1, 4).Draw(rt, "packets")
			total += len(pkts[i])
			stream := c14Frame(pkts[i])
			for len(stream) > 0 {
				n := rapid.SampledFrom([]int{1, 2, 3, 100, 500, 1448, 9000}).Draw(rt, "segment")
				if n > len(stream) {
					n = len(stream)
				}
				segs[i] = append(segs[i], stream[:n])
				stream = stream[n:]
			}
		}
		pc := newTCPPacketConn(tcpPacketParams{ReadBuffer: 32, LocalAddr: &net.TCPAddr{IP: net.IPv4(10, 0, 0, 1), Port: 1000}, Logger: logger})
		defer pc.Close() //nolint:errcheck
		conns := make([]*c14GatedConn, nConns)
		for i := range conns {
			conns[i] = newC14GatedConn(i)
			if err := pc.AddConn(conns[i], nil); err != nil {
				rt.Fatalf("harness: AddConn: %v", err)
			}
		}
		next := make([]int, nConns)
		switches, order := 0, []int{}
		for {
			var live []int
			for i := range segs {
				if next[i] < len(segs[i]) {
					live = append(live, i)
				}
			}
			if len(live) == 0 {
				break
			}
			i := live[rapid.IntRange(0, len(live)-1).Draw(rt, "turn")]
			if len(order) > 0 && order[len(order)-1] != i {
				switches++
			}
			order = append(order, i)
			if !conns[i].grant(segs[i][next[i]]) {
				st.Inconclusive()
				rt.Fatalf("VERIF-INCONCLUSIVE: segment not consumed within 20 s")
			}
			next[i]++
		}
		got := map[string][][]byte{}
		for k := 0; k < total; k++ {
			buf := make([]byte, receiveMTU)
			ctx, cancel := context.WithTimeout(context.Background(), 20*time.Second)
			n, addr, err := pc.readFromContext(ctx, buf)
			cancel()
			if errors.Is(err, context.DeadlineExceeded) {
				st.Fail(rt, "C14/multi/packet-missing", "only %d of %d packets were delivered (order of segments by connection: %v)", k, total, order)
			}
			if err != nil {
				st.Fail(rt, "C14/multi/read-error", "packet %d: %v", k, err)
			}
			got[addr.String()] = append(got[addr.String()], append([]byte{}, buf[:n]...))
		}
		for i, c := range conns {
			g := got[c.remote.String()]
			if len(g) != len(pkts[i]) {
				st.Fail(rt, "C14/multi/packet-count", "connection %d: %d packets delivered, %d sent (segment order %v)", i, len(g), len(pkts[i]), order)
			}
			for k := range g {
				if !bytes.Equal(g[k], pkts[i][k]) {
					st.Fail(rt, "C14/multi/packet-corrupted", "connection %d packet %d: got %d bytes (first %x…), want %d bytes of %x (segment order %v)",
						i, k, len(g[k]), g[k][:min(len(g[k]), 8)], len(pkts[i][k]), pkts[i][k][0], order)
				}
			}
		}
		st.Record(vfHash(order, total), switches >= 2, fmt.Sprintf("connections:%d", nConns), fmt.Sprintf("interleaved:%v", switches >= 2))
		if switches >= 2 && st.WantSample() {
			st.Sample(func() string { return fmt.Sprintf("%d connections, %d packets, segment order by connection %v", nConns, total, order) })
		}
	})
}


// TestVerif_C14_ConcurrentWriters: several goroutines WriteTo the same peer through one tcpPacketConn, and the
// checker additionally lets a complete second WriteTo happen between two drawn Write calls on the TCP
// connection (the interleaving a preempted writer would see).  The wire must still be a sequence of whole
// frames, one per accepted packet.
func TestVerif_C14_ConcurrentWriters(t *testing.T) {
	st := vfNewStats(t)
	logger := logging.NewDefaultLoggerFactory().NewLogger("verif")
	rapid.Check(t, func(rt *rapid.T) {
		nWriters := rapid.IntRange(1, 4).Draw(rt, "writers")
		per := rapid.IntRange(1, 6).Draw(rt, "packetsPerWriter")
		writeBuf := rapid.SampledFrom([]int{0, 0, 1 << 20}).Draw(rt, "writeBuffer")
		intrudeAt := rapid.IntRange(1, 6).Draw(rt, "intrudeAfterWrite")
		conn := newC14Conn(nil, nil, false)
		pc := newTCPPacketConn(tcpPacketParams{ReadBuffer: 8, LocalAddr: conn.local, Logger: logger, WriteBuffer: writeBuf})
		defer pc.Close() //nolint:errcheck
		if err := pc.AddConn(conn, nil); err != nil {
			rt.Fatalf("harness: AddConn: %v", err)
		}
		intruder := bytes.Repeat([]byte{0xEE}, rapid.SampledFrom([]int{1, 7, 300}).Draw(rt, "intruderLen"))
		var started atomic.Bool
		intruderDone := make(chan error, 1)
		between := false // the second WriteTo completed while the first writer was inside its Write call
		conn.afterWrite = func(n int) {
			if n < intrudeAt || !started.CompareAndSwap(false, true) {
				return
			}
			done := make(chan struct{})
			go func() {
				_, err := pc.WriteTo(intruder, conn.remote)
				intruderDone <- err
				close(done)
			}()
			select {
			case <-done:
				between = true
			case <-time.After(200 * time.Millisecond): // the writer holds a lock across its Write calls: no interleaving possible
			}
		}
		var wg sync.WaitGroup
		var sent [][]byte
		var smu sync.Mutex
		for w := 0; w < nWriters; w++ {
			wg.Add(1)
			go func(w int) {
				defer wg.Done()
				for k := 0; k < per; k++ {
					p := bytes.Repeat([]byte{byte(16*w + k + 1)}, 3+17*k+w)
					if n, err := pc.WriteTo(p, conn.remote); err == nil && n == len(p) {
						smu.Lock()
						sent = append(sent, p)
						smu.Unlock()
					}
				}
			}(w)
		}
		wg.Wait()
		intruded := false
		if !started.CompareAndSwap(false, true) { // (a successful swap disarms a hook that has not fired: with a write buffer the socket writes are asynchronous)
			select {
			case err := <-intruderDone:
				intruded = err == nil
			case <-time.After(20 * time.Second):
				st.Inconclusive()
				rt.Fatalf("VERIF-INCONCLUSIVE: the second WriteTo did not return within 20 s")
			}
		}
		sentinel := []byte("\x00sentinel\x00")
		if _, err := pc.WriteTo(sentinel, conn.remote); err != nil {
			rt.Fatalf("harness: sentinel: %v", err)
		}
		for d := time.Now().Add(20 * time.Second); !bytes.HasSuffix(conn.writtenBytes(), sentinel); {
			if time.Now().After(d) {
				st.Inconclusive()
				fr, rs := c14ParseFrames(conn.writtenBytes())
				rt.Fatalf("VERIF-INCONCLUSIVE: sentinel not on the wire after 20 s (frames %q rest %d started=%v between=%v)", fr, len(rs), started.Load(), between)
			}
			time.Sleep(50 * time.Microsecond)
		}
		frames, rest := c14ParseFrames(conn.writtenBytes())
		want := map[string]int{string(sentinel): 1}
		for _, p := range sent {
			want[string(p)]++
		}
		if intruded {
			want[string(intruder)]++
		}
		ok := len(rest) == 0
		for _, f := range frames {
			want[string(f)]--
		}
		for _, v := range want {
			if v != 0 {
				ok = false
			}
		}
		st.Record(vfHash(nWriters, per, writeBuf, intrudeAt, len(intruder)), between || nWriters >= 2, fmt.Sprintf("write-in-between:%v", between), fmt.Sprintf("writers:%d", nWriters))
		if between && st.WantSample() {
			st.Sample(func() string {
				return fmt.Sprintf("%d writers × %d packets, writeBuffer=%d, a second WriteTo ran after Write call %d on the connection", nWriters, per, writeBuf, intrudeAt)
			})
		}
		if !ok {
			lens := []int{}
			for _, f := range frames {
				lens = append(lens, len(f))
			}
			st.Fail(rt, "C14/concurrent-writers/stream-not-whole-frames", "the wire is not one whole frame per packet: parsed frame lengths %v, %d stray bytes; %d packets accepted, intruded=%v (after Write call %d), writeBuffer=%d",
				lens, len(rest), len(sent), intruded, intrudeAt, writeBuf)
		}
	})
}


// TestVerif_C14_PartialWrite: a write that fails after part of a frame is on the wire (a write deadline expiring
// mid-frame, an abort by a sibling user) leaves a truncated frame in the stream. Whatever is written next would
// be read by the peer as the rest of that frame: "never a merged, split or fabricated packet" — the stream has to
// end there (closure of that connection), further packets must not follow.
func TestVerif_C14_PartialWrite(t *testing.T) {
	st := vfNewStats(t)
	logger := logging.NewDefaultLoggerFactory().NewLogger("verif")
	logger.(*logging.DefaultLeveledLogger).SetLevel(logging.LogLevelDisabled) //nolint:forcetypeassert
	rapid.Check(t, func(rt *rapid.T) {
		writeBuf := rapid.SampledFrom([]int{0, 0, 4000, 100000}).Draw(rt, "writeBuffer")
		pkts := rapid.SliceOfN(c14PacketGen(600), 2, 8).Draw(rt, "packets")
		at := rapid.IntRange(1, len(pkts)).Draw(rt, "failingWrite")
		keep := rapid.IntRange(0, 2+len(pkts[at-1])-1).Draw(rt, "bytesTakenBeforeTheFailure")
		conn := newC14Conn(nil, nil, false)
		conn.partialAt, conn.partialKeep = at, keep
		pc := newTCPPacketConn(tcpPacketParams{ReadBuffer: 8, LocalAddr: conn.local, Logger: logger, WriteBuffer: writeBuf})
		defer pc.Close() //nolint:errcheck
		if err := pc.AddConn(conn, nil); err != nil {
			rt.Fatalf("harness: %v", err)
		}
		for _, p := range pkts {
			_, _ = pc.WriteTo(p, conn.remote)
			if writeBuf > 0 {
				// one frame per Write call of the writer goroutine: wait until it has been handed over
				for d := time.Now().Add(5 * time.Second); time.Now().Before(d); {
					conn.mu.Lock()
					done := conn.closed || conn.writeCalls >= len(conn.written) && len(conn.written) > 0
					conn.mu.Unlock()
					if done {
						break
					}
					time.Sleep(50 * time.Microsecond)
				}
				time.Sleep(200 * time.Microsecond)
			}
		}
		time.Sleep(time.Millisecond)
		wire := conn.writtenBytes()
		got, rest := c14ParseFrames(wire)
		// reference: the frames before the failing write, then the kept prefix of the failing frame, then nothing
		want := c14Frame(pkts[:at-1])
		failing := c14Frame(pkts[at-1 : at])
		want = append(want, failing[:keep]...)
		desc := fmt.Sprintf("writeBuffer=%d packets=%d failingWrite=%d kept=%d of %d", writeBuf, len(pkts), at, keep, len(failing))
		st.Record(vfHashStr(desc), keep > 0 && at < len(pkts), fmt.Sprintf("buffered:%v", writeBuf > 0), fmt.Sprintf("partial:%v", keep > 0))
		if keep > 0 && st.WantSample() {
			st.Sample(func() string { return desc })
		}
		if keep == 0 {
			return // nothing of the frame went out: the stream is intact, later packets may follow
		}
		if !bytes.Equal(wire, want) {
			st.Fail(rt, "C14/write/stream-continues-after-partial-frame", "%s: %d bytes on the wire, the stream should end after the truncated frame at %d bytes; the peer parses %d frames + %d stray bytes", desc, len(wire), len(want), len(got), len(rest))
		}
	})
}
