//go:build verif

package ice

// C05 — role conflicts resolve by tie-breaker into opposite roles (RFC 8445 §7.3.1.1).

import (
	"net/netip"
	"sync/atomic"
	"context"
	"fmt"
	"strings"
	"testing"
	"time"

	"github.com/pion/stun/v3"
	"pgregory.net/rapid"
)

var c05Boundaries = []uint64{0, 1, 2, 1<<63 - 1, 1 << 63, 1<<63 + 1, 1<<64 - 2, 1<<64 - 1}

func c05TiePair() *rapid.Generator[[2]uint64] {
	return rapid.Custom(func(t *rapid.T) [2]uint64 {
		base := rapid.OneOf(rapid.SampledFrom(c05Boundaries), rapid.Uint64()).Draw(t, "T")
		var other uint64
		switch rapid.IntRange(0, 4).Draw(t, "rel") {
		case 0:
			other = base
		case 1:
			other = base + 1
		case 2:
			other = base - 1
		case 3:
			other = rapid.SampledFrom(c05Boundaries).Draw(t, "Tb")
		default:
			other = rapid.Uint64().Draw(t, "Tr")
		}

		return [2]uint64{base, other}
	})
}

type pairSnap struct {
	state     CandidatePairState
	nominated bool
	nomOnSucc bool
}

func (ag *simAgent) pairSnapshot() map[uint64]pairSnap {
	out := map[uint64]pairSnap{}
	_ = ag.a.loop.Run(ag.a.loop, func(context.Context) {
		for _, p := range ag.a.checklist {
			out[p.id] = pairSnap{p.state, p.nominated, p.nominateOnBindingSuccess}
		}
	})

	return out
}

// emittedSince returns the datagrams the agent (side 0) emitted since log index from.
func (w *simWorld) emittedSince(from int, side int) []*simDgram {
	w.mu.Lock()
	defer w.mu.Unlock()
	var out []*simDgram
	for _, e := range w.log[from:] {
		if e.kind == "emit" && e.side == side {
			out = append(out, e.d)
		}
	}

	return out
}

func (w *simWorld) logLen() int {
	w.mu.Lock()
	defer w.mu.Unlock()

	return len(w.log)
}

func TestVerif_C05_RoleConflictSolo(t *testing.T) {
	st := vfNewStats(t)
	rapid.Check(t, func(rt *rapid.T) {
		controlling := rapid.Bool().Draw(rt, "controlling")
		ties := c05TiePair().Draw(rt, "ties")
		T, Tp := ties[0], ties[1]
		sameRole := rapid.IntRange(0, 4).Draw(rt, "sameRole") != 0
		useCand := rapid.Bool().Draw(rt, "useCandidate")
		known := rapid.Bool().Draw(rt, "knownSource")
		preConnected := rapid.IntRange(0, 3).Draw(rt, "preConnected") == 0
		lite := rapid.IntRange(0, 3).Draw(rt, "lite") == 0
		cfg := simAgentConfig{controlling: controlling, lite: lite, maxBinding: 7, disconnected: time.Hour, keepalive: 2 * time.Second, explicitTimeout: true}
		// optionally an application binding-request handler that approves everything it is shown: a
		// role-conflicting request is not a connectivity check, so the handler must not even see it
		withHandler := rapid.IntRange(0, 3).Draw(rt, "bindingRequestHandler") == 0
		var handlerCalls atomic.Int32
		if withHandler {
			cfg.extra = append(cfg.extra, WithBindingRequestHandler(func(*stun.Message, Candidate, Candidate, *CandidatePair) bool {
				handlerCalls.Add(1)

				return true
			}))
		}
		second := simKindSrflx
		if lite {
			second = simKindHost // lite agents have host candidates only
		}
		s, err := newSoloSim(cfg, []duoSockSpec{{Kind: simKindHost}, {Kind: second}}, []soloEpSpec{{Typ: CandidateTypeHost}, {Typ: CandidateTypeHost}})
		if err != nil {
			rt.Fatalf("harness: %v", err)
		}
		defer s.close()
		_ = s.ag.a.loop.Run(s.ag.a.loop, func(context.Context) { s.ag.a.tieBreaker = T })
		if err := s.ag.start(s.peer.ufrag, s.peer.pwd); err != nil {
			rt.Fatalf("harness: %v", err)
		}
		// endpoint 1 is always signalled so that ticks emit checks; endpoint 0 is the conflict source
		_ = s.ag.addRemoteSync(s.epCandidate(1, soloEpSpec{Typ: CandidateTypeHost}))
		if known {
			_ = s.ag.addRemoteSync(s.epCandidate(0, soloEpSpec{Typ: CandidateTypeHost}))
		}
		otherRole := "controlling"
		if controlling {
			otherRole = "controlled"
		}
		if preConnected {
			// bring a pair with endpoint 1 to selected first (regular handshake with the opposite role)
			s.ag.tick()
			for _, d := range s.agentRequests() {
				if ep := s.epByAddr(d.dst); ep == s.eps[1] {
					s.answer(d, ep)
				}
			}
			s.purgeNonRequests()
			if controlling {
				s.ag.tick() // nominates
				for _, d := range s.agentRequests() {
					if ep := s.epByAddr(d.dst); ep == s.eps[1] && d.msg.useCand {
						s.answer(d, ep)
					}
				}
			} else {
				s.peerRequest(s.eps[1], s.ag.socks[0], true, nil, 100, otherRole, 77)
				for _, d := range s.agentRequests() {
					if ep := s.epByAddr(d.dst); ep == s.eps[1] {
						s.answer(d, ep)
					}
				}
			}
			for _, d := range s.agentRequests() {
				s.removeInflight(d)
			}
		}
		// optionally the session is restarted first (Restart, candidates and credentials signalled again): the
		// tie-breaker that counts from then on is the one the agent announces in its requests
		restarted := rapid.IntRange(0, 3).Draw(rt, "restartedBefore") == 0
		if restarted {
			if err := s.ag.restart(); err != nil {
				rt.Fatalf("harness: restart: %v", err)
			}
			s.w.mu.Lock()
			s.w.inflight = nil
			s.w.mu.Unlock()
			for i, k := range []int{simKindHost, second} {
				if _, err := s.ag.addLocal(i, false, k, true); err != nil {
					rt.Fatalf("harness: %v", err)
				}
			}
			_ = s.ag.a.SetRemoteCredentials(s.peer.ufrag, s.peer.pwd)
			_ = s.ag.addRemoteSync(s.epCandidate(1, soloEpSpec{Typ: CandidateTypeHost}))
			if known {
				_ = s.ag.addRemoteSync(s.epCandidate(0, soloEpSpec{Typ: CandidateTypeHost}))
			}
			from := s.w.logLen()
			s.ag.tick()
			for _, d := range s.w.emittedSince(from, 0) {
				if d.msg != nil && d.msg.class == stun.ClassRequest {
					if d.msg.tiebreaker != T {
						st.Label("tie-breaker-redrawn-by-restart")
						Tp += d.msg.tiebreaker - T // keep the drawn relation towards the announced tie-breaker
						T = d.msg.tiebreaker
					}

					break
				}
			}
		}
		// one conflict probe; a second one may follow at once (the agent's role may have changed in between)
		probe := func(round int, controlling, sameRole bool, Tp uint64, useCand bool) {
			ownRole, otherRole := "controlled", "controlling"
			if controlling {
				ownRole, otherRole = "controlling", "controlled"
			}
			s.w.mu.Lock()
			s.w.inflight = nil
			s.w.mu.Unlock()
			selBefore := pairKey(s.ag.selectedPair())
			handlerCallsBefore := handlerCalls.Load()
			pairsBefore := s.ag.pairSnapshot()
			from := s.w.logLen()
			role := ownRole
			if !sameRole {
				role = otherRole
			}
			to := s.ag.socks[0]
			// an opposite-role request may carry, behind MESSAGE-INTEGRITY (appended by anybody on the path), a role
			// attribute claiming the receiver's role: what the request authentically carries is the opposite role
			var trailing []stun.Setter
			if !sameRole && rapid.IntRange(0, 2).Draw(rt, "ownRoleBehindIntegrity") == 0 {
				if controlling {
					trailing = []stun.Setter{AttrControlling(^uint64(0))}
				} else {
					trailing = []stun.Setter{AttrControlled(0)}
				}
			}
			req := simBuildRequest(simReqOpts{
				username: s.ag.ufrag + ":" + s.peer.ufrag, key: s.ag.pwd, role: role, tiebreaker: Tp,
				useCand: useCand, priority: 1234, fingerprint: true, trailing: trailing,
			})
			s.inject(s.eps[0], to, req.Raw)
			out := s.w.emittedSince(from, 0)
			desc := fmt.Sprintf("probe %d: agent role=%s lite=%v T=%d; request role=%s T'=%d useCandidate=%v knownSource=%v preConnected=%v restarted=%v ownRoleBehindIntegrity=%v", round, ownRole, lite, T, role, Tp, useCand, known, preConnected, restarted, len(trailing) > 0)
			adjacent := T == Tp || T+1 == Tp || T-1 == Tp
			boundary := false
			for _, b := range c05Boundaries {
				if T == b || Tp == b {
					boundary = true
				}
			}
			st.Record(vfHashStr(desc), sameRole && (adjacent || boundary), fmt.Sprintf("sameRole:%v", sameRole), fmt.Sprintf("adjacent:%v", adjacent), fmt.Sprintf("lite:%v", lite), fmt.Sprintf("handler:%v", withHandler), fmt.Sprintf("roleBehindIntegrity:%v", len(trailing) > 0), fmt.Sprintf("restarted:%v", restarted))
			if sameRole && adjacent && st.WantSample() {
				st.Sample(func() string { return desc })
			}
			countClass := func(cl stun.MessageClass) (n int, last *simDgram) {
				for _, d := range out {
					if d.msg != nil && d.msg.class == cl {
						n++
						last = d
					}
				}

				return
			}
			nSucc, _ := countClass(stun.ClassSuccessResponse)
			nErr, errD := countClass(stun.ClassErrorResponse)
			if !sameRole {
				if nSucc != 1 || nErr != 0 {
					sig := "C05/opposite-role/not-treated-as-check"
					if len(trailing) > 0 {
						// D43 (known finding): attributes behind MESSAGE-INTEGRITY are honoured
						sig = "C05/opposite-role/role-attribute-behind-message-integrity"
					}
					st.Fail(rt, sig, "%s: %d success / %d error responses emitted, want 1/0", desc, nSucc, nErr)
				}

				return
			}
			keep := (controlling && T >= Tp) || (!controlling && T < Tp)
			if nSucc != 0 {
				st.Fail(rt, "C05/conflict/success-response-sent", "%s: a success response was sent for a role-conflicting request", desc)
			}
			if withHandler {
				if n := handlerCallsBefore; handlerCalls.Load() != n {
					st.Fail(rt, "C05/conflict/shown-to-binding-request-handler", "%s: the application handler was called for a role-conflicting request", desc)
				}
			}
			if sel := pairKey(s.ag.selectedPair()); sel != selBefore {
				st.Fail(rt, "C05/conflict/selection-changed", "%s: selection %q -> %q", desc, selBefore, sel)
			}
			for id, before := range pairsBefore {
				if after, ok := s.ag.pairSnapshot()[id]; !ok || after != before {
					st.Fail(rt, "C05/conflict/pair-state-changed", "%s: pair %d %+v -> %+v", desc, id, before, after)
				}
			}
			if keep {
				if nErr != 1 || len(out) != 1 {
					st.Fail(rt, "C05/conflict/keep-without-487", "%s: expected exactly one datagram (487) but %d datagrams / %d error responses left", desc, len(out), nErr)

					return
				}
				m := &stun.Message{Raw: append([]byte{}, errD.data...)}
				_ = m.Decode()
				if errD.msg.errCode != 487 || errD.msg.txid != req.TransactionID || errD.dst != s.eps[0].pub ||
					stun.MessageIntegrity([]byte(s.ag.pwd)).Check(m) != nil {
					st.Fail(rt, "C05/conflict/bad-487", "%s: error response code=%d txidMatch=%v dst=%s integrityOK=%v", desc,
						errD.msg.errCode, errD.msg.txid == req.TransactionID, errD.dst, stun.MessageIntegrity([]byte(s.ag.pwd)).Check(m) == nil)
				}
			} else if len(out) != 0 {
				st.Fail(rt, "C05/conflict/switch-with-answer", "%s: receiver must switch silently but emitted %d datagram(s): %v", desc, len(out), out)
			}
			// the role attribute of the next emitted request
			from = s.w.logLen()
			s.ag.tick()
			wantRole := ownRole
			if !keep {
				wantRole = otherRole
			}
			seen := false
			for _, d := range s.w.emittedSince(from, 0) {
				if d.msg == nil || d.msg.class != stun.ClassRequest {
					continue
				}
				seen = true
				if d.msg.role != wantRole {
					sig := "C05/conflict/role-after-keep"
					if !keep {
						sig = "C05/conflict/role-after-switch"
					}
					st.Fail(rt, sig, "%s: next request carries role %q, want %q", desc, d.msg.role, wantRole)
				}
				if d.msg.tiebreaker != T {
					st.Fail(rt, "C05/conflict/tiebreaker-changed", "%s: next request carries tie-breaker %d, want %d", desc, d.msg.tiebreaker, T)
				}
			}
			if !seen {
				st.Label("no-request-after-conflict")
			}
			// the role itself (a lite agent in the controlled role sends no requests that would show it)
			if got := s.ag.a.isControlling.Load(); got != (wantRole == "controlling") {
				sig := "C05/conflict/role-after-keep"
				if !keep {
					sig = "C05/conflict/role-after-switch"
				}
				st.Fail(rt, sig, "%s: agent is controlling=%v after the conflict, want role %s", desc, got, wantRole)
			}
		}
		probe(1, controlling, sameRole, Tp, useCand)
		if rapid.IntRange(0, 2).Draw(rt, "secondConflictAtOnce") == 0 {
			ties2 := c05TiePair().Draw(rt, "ties2")
			Tp2 := ties2[1]
			if ties2[0] != T { // keep the relation of the drawn pair towards the agent's tie-breaker
				Tp2 = T + (ties2[1] - ties2[0])
			}
			probe(2, s.ag.a.isControlling.Load(), rapid.IntRange(0, 4).Draw(rt, "sameRole2") != 0, Tp2, rapid.Bool().Draw(rt, "useCandidate2"))
		}
	})
}

func TestVerif_C05_RoleConflictDuo(t *testing.T) {
	st := vfNewStats(t)
	gen := duoCaseGen(1, false)
	rapid.Check(t, func(rt *rapid.T) {
		c := gen.Draw(rt, "case")
		bothControlling := rapid.Bool().Draw(rt, "bothControlling")
		ties := c05TiePair().Draw(rt, "ties")
		if ties[0] == ties[1] {
			ties[1] = ties[0] + 1 // the statement covers distinct tie-breakers
		}
		nOps := rapid.IntRange(0, 40).Draw(rt, "nOps")
		ops := rapid.SliceOfN(duoOpGen(), nOps, nOps).Draw(rt, "ops")
		d, err := newDuoSim(c, func(_ int, cfg *simAgentConfig) { cfg.controlling = bothControlling })
		if err != nil {
			rt.Fatalf("harness: %v", err)
		}
		defer d.close()
		for side := 0; side < 2; side++ {
			ag := d.ag[side]
			ag.controlling = bothControlling
			tb := ties[side]
			_ = ag.a.loop.Run(ag.a.loop, func(context.Context) { ag.a.tieBreaker = tb })
		}
		if err := d.addLocals(); err != nil {
			rt.Fatalf("harness: %v", err)
		}
		if err := d.startBoth(); err != nil {
			rt.Fatalf("harness: %v", err)
		}
		budget := int(c.MaxBinding) - 1
		for _, op := range ops {
			d.applyOp(op, budget)
		}
		d.signalAll()
		rounds := d.fairSuffix(40, nil)
		if d.w.elapsed() > 2*time.Second {
			st.Inconclusive()

			return
		}
		works := d.reach()
		desc := fmt.Sprintf("%s bothControlling=%v ties=%v", c, bothControlling, ties)
		st.Record(vfHashStr(desc+strings.Join(d.ops, ";")), len(works) > 0, fmt.Sprintf("reachable:%v", len(works) > 0), fmt.Sprintf("bothControlling:%v", bothControlling))
		if len(works) > 0 && st.WantSample() {
			st.Sample(func() string { return fmt.Sprintf("%s | %d ops | rounds=%d final=%s", desc, len(d.ops), rounds, d.snapshotSel()) })
		}
		if len(works) == 0 {
			return // without any two-way path the agents may never hear each other
		}
		ra, rb := d.ag[0].a.isControlling.Load(), d.ag[1].a.isControlling.Load()
		if ra == rb {
			st.Fail(rt, "C05/duo/same-role-at-the-end", "both agents end with controlling=%v\n%s\nops: %s", ra, desc, strings.Join(d.ops, "; "))
		}
		// the agent with the larger tie-breaker must be the controlling one
		wantA := ties[0] > ties[1]
		if ra != wantA {
			st.Fail(rt, "C05/duo/wrong-winner", "A controlling=%v but tie-breakers are %v\n%s", ra, ties, desc)
		}
		if sig, msg := d.mirrorCheck(); sig != "" {
			st.Fail(rt, strings.Replace(sig, "C01/", "C05/duo/", 1), "%s\n%s\nops: %s\nfinal: %s", msg, desc, strings.Join(d.ops, "; "), d.snapshotSel())
		}
		// "after which C01 holds": with the roles settled both agents see the same priority for mirrored pairs
		// (RFC 8445 §7.3.1.1: a role switch recomputes the pair priorities)
		type pp struct {
			l, r  netip.AddrPort
			prio  uint64
			prflx bool
		}
		var pairs [2][]pp
		for side := 0; side < 2; side++ {
			ag := d.ag[side]
			_ = ag.a.loop.Run(ag.a.loop, func(context.Context) {
				for _, p := range ag.a.checklist {
					pairs[side] = append(pairs[side], pp{p.Local.addrPort(), p.Remote.addrPort(), p.priority(), p.Remote.Type() == CandidateTypePeerReflexive})
				}
			})
		}
		for _, pa := range pairs[0] {
			sa := d.ag[0].sockByLocalAddr(pa.l)
			if sa == nil || sa.kind == simKindNATHost || pa.prflx {
				continue // (a peer-reflexive remote carries the priority of the check, not of the peer's candidate)
			}
			for _, pb := range pairs[1] {
				sb := d.ag[1].sockByLocalAddr(pb.l)
				if sb == nil || sb.kind == simKindNATHost || pb.prflx || pa.r != pb.l || pb.r != pa.l {
					continue
				}
				if pa.prio != pb.prio {
					st.Fail(rt, "C05/duo/mirrored-pair-priorities-differ", "after the role conflict A sees priority %d and B %d for the mirrored pair %s<->%s (A controlling=%v, B controlling=%v)\n%s",
						pa.prio, pb.prio, pa.l, pb.l, ra, rb, desc)
				}
			}
		}
	})
}
