#!/bin/bash
# usage: soak.sh <nseeds> [tier]  — runs every check at VERIF_SEED=1..n; prints anything that is not OK.
N=${1:-5}; TIER=${2:-quick}
cd "$(dirname "$0")"
for s in $(seq 1 $N); do
  for id in $(python3 -c "import json;print(' '.join(sorted(json.load(open('checks.json')))))"); do
    out=$(VERIF_SEED=$s VERIF_NOEVIDENCE=1 ./vcheck $id $TIER 2>&1)
    rc=$?
    if [ $rc -ne 0 ]; then echo "seed=$s $id rc=$rc"; echo "$out" | grep -E "VIOLATION|INCONCLUSIVE|signature" | head -5; fi
  done
  echo "seed $s done"
done
