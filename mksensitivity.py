#!/usr/bin/env python3
"""Generates SENSITIVITY.md from .work/sens_all.json (hand-written mutations), .work/sens_c09.txt (per-site
socket-release sweep) and seeded/results.json + seeded/*/meta.json (independently seeded changes)."""
import json, os, re
V = os.path.dirname(os.path.abspath(__file__))
out = ["# Sensitivity of the checks\n",
       "Every entry was obtained by running the registered quick command (thorough where stated) through `mut.sh`",
       "against a scratch worktree of /repo with the change applied (`vcheck --repo`), never against /repo itself.",
       "`rc=1` = the check reported a VIOLATION with the listed signature(s); `rc=0` = not detected; `rc=2` = inconclusive.\n"]
sa = os.path.join(V, '.work', 'sens_all.json')
if not os.path.exists(sa):
    sa = os.path.join(V, 'sensitivity', 'sens_all.json')
if os.path.exists(sa):
    res = json.load(open(sa))
    out.append("## 1. Hand-written mutations (`/verif/mutations/m_<prop>_<x>.py`)\n")
    out.append("| mutation | file | result | signature(s) |")
    out.append("|---|---|---|---|")
    det = 0
    for f, r in sorted(res.items()):
        if r["rc"] == 1:
            det += 1
        out.append("| %s | %s | %s | %s |" % (f, r["file"], {1: "detected", 0: "**not detected**", 2: "inconclusive"}.get(r["rc"], r["rc"]), "; ".join(r["signatures"])[:160]))
    out.append("\n%d of %d detected in the quick tier. Undetected ones are discussed in §3.\n" % (det, len(res)))
sc = os.path.join(V, 'sensitivity', 'sens_c09.txt')
if os.path.exists(sc):
    out.append("## 2. C09 per-site sweep: one `closeConnAndLog` call deleted at a time (gather.go)\n")
    out.append("```")
    out.append(open(sc).read().strip())
    out.append("```")
    out.append("Sites reported rc=0 are error paths the generator does not reach (constructor failures for well-formed addresses, non-UDP LocalAddr types, the UniversalUDPMux srflx path, `conn == nil` paths where nothing is open) — see §3.\n")
rp = os.path.join(V, 'seeded', 'results.json')
if os.path.exists(rp):
    res = json.load(open(rp))
    out.append("## 4. Independently seeded changes (`/verif/seeded/<id>/`)\n")
    out.append("| id | breaks | needs in order to manifest | detected by | tier | signature |")
    out.append("|---|---|---|---|---|---|")
    for sid, r in sorted(res.items()):
        mp = os.path.join(V, 'seeded', sid, 'meta.json')
        m = json.load(open(mp)) if os.path.exists(mp) else {}
        hit = [x for x in r["runs"] if x["rc"] == 1]
        if hit:
            h = hit[0]
            out.append("| %s | %s | %s | %s | %s | %s |" % (sid, m.get("breaks", ""), m.get("needs_to_manifest", ""), h["check"], h["tier"], "; ".join(h["signatures"])[:120]))
        else:
            out.append("| %s | %s | %s | **not detected** | | |" % (sid, m.get("breaks", ""), m.get("needs_to_manifest", "")))
    out.append("")
notes = os.path.join(V, 'sensitivity', 'notes.md')
if os.path.exists(notes):
    out.append(open(notes).read())
open(os.path.join(V, 'SENSITIVITY.md'), 'w').write("\n".join(out) + "\n")
print("written")
