#!/bin/bash
# usage: mut.sh <ID> <tier> <python-expr-file or patch>  — run a check against a mutated scratch worktree of /repo
# The mutation is a python script receiving the worktree dir as argv[1], or a .diff applied with git apply.
set -u
ID=$1; TIER=$2; MUT=$3
WT=$(mktemp -d /tmp/mutwt.XXXXXX)
rmdir "$WT"
git -C /repo worktree add --detach -q "$WT" HEAD || exit 3
cleanup() { git -C /repo worktree remove --force "$WT" >/dev/null 2>&1; rm -rf "$WT"; }
trap cleanup EXIT
case "$MUT" in
  *.diff|*.patch) git -C "$WT" apply "$MUT" || { echo "patch failed"; exit 3; } ;;
  *) python3 "$MUT" "$WT" || { echo "mutation script failed"; exit 3; } ;;
esac
(cd "$WT" && GOFLAGS=-mod=mod GOPROXY=off go build ./... ) || { echo "mutant does not build"; exit 3; }
shift 3
VERIF_NOEVIDENCE=1 /verif/vcheck "$ID" "$TIER" --repo "$WT" "$@"
echo "mut rc=$?"
