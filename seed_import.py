#!/usr/bin/env python3
"""Imports confirmed seeded changes from /tmp/seed/out/<id> into /verif/seeded/<id>/ (patch.diff, demo_test.go,
notes.md, meta.json). Confirmation lines come from /verif/.work/confirm_results.txt (confirm_seed.sh)."""
import json, os, re, shutil, sys
DESCR = {
 "C01-a": ("mirror-image clause: controlling agent nominates a second pair", "≥2 pairs; a lower-priority pair is nominated first, then the better pair becomes valid and an inbound request arrives on it while the first nomination is in flight"),
 "C01-b": ("both reach Connected: controlled agent drops a deferred nomination", "USE-CANDIDATE reaches the controlled agent before its pair is valid, then a duplicate/re-ordered ordinary request on that pair is handled before the answer to the triggered check"),
 "C02-a": ("still-outstanding / ended-generation clause: Restart keeps unanswered requests younger than 4 s", "a check sent < 4 s before Restart and unanswered; peer keeps its password; same remote address signalled again; late signed answer"),
 "C02-b": ("USERNAME clause: only the local fragment is compared while the remote ufrag is unknown", "window before SetRemoteCredentials / after Restart; request '<local>:<anything>' signed with the local password"),
 "C03-a": ("plain USE-CANDIDATE moves the selection to a lower-priority pair (check/use gap on the controlled side)", "higher-priority pair valid but nothing selected; USE-CANDIDATE deferred on an unvalidated lower pair; USE-CANDIDATE selects the high pair; late answer of the low pair's triggered check"),
 "C03-b": ("controlling side selects on the answer of an ordinary check on the nominated pair", "an ordinary check still in flight when nomination starts; its answer arrives before the USE-CANDIDATE answer"),
 "C04-a": ("zero failed timeout no longer disables Failed", "FailedTimeout = 0 with DisconnectedTimeout > 0 and silence longer than the latter across two ticks"),
 "C04-b": ("checking deadline not re-armed after Restart from a deadline failure", "never selects, fails by the deadline, Restart, first tick"),
 "C05-a": ("controlled receiver with equal tie-breaker keeps its role and answers 487", "receiver controlled and tie-breakers exactly equal"),
 "C05-b": ("winner sends no 487 when the conflicting request comes from an unknown source", "conflicting request from an address that is not yet a remote candidate and the receiver wins"),
 "C06-a": ("pair id index goes stale when a signalled candidate supersedes a prflx one", "inbound check from unknown source, then the signalled candidate, then use by id (WriteToPair)"),
 "C06-b": ("Failed through the checking deadline leaves the generation behind", "no pair ever selected; Failed by timeout"),
 "C07-a": ("non-STUN data accepted from an address known only on another transport", "remote candidate signalled for TCP only; datagram from that ip:port on a UDP local candidate"),
 "C07-b": ("Conn.Write caches the first pre-selection pair", "write before selection, then the validated set changes (better pair / Restart / Failed) with nothing selected, then another write"),
 "C08-a": ("abortIO only sets the write deadline: Close hangs when a socket's Close fails without releasing the read", "started agent (recv loop parked in ReadFrom) and a socket whose Close returns an error and keeps the read blocked"),
 "C08-b": ("a GracefulClose that is not the first close returns while a handler still runs", "handler busy, plain Close first, then GracefulClose"),
 "C09-a": ("srflx socket leaked when the STUN answer arrives after cancellation", "Restart while a Binding request is in flight, answer arrives afterwards within the gather timeout"),
 "C09-b": ("relay onClose skipped when closing the relayed conn returns an error", "relay candidate started normally; relay conn Close returns an error at Restart/Failed/Close"),
 "C10-a": ("Run returns ctx error for a task that is running and completes", "submitter's context cancelled between hand-off and completion"),
 "C10-b": ("Conn.Write reads the checklist outside the task loop before selection", "Conn.Write before selection concurrently with a change of the checklist"),
 "C11-a": ("selected-pair notifier clears its running flag before the last handler call", "slow handler still running with an empty queue when the next selection is enqueued"),
 "C11-b": ("a cancelled cycle's late Complete is applied once the next cycle is Gathering", "GatherCandidates, Restart mid-cycle, GatherCandidates again before the old cycle has unwound (unanswered STUN)"),
 "C09-a": ("srflx socket leaked when the STUN answer arrives after cancellation (early return before the close)", "Restart while a Binding request is in flight; the answer arrives afterwards within the gather timeout"),
 "C09-b": ("relay onClose skipped when closing the relayed conn returns an error", "relay candidate started normally; relay conn Close returns an error at Restart/Failed/Close"),
 "C10-a": ("Run returns the context error for a task that is running and completes", "the submitter's context is cancelled between hand-off and task completion"),
 "C10-b": ("Conn.Write reads the checklist outside the task loop before selection", "Conn.Write before selection concurrently with a change of the checklist"),
 "C11-a": ("selected-pair notifier clears its running flag before the last handler call (handler overlaps itself)", "slow handler still running with an empty queue when the next selection is enqueued"),
 "C11-b": ("a cancelled cycle's late Complete is applied once the next cycle is Gathering (nil in the middle of the new cycle)", "GatherCandidates, Restart mid-cycle, GatherCandidates again before the old cycle has unwound"),
 "C13-a": ("sharedPacketConn.Close without sync.Once: overlapping Close calls on one handle release several references", "≥2 handles; two Close calls on the same handle overlapping within a few instructions"),
 "C13-b": ("last writer no longer clears an abort whose deadline is not armed yet: socket left blocked forever", "the last in-flight write returns between abortWrite setting the blocked bit and SetWriteDeadline finishing"),
 "C14-a": ("header and payload written separately: orphan length header when the write buffer fills between them", "WriteBufferSize > 0, stalled peer, buffer full exactly after the header"),
 "C14-b": ("reader continues after a frame larger than its buffer: packets fabricated from the frame body", "peer sends a frame with length > 8192 on an established connection"),
 "C15-a": ("alive timer of a claimed provisional connection re-armed when another TCP connection attaches", "first frame before GetConnByUfrag, claim, second connection of the same ufrag, alive duration elapses"),
 "C15-b": ("FirstStunBindTimeout becomes a per-read idle timeout", "client dribbling bytes more often than the timeout without completing the frame"),
 "C16-a": ("Marshal writes an IPv4-mapped address as plain IPv4: round trip not Equal", "IPv4-mapped IPv6 connection address"),
 "C16-b": ("DTLS-in-STUN ACK decoded into the receiver's old slice without truncation", "same attribute variable reused for a shorter message"),
 "C17-a": ("srflx TCP candidates get the host direction-preference table", "srflx × tcp × tcptype active/passive/so"),
 "C17-b": ("2·max computed in uint32: pair priority wraps when max(G,D) ≥ 2^31", "a candidate priority ≥ 2147483648"),
 "C19-a": ("iface+CIDR catch-all no longer outranks an iface-only catch-all", "iface-only rule declared before an iface+CIDR rule of the same interface; lookup inside the CIDR"),
 "C19-b": ("Networks restriction checked against the external IP's family", "rule with Networks that maps across families (Local/CIDR of one family, External of the other)"),
 "C20-a": ("controlled side: a parked older nomination overrides a newer one", "nomination N deferred on an invalid pair, N+1 applied on a valid pair, then pair N's check succeeds"),
 "C20-b": ("controlling side forgets the latest applied value when re-nominating the still-selected pair", "renominate A (N), renominate back to the selected pair B (N+1) before answer N; answers reordered"),
 "C12-a": ("stale 'last written address' fast path after a take-over", "ownership sequence A→X, B→X, A→X with A writing nowhere else in between"),
 "C12-b": ("IP family for the ufrag lookup taken from the raw (IPv4-mapped) source", "first STUN packet of an unseen source arrives in IPv4-mapped form"),
 "C01-c": ("both reach Connected: a new check on a pair deletes the transaction still pending for that pair", "every answer arrives later than the next check on its pair (RTT > check interval) for the whole retry budget and the last check is lost"),
 "C01-d": ("controlling side selects on the answer of an ordinary check once nomination has begun, and stops nominating", "two ordinary checks in flight before the first answer; the single USE-CANDIDATE request is lost; the late second answer arrives"),
 "C03-c": ("role/enable check of RenominateCandidate hoisted out of the task loop (TOCTOU with a role switch)", "renomination enabled; RenominateCandidate queued behind an inbound role-conflicting check that the agent loses"),
 "C03-d": ("Restart keeps the in-flight transactions younger than 4 s", "controlling agent restarted with a nomination unanswered; peer keeps password and address; the old answer arrives after the remote candidate was re-added"),
 "C06-c": ("Restart of an agent that was never started keeps checklist, pair index, pending transactions and selection", "candidates added on both sides (pairs exist) before Start, then Restart"),
 "C06-d": ("addCandidate queues its task under the loop context instead of the gather context (rebased on fix f5f740e: and without the in-loop re-check)", "a gatherer inside addCandidate after the context pre-check when Restart runs"),
 "C08-c": ("tcpPacketConn read loop blocks on a full receive queue while holding what Close waits for", "TCP mux passive candidate with a small read buffer, peer floods it while nothing drains, then Close"),
 "C08-d": ("Close waits for the gathering goroutine only when the state is still Gathering", "GatherCandidates, Restart (state back to New) with the cancelled cycle still winding down, then Close"),
 "C09-c": ("srflx UDP-mux gatherer takes the muxed conn before the STUN round trip and drops it on the error return", "UDPMuxSrflx configuration and a failed/unanswered/cancelled STUN exchange"),
 "C09-d": ("relay release hook attached to the last alias of an allocation instead of the first", "relay address rewrite yielding ≥2 addresses and Restart/Close while the TURN Allocate is in flight, response afterwards"),
 "C12-c": ("connWorker registers the source address on receive after the ufrag lookup", "STUN from a new address carrying the ufrag of a conn → later non-STUN from that address; or an address moving between conns"),
 "C12-d": ("a muxed conn closed through its own Close keeps its address bindings", "conn.Close() (not RemoveConnByUfrag) after addresses were bound, then traffic from those addresses / a new conn with another ufrag"),
 "C02-c": ("liveness clause: the validated-source cache is consulted before the STUN branch, so any STUN-looking datagram from a cached address refreshes LastReceived", "the address first delivered application data to that local candidate (cache filled); then forged/unauthenticated STUN through the socket path"),
 "C02-d": ("still-outstanding clause: expired transactions are pruned only when the transaction id is not found", "answer arrives > 4 s after its request and the agent sent no Binding request in between"),
 "C04-c": ("data on the cached fast path no longer refreshes liveness", "no STUN arriving while ≥ 2 data packets flow from the selected remote (keepalive 0 / peer that stops answering)"),
 "C04-d": ("explicit zero DisconnectedTimeout in AgentConfig not treated as explicit: a lite agent gets the 10 s lite default back", "lite agent built from AgentConfig with DisconnectedTimeout=&0; silence > 10 s or never selecting"),
 "C05-c": ("a same-role request whose tie-breaker is 0 is not treated as a role conflict", "sender's tie-breaker exactly 0"),
 "C05-d": ("a lite agent never leaves the controlled role on a conflict", "lite receiver in the controlled role holding the larger or equal tie-breaker"),
 "C07-c": ("Write/WriteToPair refuse STUN only when the first byte is 0..3", "payload with first byte ≥ 4 and the magic cookie at offset 4 that decodes as STUN (e.g. RTP v2 header with timestamp 0x2112A442)"),
 "C07-d": ("inbound bytes are added to the selected pair only if the datagram travelled over that pair", "accepted datagram from another known remote / on another local candidate while one pair stays selected"),
 "C10-c": ("startConnectivityChecks releases the start mutex before its task-loop round trips (check-then-act)", "two start calls in flight at once, the second check before the first start task runs"),
 "C10-d": ("Binding indications are handled on the receive goroutine instead of as a loop task", "a Binding indication arriving while the remote candidate set changes (AddRemoteCandidate, Restart, Failed)"),
 "C11-c": ("GracefulClose after a plain Close no longer waits for a running handler", "Close() while a handler runs, then GracefulClose() before the handler returns"),
 "C11-d": ("relay gatherer's early return (TURN URL without credentials) skips the wait for allocations already started", "URL list [valid TURN, TURN without credentials]; the first allocation still in flight when the other gatherers finish"),
 "C13-c": ("a context-bound write cancelled right after admission never leaves the in-flight count", "ctx cancelled between the two ctx checks of writeToContext; then any abortWrite; then any write"),
 "C13-d": ("a cancelled reader returns before re-checking the queue, having consumed the shared wake-up token", "≥2 handles of one ufrag with reads parked; a packet's token goes to handle A's reader while A is being closed"),
 "C14-c": ("framing decode buffer shared by all connections of one tcpPacketConn", "≥2 live TCP connections under one ufrag; a frame on one arriving in several segments with data on the other in between"),
 "C14-d": ("oversize guard compares the payload with the maximum frame length (off by the header length)", "payload of exactly 65536 or 65537 bytes"),
 "C15-c": ("writeStreamingPacket sends header and payload as two Write calls", "two concurrent WriteTo calls to the same peer, the second between the two writes of the first"),
 "C15-d": ("IP family of an accepted connection taken from the length of the local IP", "dual-stack wildcard listener (16-byte IPv4-mapped local IP) with an IPv4 client"),
 "C16-c": ("tcptype extension only interpreted when the transport token starts with tcp", "candidate marshalled as 'udp … tcptype x' (constructor with UDP network + TCP type, or mDNS host)"),
 "C16-d": ("extensionsEqual tests 'other ⊆ own' instead of multiset equality", "parsed candidates whose equal-length extension lists repeat an identical entry"),
 "C17-c": ("TCP type-preference guard compares the offset with the constant 126 instead of the candidate's base preference", "TCP network type with srflx (offsets 101..125) or prflx (offsets 111..125)"),
 "C17-d": ("Priority() memoizes its value; SetComponent / attaching to an agent do not clear it", "read the priority, then SetComponent(n) or start() with a non-default TCP offset, then read again"),
 "C18-c": ("extra sockets of a multi-IP srflx rewrite rule get (portMin, portMax) swapped", "srflx rewrite rule with ≥ 2 external IPs and a port range (one-sided or closed)"),
 "C18-d": ("the continual-gathering network monitor runs under the loop context instead of the cycle context", "GatherContinually, GatherCandidates, Restart, then a new interface address appears"),
 "C19-c": ("validateIPString classifies IPv4-mapped IPv6 text as IPv6 (netip Is4)", "a rule (External, Local or a legacy entry) written in IPv4-mapped form such as ::ffff:203.0.113.7"),
 "C19-d": ("a valid legacy ext/local pair resets the 'catch-all already seen' memory", "legacy list: catch-all, then an explicit pair, then a second catch-all of the same family"),
 "C20-c": ("replacePairRemote no longer copies deferredNominationValue", "controlled agent: renomination from an unsignalled address (prflx + deferred), AddRemoteCandidate supersedes it before the triggered check is answered, target has lower priority"),
 "C20-d": ("controlled side compares nomination values with 24-bit serial-number arithmetic", "two values at least 2^23 apart (timestamp/stride generators, jump to 0xFFFFFF)"),
 "C18-a": ("site-local filter narrowed from fec0::/10 to fec0::/16", "an interface address in fec1::…feff:: with an IPv6 network type enabled"),
 "C18-b": ("GatherCandidates no longer supersedes a pending (not yet started) cycle", "a second GatherCandidates executed after the first was accepted but before its goroutine marked the state Gathering"),
 "C01-e": ("the checking deadline is started only the first time the agent ever enters Checking", "Restart later than disconnected+failed timeout (wall clock) after the first Checking"),
 "C01-f": ("replacePairRemote no longer copies nominateOnBindingSuccess / deferredNominationValue", "controlled agent knows the peer only as prflx, USE-CANDIDATE arrives before its own check succeeded, the signalled candidate lands before the triggered-check answer"),
 "C02-e": ("responseSymmetric compares the address family instead of the network type", "UDP and TCP enabled, peer at the same ip:port on both; the signed answer to a UDP check delivered on the TCP local candidate"),
 "C02-f": ("a request reusing a just-authenticated transaction id skips the integrity check", "valid request with transaction T from X, then within 4 s a forged request from X reusing T with the correct USERNAME"),
 "C03-e": ("supersession of a prflx remote re-selects the replaced pair when its nominated flag is set (not when it is the selected pair)", "controlling: nomination in flight, then the trickled candidate arrives; controlled: selection moved away by renomination, then the trickle"),
 "C03-f": ("authentic transaction-matched error responses reach HandleSuccessResponse", "the peer answers a nomination (or the triggered check of a deferred nomination) with 487/400"),
 "C04-e": ("setSelectedPair(nil) moved into setSelector: a role switch clears the selection", "connected, then an authenticated check from the selected remote claiming our role with the winning tie-breaker, then silence and ticks"),
 "C04-f": ("Restart from Disconnected does not report Checking", "silence beyond the disconnected timeout, tick (Disconnected), Restart"),
 "C06-e": ("TCP-active remote candidates are kept when active TCP is disabled", "agent with DisableActiveTCP and a peer signalling a tcptype active candidate"),
 "C06-f": ("deleteAllCandidates only walks the configured network types", "agent restricted with NetworkTypes and a remote candidate of another type (IPv6/TCP), then Restart or Failed"),
 "C05-e": ("a role-conflicting request is also passed to the application's binding-request handler", "BindingRequestHandler option with a handler that approves; a pair already in the checklist"),
 "C05-f": ("on a lost conflict the selector is re-created only if no pair is selected yet", "agent connected (selected pair), then a conflict it loses"),
 "C07-e": ("a peer-reflexive candidate is put into the local candidate's source cache before the remote IP filter decides", "RemoteIPFilter refusing an address; an authentic check from it, then application data from it"),
 "C07-f": ("replacePairRemote loads packetsReceived from packetsSent", "prflx remote selected, traffic with unequal sent/received datagram counts, then the signalled candidate for the same address"),
 "C08-e": ("activeTCPConn.Close returns the socket's close error before closing its buffers", "active ICE-TCP candidate whose TCP connection died (peer reset) before Close"),
 "C08-f": ("UniversalUDPMux GetXORMappedAddrContext waits on a timeout derived from context.Background()", "UDPMuxSrflx gathering, STUN server silent, Close/Restart while waiting for the answer"),
 "C09-e": ("srflx-mapped gatherer skips the location-tracking-filtered first external address without closing the base socket", "srflx rewrite rule matching the wildcard address whose first external IP is IPv6 link-local"),
 "C09-f": ("TURNS/TCP: cleanup after a failed TLS handshake closes a nil locConn instead of the dialed socket", "turns: URL over TCP, TCP connect succeeds, TLS handshake fails for a reason other than cancellation"),
 "C10-e": ("the tick of a controlled lite agent runs on the timer goroutine instead of inside the task loop", "lite agent in the controlled role; a tick while another task / API call / inbound message is in progress"),
 "C10-f": ("GetRemoteCandidates hands out the agent's own array (capacity-clipped slice)", "caller keeps the result; a signalled candidate then supersedes a peer-reflexive one (in-place compaction)"),
 "C11-e": ("GatherCandidates no longer cancels a previous, not yet started cycle", "a second GatherCandidates call before the first call's goroutine has marked the agent Gathering"),
 "C11-f": ("an overlapping second closer skips waiting for the teardown (loop.Done already closed)", "two overlapping Close/GracefulClose calls while the teardown is slow (gathering in flight)"),
 "C12-e": ("the universal mux consumes valid XOR-MAPPED-ADDRESS responses of a known STUN server instead of passing them on", "UniversalUDPMux, a prior GetXORMappedAddr(S), a conn that wrote to S, then S's Binding success response"),
 "C12-f": ("the address-map key drops the IPv6 zone", "two link-local peers with the same IP and port on different interfaces, each written to by a different conn"),
 "C13-e": ("the netip.AddrPort write path is admitted with a bare counter increment (does not wait for an abort in progress)", "AddrPort-capable socket; another user's WriteToAddrPort while a blocked write is being aborted"),
 "C13-f": ("tcpPacketConn.AddConn re-arms the alive timer that taking a handle had stopped", "conn created from STUN, user takes a handle, a second TCP connection arrives, the alive duration elapses"),
 "C14-e": ("TCP mux reads the first frame through a throw-away bufio reader", "a client whose further frames are coalesced with its first binding request"),
 "C14-f": ("activeTCPConn frames in place in a receiveMTU-sized buffer", "payload of exactly 8191 or 8192 bytes over active TCP"),
 "C15-e": ("first-frame buffer of handleConn recycled through a sync.Pool while still queued", "first frame of A unread (provisional conn) when another connection's handleConn reuses the buffer"),
 "C15-f": ("closing one of two local-address conns of a ufrag drops the whole per-ufrag map", "same ufrag registered on two local IPs of a wildcard listener; one closed; a new client on the other"),
 "C16-e": ("the parser strips the IPv6 zone from the related address while Marshal writes it verbatim", "srflx/prflx/relay built through a constructor with RelAddr 'fe80::…%eth0'"),
 "C16-f": ("related-address equality treats the receiver's rport 0 as a wildcard (asymmetric Equal)", "two candidates identical except for the related port, exactly one of them 0"),
 "C17-e": ("AgentConfig.TCPPriorityOffset pointing at 0 is treated as unset (default 27 applies)", "agent built through NewAgent(&AgentConfig{TCPPriorityOffset: &zero}) with a TCP candidate attached"),
 "C17-f": ("computed foundation also hashes the related address", "two srflx/prflx/relay candidates of equal type, address and network type built with different RelAddr"),
 "C18-e": ("relay gatherer ignores an IP-only filter (TURN client socket on the wildcard address)", "relay enabled, TURN/UDP URL, IP filter set, no interface filter"),
 "C18-f": ("a loopback remote passive TCP candidate overrides IncludeLoopback=false", "TCP network type, IncludeLoopback off, AddRemoteCandidate with a passive TCP candidate on 127.0.0.1 / ::1"),
 "C19-e": ("findIfaceForIP compares netip addresses without Unmap: 16-byte IPv4 never matches", "relay rule with Iface set on the real gatherCandidatesRelay path"),
 "C19-f": ("zero-length CIDR prefixes (0.0.0.0/0, ::/0) are not stored on the rule", "a /0 rule plus an other-family lookup / external / Local, or a less specific competitor declared earlier"),
 "C20-e": ("controlled agent sends no triggered check for a nominated pair in state Failed once a pair is selected", "both connected; renominated pair Failed on the controlled side (its budget ran out), valid on the controlling side"),
 "C20-f": ("WithAutomaticRenomination alone makes the agent renominate (two cooperating edits)", "controlling agent with automatic renomination but without WithRenomination; relay pair selected, host pair valid"),
 "C01-g": ("pingAllCandidates computes the budget as maxBindingRequests+1 in uint16: 65535 wraps to 0 and every pair fails at once", "MaxBindingRequests = 65535 on the controlling agent"),
 "C02-g": ("a success response is verified under the password stored with its transaction, not the current remote password", "SetRemoteCredentials again mid-session while a check is outstanding; answer signed with the old password"),
 "C03-g": ("a refused (older) nomination value triggers a check from the controlled selector, also on lite agents", "lite controlled agent; a peer whose nomination values arrive out of order on a pair not yet valid"),
 "C04-g": ("findRemoteCandidate searches newest-first: traffic refreshes a later twin candidate, the selected remote looks silent", "after selection the peer trickles a second candidate of another type on the same transport address; only STUN flows"),
 "C05-g": ("200 ms hold-off after a role switch: further role-conflicting requests are dropped", "a lost conflict, then within 200 ms a request carrying the agent's new role"),
 "C06-g": ("findRemoteCandidate fast path returns the selected pair's remote regardless of the receiving candidate's transport", "peer with a UDP and a passive TCP candidate on one ip:port; one selected; STUN arrives over the other transport"),
 "C07-g": ("tcpPacketConn reader queues frames that alias two fixed buffers", "TCP mux with ReadBufferSize > 0 and a burst of frames on one connection while the read loop is held up"),
 "C08-g": ("validateNonSTUNTraffic queues its lookup under the loop context instead of the candidate's", "Restart / Failed while non-STUN datagrams from an unknown address are being read by a receive loop, then Close"),
 "C09-g": ("rejected duplicate srflx/relay candidates no longer close their connection", "UDPMuxSrflx with two STUN URLs that report the same mapped address"),
 "C10-g": ("the network monitor replaces lastKnownInterfaces on its own goroutine", "GatherContinually; Restart + GatherCandidates while the monitor ticks"),
 "C11-g": ("selected-pair notifications are suppressed when the pair equals (structurally) the last reported one, which survives Restart", "Restart and reconnection on unchanged transport addresses (mux / one-port range)"),
 "C12-g": ("a closing muxed connection returns its queued buffers to the pool without resetting their links", "a connection removed or closed with ≥ 2 unread datagrams, then traffic for another connection of the mux"),
 "C13-g": ("sharedPacketConn records that it armed a write deadline only when the underlying call returned nil", "TCP mux, two TCP connections of which one fails SetWriteDeadline, a handle closed the candidate way, then a sibling writes"),
 "C14-g": ("handleConn takes its first-frame buffer from a sync.Pool while the packet connection keeps the slice", "two inbound connections and a reader that has not yet consumed the first one's first packet"),
 "C15-g": ("bufferedConn.Close waits for the writer goroutine before closing the socket", "WriteBufferSize > 0, a client that stopped reading with frames queued, then Close"),
 "C16-g": ("Marshal caches its text; the tcptype branch of AddExtension does not invalidate it", "Marshal once, AddExtension({tcptype,…}), Marshal again"),
 "C17-g": ("checks carry PRIORITY computed with the peer-reflexive type preference", "a check reaches the peer before the sending candidate was signalled; the signalled candidate then supersedes the prflx one"),
 "C18-g": ("listenUDPInPortRange drops the IPv6 zone inside the port-range loop", "IPv6 link-local interface address, a configured port range, mDNS gather mode"),
 "C19-g": ("the interface host path skips IPv6 externals for IPv4 local addresses", "Local-pinned or IPv4-CIDR-scoped host rule mapping an IPv4 local address to an IPv6 external"),
 "C20-g": ("with EnableUseCandidateCheckPriority a renomination only switches to a strictly higher-priority pair", "that option on the controlled agent; renomination to a valid pair of lower or equal priority"),
}
res = {}
for ln in open('/verif/.work/confirm_results.txt'):
    m = re.match(r'(C\d\d-\w): demo-clean=\[(.*?)\] demo-with-patch=\[(.*?)\] suite-with-patch=\[(.*)\]\s*$', ln)
    if m:
        res[m.group(1)] = m.groups()[1:]
RETIRED = set(os.listdir('/verif/seeded/retired')) if os.path.isdir('/verif/seeded/retired') else set()
for sid, (clean, mut, suite) in sorted(res.items()):
    if sid in RETIRED:
        continue  # neutralised by a later repair of pion/ice (see seeded/retired/README.md)
    ok = clean.startswith('ok') and 'FAIL' in mut and ('FAIL' not in suite.split('||')[0] or re.search(r'retry-alone\([^)]*\)=\[ok', suite))
    src = '/tmp/seed/out/' + sid
    dst = '/verif/seeded/' + sid
    if not ok:
        print(sid, "NOT CONFIRMED:", clean, mut, suite[:200])
        continue
    if not os.path.isdir(src) and not os.path.isdir(dst):
        continue
    os.makedirs(dst, exist_ok=True)
    for f in ('patch.diff', 'demo_test.go', 'notes.md'):
        if os.path.exists(os.path.join(src, f)):
            shutil.copy(os.path.join(src, f), os.path.join(dst, f))
    d = DESCR.get(sid, ("", ""))
    meta = {
        "id": sid, "property": sid.split('-')[0], "breaks": d[0], "needs_to_manifest": d[1],
        "origin": "written by a sub-agent that saw only the property text and its own scratch worktree",
        "confirmed_by_me": {
            "command": "/verif/confirm_seed.sh %s (scratch worktree of /repo HEAD outside /repo and /verif, removed afterwards)" % sid,
            "demo_on_unchanged_tree": clean, "demo_with_patch": mut, "pinned_suite_with_patch": suite,
        },
    }
    old = os.path.join(dst, 'meta.json')
    if os.path.exists(old):
        o = json.load(open(old))
        for k in ('detected_by', 'also_check'):
            if k in o:
                meta[k] = o[k]
    json.dump(meta, open(old, 'w'), indent=1, ensure_ascii=False)
    print(sid, "imported")
