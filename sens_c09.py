#!/usr/bin/env python3
"""Per-site sensitivity for C09: delete one closeConnAndLog call at a time in gather.go and run the quick check."""
import re, subprocess, sys, os, tempfile
src = open('/repo/gather.go').read()
sites = []
for m in re.finditer(r'closeConnAndLog\(', src):
    line = src.count('\n', 0, m.start()) + 1
    if src[:m.start()].rstrip().endswith('func'):
        continue
    # find matching paren
    i = m.end(); depth = 1
    while depth:
        c = src[i]
        if c == '(': depth += 1
        elif c == ')': depth -= 1
        i += 1
    sites.append((line, m.start(), i))
sites = [s for s in sites if 'func closeConnAndLog' not in src[max(0,s[1]-5):s[1]+20]]
print(len(sites), "sites")
res = []
for k, (line, a, b) in enumerate(sites):
    mut = src[:a] + '_ = 0' + src[b:]
    mf = '/tmp/muts/sens_c09_%d.py' % k
    open(mf, 'w').write("import sys\nopen(sys.argv[1]+'/gather.go','w').write(%r)\n" % mut)
    out = subprocess.run(['/verif/mut.sh', 'C09', 'quick', mf], capture_output=True, text=True).stdout
    sig = re.findall(r'signature=(\S+)', out)
    rc = re.findall(r'mut rc=(\d+)', out)
    ctx = src[a:b].replace('\n', ' ')[:90]
    print("site line %d rc=%s sig=%s :: %s" % (line, rc, sig[:1], ctx), flush=True)
