#!/usr/bin/env python3
"""Runs every hand-written mutation under /verif/mutations (m_<cNN>_<x>.py: receives a worktree dir, edits it)
against the quick tier of its property and writes /verif/.work/sens_all.json (input of SENSITIVITY.md)."""
import json, os, re, subprocess, sys
V = '/verif'
out_path = os.path.join(V, '.work', 'sens_all.json')
res = json.load(open(out_path)) if os.path.exists(out_path) else {}
only = sys.argv[1:]
for f in sorted(os.listdir(os.path.join(V, 'mutations'))):
    m = re.match(r'm_(c\d\d)_(\w+)\.py$', f)
    if not m or (only and m.group(1).upper() not in only):
        continue
    pid = m.group(1).upper()
    if f in res and not only:
        continue
    src = open(os.path.join(V, 'mutations', f)).read()
    out = subprocess.run([os.path.join(V, 'mut.sh'), pid, 'quick', os.path.join(V, 'mutations', f)], capture_output=True, text=True).stdout
    rc = re.findall(r'mut rc=(\d+)', out)
    sigs = sorted(set(re.findall(r'signature=(\S+)', out)))
    target = re.findall(r"argv\[1\]\+'/([\w/\.]+)'", src)
    res[f] = {"property": pid, "file": target[0] if target else "?", "rc": int(rc[-1]) if rc else -1, "signatures": sigs}
    print(f, rc, sigs, flush=True)
    json.dump(res, open(out_path, 'w'), indent=1)
