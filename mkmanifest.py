#!/usr/bin/env python3
"""Regenerates MANIFEST.json from checks.json (single source of truth for what is claimed)."""
import json, os, subprocess
V = os.path.dirname(os.path.abspath(__file__))
cfg = json.load(open(os.path.join(V, "checks.json")))
props = [json.loads(l) for l in open(os.path.join(V, "properties.jsonl"))]
hooks_commits = []
hp = os.path.join(V, "hook_commits.txt")
if os.path.exists(hp):
    hooks_commits = [l.split()[0] for l in open(hp) if l.strip()]
checks, na = [], []
for p in props:
    pid = p["id"]
    c = cfg.get(pid)
    if not c or c.get("disabled"):
        na.append({"property_id": pid, "reason": (c or {}).get("na_reason", "check not built yet in this round (planned in DESIGN.md §5)")})
        continue
    checks.append({
        "property_id": pid,
        "quick_cmd": "./vcheck %s quick" % pid,
        "thorough_cmd": "./vcheck %s thorough" % pid,
        "evidence_file": "/verif/evidence/%s.json" % pid,
        "replay_cmd_template": "./vcheck %s --replay {path}" % pid,
        "engine": "vcheck",
        "level_claimed": {"category": c.get("level", "exploration"), "text": c["level_text"], "design_ref": c.get("design_ref", "DESIGN.md §5 " + pid)},
        "level_note": c["level_note"],
        "technique": c["technique"],
    })
m = {
    "version": 1,
    "setup_cmd": "./vcheck setup",
    "hooks": {
        "guard": "verif",
        "enable": "go test -tags verif (harness files from /verif/harness are compiled into package ice of /repo through -overlay/-modfile; nothing is written under /repo)",
        "baseline_off_cmd": "cd /repo && GOFLAGS=-mod=mod GOPROXY=off go test -vet=off -count=1 -timeout 25m ./...",
        "source_commits": hooks_commits,
        "add_only": True,
    },
    "engines": [{"name": "vcheck", "path": "/verif/vcheck", "serves_properties": [c["property_id"] for c in checks],
                 "kind_free_text": "python driver: builds the rapid/fuzz harness (package ice, tag verif) against /repo's working tree, shards it, merges per-case statistics into evidence, maps outcomes to exit codes"}],
    "checks": checks,
    "not_applicable": na,
    "notes": "Technique family: property-based testing / fuzzing (pgregory.net/rapid v1.3.0, native go fuzzing in thorough tiers). Known findings: /verif/known_findings.json. See DESIGN.md.",
}
json.dump(m, open(os.path.join(V, "MANIFEST.json"), "w"), indent=1)
print("checks:", len(checks), "not_applicable:", len(na))
