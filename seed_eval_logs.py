#!/usr/bin/env python3
"""seed_eval_logs.py <dir> <id>... — records in seeded/results.json the outcome of `mut.sh <property> quick <patch>` runs whose
output was saved as <dir>/<id>.txt (the same command seed_eval.py issues; used when the runs were made in parallel)."""
import json, os, re, sys
V = '/verif'
res_path = os.path.join(V, 'seeded', 'results.json')
res = json.load(open(res_path))
d = sys.argv[1]
for sid in sys.argv[2:]:
    f = os.path.join(d, sid + '.txt')
    if not os.path.exists(f) or not os.path.isdir(os.path.join(V, 'seeded', sid)):
        print(sid, 'skipped'); continue
    out = open(f, errors='replace').read()
    rc = re.findall(r'mut rc=(\d+)', out)
    sigs = sorted(set(re.findall(r'signature=(\S+)', out)))
    prop = sid.split('-')[0]
    res[sid] = {"property": prop, "runs": [{"check": prop, "tier": "quick", "rc": int(rc[-1]) if rc else -1, "signatures": sigs}],
                "detected": bool(rc) and rc[-1] == '1'}
    print(sid, res[sid]["detected"], sigs[:2])
json.dump(res, open(res_path, 'w'), indent=1)
