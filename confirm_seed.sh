#!/bin/bash
# usage: confirm_seed.sh <ID-x>   — confirms a seeded change in a scratch worktree (outside /repo and /verif):
# with the patch: builds, full pinned suite passes, the demonstration fails; without it the demonstration passes.
set -u
S=$1
SRC=/tmp/seed/out/$S
[ -d "$SRC" ] || SRC=/verif/seeded/$S
WT=/tmp/seedchk.$S
export GOFLAGS=-mod=mod GOPROXY=off
rm -rf "$WT"; git -C /repo worktree prune
git -C /repo worktree add --detach -q "$WT" HEAD || exit 3
cleanup() { git -C /repo worktree remove --force "$WT" >/dev/null 2>&1; rm -rf "$WT"; }
trap cleanup EXIT
PKG=.
grep -q '^package taskloop' "$SRC/demo_test.go" && PKG=./internal/taskloop
cp "$SRC/demo_test.go" "$WT/$PKG/zz_seed_demo_test.go"
cd "$WT"
R_CLEAN=$(go test -vet=off -count=1 -run 'TestSeedDemo' $PKG 2>&1 | tail -1)
git apply "$SRC/patch.diff" || { echo "$S: PATCH DOES NOT APPLY"; exit 3; }
go build ./... || { echo "$S: DOES NOT BUILD"; exit 3; }
R_MUT=$(go test -vet=off -count=1 -run 'TestSeedDemo' $PKG 2>&1 | tail -1)
go test -vet=off -count=1 -timeout 25m -skip 'TestSeedDemo' ./... > /tmp/seedchk.$S.suite.log 2>&1
R_SUITE=$(grep -E '^(ok|FAIL|--- FAIL|panic:)' /tmp/seedchk.$S.suite.log | tr '\n' ' ')
if grep -q '^FAIL' /tmp/seedchk.$S.suite.log && ! grep -q '^--- FAIL' /tmp/seedchk.$S.suite.log; then R_SUITE="$R_SUITE tail=[$(tail -5 /tmp/seedchk.$S.suite.log | tr '\n' ' ' | cut -c1-400)]"; fi
rm -f /tmp/seedchk.$S.suite.log
# socket/port based tests flake when other suites run on the machine: re-run failing top-level tests alone
FAILED=$(echo "$R_SUITE" | grep -oE -- '--- FAIL: [A-Za-z0-9_]+' | awk '{print $3}' | sort -u | tr '\n' '|' | sed 's/|$//')
if [ -n "$FAILED" ]; then
  R_RETRY=$(go test -vet=off -count=2 -run "^($FAILED)\$" . 2>&1 | tail -1)
  R_SUITE="$R_SUITE || retry-alone($FAILED)=[$R_RETRY]"
fi
echo "$S: demo-clean=[$R_CLEAN] demo-with-patch=[$R_MUT] suite-with-patch=[$R_SUITE]"
