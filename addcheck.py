#!/usr/bin/env python3
"""usage: addcheck.py <file.json>  — merges the given dict into checks.json"""
import json, sys
c = json.load(open('/verif/checks.json'))
n = json.load(open(sys.argv[1]))
for k, v in n.items():
    c.setdefault(k, {}).update(v)
json.dump(c, open('/verif/checks.json', 'w'), indent=1, ensure_ascii=False)
