#!/bin/bash
# sequential confirmation of seeded changes listed (one per line) in /verif/.work/seed_queue.txt
Q=/verif/.work/seed_queue.txt; OUT=/verif/.work/confirm_results.txt; DONE=/verif/.work/seed_done.txt
touch $Q $OUT $DONE
while true; do
  next=$(grep -vxF -f $DONE $Q | head -1)
  if [ -z "$next" ]; then sleep 20; continue; fi
  /verif/confirm_seed.sh "$next" >> $OUT 2>&1
  echo "$next" >> $DONE
done
