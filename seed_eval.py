#!/usr/bin/env python3
"""Evaluates seeded changes: for each /verif/seeded/<id>/ (or a /tmp/seed/out/<id> given on the command line)
runs the owning property's quick check (and the thorough one if quick misses) against a scratch worktree with
the patch applied, and records the outcome in /verif/seeded/results.json."""
import json, os, re, subprocess, sys
V = '/verif'
res_path = os.path.join(V, 'seeded', 'results.json')
res = json.load(open(res_path)) if os.path.exists(res_path) else {}
ids = sys.argv[1:] or sorted(d for d in os.listdir(os.path.join(V, 'seeded')) if os.path.isdir(os.path.join(V, 'seeded', d)))
for sid in ids:
    d = os.path.join(V, 'seeded', sid)
    patch = os.path.join(d, 'patch.diff')
    if not os.path.exists(patch):
        continue
    prop = sid.split('-')[0]
    extra = json.load(open(os.path.join(d, 'meta.json'))).get('also_check', []) if os.path.exists(os.path.join(d, 'meta.json')) else []
    entry = {"property": prop, "runs": []}
    for pid in [prop] + extra:
        for tier in ('quick', 'thorough'):
            out = subprocess.run([os.path.join(V, 'mut.sh'), pid, tier, patch], capture_output=True, text=True).stdout
            rc = re.findall(r'mut rc=(\d+)', out)
            sigs = sorted(set(re.findall(r'signature=(\S+)', out)))
            entry["runs"].append({"check": pid, "tier": tier, "rc": int(rc[-1]) if rc else -1, "signatures": sigs})
            print(sid, pid, tier, rc, sigs, flush=True)
            if rc and rc[-1] == '1':
                break
    entry["detected"] = any(r["rc"] == 1 for r in entry["runs"])
    res[sid] = entry
    json.dump(res, open(res_path, 'w'), indent=1)
