#!/usr/bin/env python3
"""covmap.py — statement coverage of pion/ice reached by the quick tier of all checks (diagnostic, not a check).
Builds one coverage-instrumented test binary from /repo + harness overlay, runs every registered rapid test with its
quick count, merges the profiles and prints the functions of the non-test sources with the lowest coverage.
Output: /verif/notes/coverage_quick.txt"""
import json, os, subprocess, sys, shutil, re
V = os.path.dirname(os.path.abspath(__file__)); sys.path.insert(0, V)
import importlib.machinery, importlib.util
loader = importlib.machinery.SourceFileLoader('vcheck', os.path.join(V, 'vcheck'))
spec = importlib.util.spec_from_loader('vcheck', loader); vc = importlib.util.module_from_spec(spec); loader.exec_module(vc)
repo = '/repo'
work = os.path.join(V, '.work', 'cov'); shutil.rmtree(work, ignore_errors=True); os.makedirs(work)
vc.prepare(work, repo)
env = vc.goenv()
profiles = []
for pkg, name in (('.', 'ice'), ('./internal/taskloop', 'taskloop')):
    out = os.path.join(work, name + '.test')
    cmd = ['go', 'test', '-c', '-vet=off', '-tags', 'verif', '-cover', '-coverpkg=./...', '-modfile=' + os.path.join(work, 'go.mod'),
           '-overlay=' + os.path.join(work, 'overlay.json'), '-o', out, pkg]
    p = subprocess.run(cmd, cwd=repo, env=env, capture_output=True, text=True)
    if p.returncode: print(p.stdout, p.stderr); sys.exit(2)
jobs = []
for pid, cfg in sorted(vc.CFG.items()):
    for ti, tc in enumerate(cfg['tests']):
        if tc.get('fuzz') or tc.get('thorough_only'): continue
        jobs.append((pid, ti, tc))
from concurrent.futures import ThreadPoolExecutor
def run(job):
    pid, ti, tc = job
    b = os.path.join(work, ('taskloop' if 'taskloop' in tc.get('pkg', '.') else 'ice') + '.test')
    prof = os.path.join(work, '%s.%s.prof' % (pid, tc['test']))
    rd = os.path.join(work, 'run', pid + tc['test']); os.makedirs(rd, exist_ok=True)
    e = dict(env); e.update({'VERIF_NOEVIDENCE': '1', 'VERIF_TIER': 'quick', 'VERIF_DIR': V, 'VERIF_REPO': repo, 'VERIF_KNOWN': vc.KNOWN_PATH,
                             'VERIF_STATS_DIR': rd, 'VERIF_SHARD': '0', 'VERIF_SHARDS': '1', 'VERIF_COUNT': str(tc.get('quick', 100))})
    for k, v in tc.get('env', {}).items(): e[k] = str(v)
    cmd = [b, '-test.run', '^%s$' % tc['test'], '-test.timeout', '900s', '-rapid.seed=%d' % (131 * 64 + ti + 1),
           '-rapid.checks=%d' % tc.get('quick', 100), '-test.coverprofile=' + prof]
    if tc.get('steps'): cmd.append('-rapid.steps=%d' % tc['steps'])
    p = subprocess.run(cmd, cwd=rd, env=e, capture_output=True, text=True)
    return (pid, tc['test'], p.returncode, prof)
with ThreadPoolExecutor(8) as ex:
    res = list(ex.map(run, jobs))
blocks = {}
for pid, t, rc, prof in res:
    if rc: print('rc', rc, pid, t)
    if not os.path.exists(prof): continue
    for l in open(prof):
        if l.startswith('mode:'): continue
        m = re.match(r'(\S+):(\S+) (\d+) (\d+)$', l.strip())
        if not m: continue
        k = (m.group(1), m.group(2), int(m.group(3)))
        blocks[k] = blocks.get(k, 0) + int(m.group(4))
merged = os.path.join(work, 'merged.prof')
with open(merged, 'w') as f:
    f.write('mode: set\n')
    for (fn, pos, n), c in sorted(blocks.items()):
        if '/zz_verif_' in fn: continue
        f.write('%s:%s %d %d\n' % (fn, pos, n, 1 if c else 0))
p = subprocess.run(['go', 'tool', 'cover', '-func=' + merged], cwd=repo, env=env, capture_output=True, text=True)
rows = []
for l in p.stdout.splitlines():
    m = re.match(r'(\S+):(\d+):\s+(\S+)\s+([\d.]+)%', l)
    if m: rows.append((float(m.group(4)), m.group(1).replace('github.com/pion/ice/v4/', ''), m.group(3)))
    elif l.startswith('total'): total = l
os.makedirs(os.path.join(V, 'notes'), exist_ok=True)
with open(os.path.join(V, 'notes', 'coverage_quick.txt'), 'w') as f:
    f.write('statement coverage of pion/ice non-test sources by the quick tier of all checks (rapid tests only, no native fuzz)\n' + total + '\n\n')
    for c, fn, fu in sorted(rows):
        f.write('%5.1f%%  %s  %s\n' % (c, fn, fu))
with open(os.path.join(V, 'notes', 'coverage_quick_uncovered.txt'), 'w') as f:
    f.write('blocks of pion/ice non-test sources not executed by the quick tier (file:startline.col,endline.col statements)\n')
    for (fn, pos, n), c in sorted(blocks.items(), key=lambda kv: (kv[0][0], int(kv[0][1].split('.')[0]))):
        if c == 0 and '/zz_verif_' not in fn and 'internal/fakenet' not in fn:
            f.write('%s:%s %d\n' % (fn.replace('github.com/pion/ice/v4/', ''), pos, n))
print(total)
shutil.rmtree(work, ignore_errors=True)
